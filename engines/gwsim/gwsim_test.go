//go:build verif

// Package gwsim: the real sending side of the SCION IP gateway (dataplane.Session, sender, encoder,
// pktRing) feeding the real receiving side (dataplane.IngressServer, worker, reassemblyList,
// frameBuf) through a simulated frame network, inside a synctest bubble. Property C41.
//
// Quiescence-stepped: the simulator applies exactly one stimulus (write one IP packet, let one parked
// frame leave the sender, hand one frame to the receiver, advance the clock, change the path), waits
// until every goroutine is durably blocked, and judges everything observed at the seams.
package gwsim

import (
	"context"
	"encoding/binary"
	"fmt"
	"net"
	"os"
	"runtime"
	"sync/atomic"
	"testing"
	"testing/synctest"
	"time"

	"github.com/gopacket/gopacket"
	"github.com/gopacket/gopacket/layers"

	"github.com/scionproto/scion/gateway/dataplane"
	"github.com/scionproto/scion/pkg/addr"
	"github.com/scionproto/scion/pkg/segment/iface"
	"github.com/scionproto/scion/pkg/snet"
	snetpath "github.com/scionproto/scion/pkg/snet/path"
	"github.com/scionproto/scion/private/ringbuf"
	"verif/sim/core"
)

func TestWorker(t *testing.T) {
	// One run at a time, stepped from quiescent point to quiescent point: nothing is gained from
	// several Ps, and idle Ps cost a lot on a loaded machine. The event logs are identical for
	// GOMAXPROCS 1 and 16 (set GOMAXPROCS explicitly to override).
	if os.Getenv("GOMAXPROCS") == "" {
		runtime.GOMAXPROCS(1)
	}
	core.Main(t, core.Engine{Name: "gwsim", Campaigns: map[string]core.RunFunc{
		"C41/clean":   func(r *core.Run) { run(r, modeClean) },
		"C41/faulty":  func(r *core.Run) { run(r, modeFaulty) },
		"C41/corrupt": func(r *core.Run) { run(r, modeCorrupt) },
		"C41/collide": func(r *core.Run) { run(r, modeCollide) },
		"C41/fresh":   func(r *core.Run) { run(r, modeFresh) },
	}})
}

type mode int

const (
	modeClean   mode = iota // no loss / duplication / reordering / corruption; stalls, sizes, MTUs, path changes
	modeFaulty              // frame drop / dup / reorder / delay, send errors, tunnel errors, path changes
	modeCorrupt             // modeFaulty plus truncation, bit flips and garbage frames
	modeFresh               // like clean, but long runs (up to 3000 small frames): every buffer of the receiver's pool is recycled within the run
	modeCollide             // no network faults at all; path changes at instants that give the new sender the stream id of an earlier one
)

const (
	maxOutstanding = 16 // assumption: packets written to one sender between two of its idle points
	hdrLen         = 16 // SIG frame header (doc/sig.rst)
)

var (
	localIA  = addr.MustParseIA("1-ff00:0:110")
	remoteIA = addr.MustParseIA("1-ff00:0:300")
)

type qframe struct {
	stream int // serial of the stream it came from (-1: made up by the network)
	data   []byte
}

type sim struct {
	r    *core.Run
	mode mode
	t0   time.Time

	nw          *frameNet
	tun         *tun
	cnt         *counterSet
	sess        *dataplane.Session
	sessID      uint8
	srvDone     atomic.Bool
	exitWorkers atomic.Bool
	exitServer  atomic.Bool
	poolRing    atomic.Pointer[ringbuf.Ring]

	pkts    []*packet
	strs    []*stream // index = serial
	cur     int       // serial of the stream new packets go to, -1: none
	curPath snet.Path
	queue   []qframe
	usedSID map[int64]bool
	keys    map[uint32]bool // (session id, stream id) pairs of well-formed frames handed to the receiver
	rawLen  int
	minMTU  int // smallest path MTU the sender accepts in this configuration (found by probing)

	released    int
	delivered   int
	nEmitted    int
	lastDrain   time.Time
	anyTaint    bool
	strictOnly  int // faulty modes: serial of the stream the clean oracle applies to (tail), else -1
	sizeBias    int
	single      bool // the run has one stream only (no path operations)
	frameBudget int  // frames per run after which no new packets are written
	pktBudget   int
	collided    bool // campaign collide: two senders were given the same stream id
	mtuBias     int
}

func (s *sim) now() time.Duration { return time.Since(s.t0) }

// faultFree: the campaign injects no network fault at all.
func (s *sim) faultFree() bool {
	return s.mode == modeClean || s.mode == modeCollide || s.mode == modeFresh
}

// ---- construction ----

func hostIP(v6 bool, last byte) net.IP {
	if v6 {
		ip := make(net.IP, 16)
		ip[0], ip[1], ip[15] = 0xfd, 0x00, last
		return ip
	}
	return net.IP{10, 0, 0, last}
}

func (s *sim) mkPath(serial, mtu int) snet.Path {
	return snetpath.Path{
		Src:           localIA,
		Dst:           remoteIA,
		DataplanePath: snetpath.SCION{Raw: make([]byte, s.rawLen)},
		NextHop:       &net.UDPAddr{IP: net.IP{127, 0, 0, 1}, Port: serial},
		Meta: snet.PathMetadata{
			MTU:        uint16(mtu),
			Interfaces: []snet.PathInterface{{ID: iface.ID(serial + 1), IA: localIA}, {ID: iface.ID(1000 + serial), IA: remoteIA}},
		},
	}
}

func (s *sim) guard(what string, f func()) bool {
	return s.r.Guard(core.PanicIsViolation, what, f)
}

func (s *sim) start() {
	r := s.r
	s.frameBudget, s.pktBudget = 1400, 300
	if s.mode == modeFresh {
		s.frameBudget, s.pktBudget = 3000, 900 // long enough to recycle every buffer of the pool
	}
	resetProcessState()
	s.t0 = time.Now()
	s.lastDrain = s.t0
	s.cur = -1
	s.strictOnly = -1
	s.usedSID = map[int64]bool{}
	s.keys = map[uint32]bool{}
	s.cnt = &counterSet{m: map[string]float64{}}
	s.tun = &tun{}
	locV6 := r.Choice("local-v6", 2) == 1
	gwV6 := r.Choice("gw-v6", 2) == 1
	s.rawLen = []int{0, 36, 60, 120}[r.Choice("rawpath", 4)]
	s.sessID = uint8(r.Choice("sessid", 256))
	s.sizeBias = r.Choice("sizebias", 4)
	s.mtuBias = r.Choice("mtubias", 4)
	s.nw = &frameNet{
		local:  &snet.UDPAddr{IA: localIA, Host: &net.UDPAddr{IP: hostIP(locV6, 1), Port: 30256}},
		remote: &snet.UDPAddr{IA: localIA, Host: &net.UDPAddr{IP: hostIP(locV6, 1), Port: 30256}},
		rx:     make(chan delivery),
	}
	gw := net.UDPAddr{IP: hostIP(gwV6, 2), Port: 30256}
	s.sess = &dataplane.Session{SessionID: s.sessID, GatewayAddr: gw, DataPlaneConn: s.nw}

	ringbuf.SimYield = func(rr *ringbuf.Ring, site string) {
		// End of run: the gateway's ingress goroutines have no way to be stopped from outside
		// (IngressServer.read ignores its context, workers end only through the server's 60 s
		// clean-up). They are ended at the point where they ask a ring for more work, which is the
		// only place where they hold no frame buffer of the process-wide pool. The first ring ever
		// read in a run is that pool (the server starts alone).
		if site != "read" {
			return
		}
		if s.poolRing.Load() == nil {
			s.poolRing.Store(rr)
		}
		if rr == s.poolRing.Load() {
			if s.exitServer.Load() {
				runtime.Goexit()
			}
		} else if s.exitWorkers.Load() {
			runtime.Goexit()
		}
	}

	srv := &dataplane.IngressServer{Conn: s.nw, DeviceManager: s.tun, Metrics: dataplane.IngressMetrics{
		FramesDiscarded: counter{set: s.cnt, name: "discard"},
	}}
	go func() {
		defer s.srvDone.Store(true)
		err := srv.Run(context.Background())
		panic(core.InfraError{Msg: fmt.Sprintf("IngressServer.Run returned: %v", err)})
	}()
	synctest.Wait()
	if !s.nw.serverParked() {
		panic(core.InfraError{Msg: "ingress server did not reach ReadFrom"})
	}

	// Find the smallest path MTU the sending gateway accepts for this address/path configuration
	// by asking it (a throw-away session on the same connection), not by repeating its arithmetic.
	probe := &dataplane.Session{SessionID: s.sessID, GatewayAddr: gw, DataPlaneConn: s.nw}
	accepts := func(m int) bool {
		var err error
		if s.guard("Session.SetPaths", func() { err = probe.SetPaths([]snet.Path{s.mkPath(9999, m)}) }) {
			return false
		}
		return err == nil
	}
	// assumption: acceptance is monotonic in the path MTU (re-checked below for the neighbours)
	lo, hi := 1, 64 // lo rejected, hi accepted (once the first loop ends)
	for !accepts(hi) {
		if r.Failed() {
			return
		}
		lo, hi = hi, hi*2
		if hi > 65535 {
			panic(core.InfraError{Msg: "no path MTU accepted"})
		}
	}
	for hi-lo > 1 {
		if mid := (lo + hi) / 2; accepts(mid) {
			hi = mid
		} else {
			lo = mid
		}
		if r.Failed() {
			return
		}
	}
	if accepts(hi-1) || !accepts(hi) || !accepts(hi+1) {
		panic(core.InfraError{Msg: "acceptance of path MTUs is not monotonic"})
	}
	s.minMTU = hi
	probe.Close()
	synctest.Wait()
	r.Logf("config local-v6=%v gw-v6=%v rawpath=%d sess=%d min-path-mtu=%d", locV6, gwV6, s.rawLen, s.sessID, s.minMTU)
}

// ---- stimuli ----

// newStream switches the session to a fresh path (new sender, new stream id).
func (s *sim) newStream(delta int) bool {
	r := s.r
	// The sender derives the stream id from the clock (low 16 bits of the nanosecond count): two
	// senders created at colliding instants would share a reassembly queue. Assumption: distinct.
	serial := len(s.strs)
	if s.mode == modeCollide && serial > 0 && r.FaultChance("stream-id.collision", 1, 2) {
		// wait (< 66 us) for the next instant whose nanosecond count agrees in the low 16 bits with
		// the instant at which the sender of an earlier stream of this session was created
		prev := s.strs[r.Choice("collide-with", serial)]
		time.Sleep(time.Duration((prev.born - time.Now().UnixNano()) & 0xffff))
		r.Logf("%v path change at an instant colliding with stream %d", s.now(), prev.serial)
	} else {
		for s.usedSID[time.Now().UnixNano()&0xffff] {
			time.Sleep(time.Nanosecond)
		}
	}
	s.usedSID[time.Now().UnixNano()&0xffff] = true
	mtu := s.minMTU + delta
	if mtu > 65535 {
		mtu = 65535
	}
	p := s.mkPath(serial, mtu)
	var err error
	if s.guard("Session.SetPaths", func() { err = s.sess.SetPaths([]snet.Path{p}) }) {
		return false
	}
	if err != nil {
		panic(core.InfraError{Msg: fmt.Sprintf("path MTU %d >= accepted minimum %d rejected: %v", mtu, s.minMTU, err)})
	}
	if s.cur >= 0 {
		s.strs[s.cur].closed = true
	}
	st := &stream{serial: serial, pathMTU: mtu, capEst: 41 + mtu - s.minMTU, sid: -1, born: time.Now().UnixNano()}
	s.strs = append(s.strs, st)
	s.cur = serial
	s.curPath = p
	r.Logf("%v path serial=%d mtu=%d (min+%d)", s.now(), serial, mtu, mtu-s.minMTU)
	if delta == 0 {
		r.Probe("min-mtu-stream")
	}
	r.Covered(fmt.Sprintf("mtu-class:%d", mtuClass(mtu-s.minMTU)))
	s.settle()
	return !r.Failed()
}

func mtuClass(delta int) int {
	switch {
	case delta == 0:
		return 0
	case delta <= 60:
		return 1
	case delta <= 600:
		return 2
	case delta <= 1500:
		return 3
	case delta <= 9300:
		return 4
	}
	return 5
}

func (s *sim) drawDelta() int {
	r := s.r
	if s.mode == modeFresh {
		return r.Range("mtu-delta-small", 0, 80)
	}
	cl := r.Choice("mtu-class", 8)
	if cl >= 6 {
		cl = []int{1, 2, 3, 1}[s.mtuBias] // per-run favourite
	}
	switch cl {
	case 0:
		return 0
	case 1:
		return r.Range("mtu-delta", 1, 60)
	case 2:
		return r.Range("mtu-delta", 61, 600)
	case 3:
		return r.Range("mtu-delta", 1100, 1500)
	case 4:
		return r.Range("mtu-delta", 8800, 9300)
	}
	return r.Range("mtu-delta", 30000, 65535-s.minMTU)
}

func (s *sim) pathChange() bool {
	r := s.r
	switch k := r.Choice("path-op", 8); {
	case k <= 3 || s.cur < 0:
		r.Fault("path.change")
		return s.newStream(s.drawDelta())
	case k <= 5: // the same path again: the sender (and its stream) must be kept
		var err error
		if s.guard("Session.SetPaths", func() { err = s.sess.SetPaths([]snet.Path{s.curPath}) }) {
			return false
		}
		if err != nil {
			r.Fail("c41-setpaths", "setpaths-same-rejected", "SetPaths with the current path failed: %v", err)
			return false
		}
		r.Logf("%v path same serial=%d", s.now(), s.cur)
		r.Probe("path-reused")
	case k == 6: // unusable path: must be refused and change nothing
		bad := s.mkPath(5000+len(s.pkts), s.minMTU-1-r.Choice("under", 40))
		var err error
		if s.guard("Session.SetPaths", func() { err = s.sess.SetPaths([]snet.Path{bad}) }) {
			return false
		}
		if err == nil {
			panic(core.InfraError{Msg: "path MTU below the probed minimum accepted"})
		}
		r.Logf("%v path rejected", s.now())
		r.Probe("path-rejected")
	default: // no path at all: packets written now are dropped by the session
		if s.guard("Session.SetPaths", func() { s.sess.SetPaths(nil) }) {
			return false
		}
		s.strs[s.cur].closed = true
		s.cur = -1
		r.Logf("%v path none", s.now())
		r.Probe("path-none")
	}
	s.settle()
	return !r.Failed()
}

func (s *sim) drawSize(v6 bool, capEst int) int {
	r := s.r
	lo := 20
	if v6 {
		lo = 40
	}
	cl := r.Choice("size-class", 8)
	if cl >= 6 {
		cl = []int{1, 3, 5, 2}[s.sizeBias]
	}
	if s.mode == modeFresh && cl >= 3 {
		cl = []int{2, 5, 1}[cl%3] // many packets of a few frames each
	}
	var n int
	switch cl {
	case 0:
		n = lo
	case 1:
		n = r.Range("size", lo, 100)
	case 2:
		n = r.Range("size", 100, 600)
	case 3:
		n = r.Range("size", 600, 1500)
	case 4:
		n = r.Range("size", 1500, 9000)
	default: // around a multiple of the frame payload capacity (frame boundary cases)
		n = r.Range("size-mult", 1, 4)*capEst + r.Range("size-off", 0, 44) - 22
	}
	if n < lo {
		n = lo
	}
	if n > 9000 {
		n = 9000
	}
	// keep the run affordable: a packet may not use more than what is left of the frame budget
	if left := s.frameBudget - s.released; n/capEst > left {
		n = lo
	}
	return n
}

func (s *sim) writePacket() bool {
	r := s.r
	id := len(s.pkts)
	capEst := 1400
	if s.cur >= 0 {
		capEst = max(s.strs[s.cur].capEst, s.strs[s.cur].maxLen-hdrLen)
	}
	v6 := r.Choice("ipv6", 2) == 1
	size := s.drawSize(v6, capEst)
	pattern := r.Choice("payload", 5)
	var data []byte
	if v6 {
		data = makeV6(id, size, pattern, []byte{17, 6, 59, 58}[r.Choice("next", 4)])
	} else {
		ihl := 5
		if r.Chance("ip-options", 1, 6) {
			ihl = r.Range("ihl", 6, 15)
		}
		data = makeV4(id, size, ihl, pattern, []byte{17, 6, 1, 253}[r.Choice("proto", 4)])
	}
	p := &packet{id: id, data: data, valid: true, kind: "v4", stream: s.cur}
	if v6 {
		p.kind = "v6"
	}
	if r.Chance("invalid", 1, 7) {
		p.valid = false
		switch k := r.Choice("invalid-kind", 6); {
		case k == 0:
			data[0] = data[0]&0x0f | []byte{0, 1, 2, 3, 5, 7, 8, 15}[r.Choice("version", 8)]<<4
			p.kind += "/bad-version"
		case k == 1:
			cut := r.Range("short", 0, 19)
			if v6 {
				cut = r.Range("short", 0, 39)
			}
			data = data[:cut]
			p.kind += "/too-short"
		case k == 2: // length field larger than the packet
			p.kind += "/len-field-bigger"
			d := r.Range("len-plus", 1, 40)
			if v6 {
				binary.BigEndian.PutUint16(data[4:], uint16(len(data)-40+d))
			} else {
				binary.BigEndian.PutUint16(data[2:], uint16(len(data)+d))
			}
		case k == 3: // length field smaller than the packet (trailing bytes)
			p.kind += "/len-field-smaller"
			extra := r.Range("trail", 1, 40)
			data = append(data, make([]byte, extra)...)
			fill(data[len(data)-extra:], id, 1)
		case k == 4: // length field zero
			p.kind += "/len-field-zero"
			if v6 {
				if len(data) == 40 {
					data = append(data, 0x45)
				}
				data[4], data[5] = 0, 0
			} else {
				data[2], data[3] = 0, 0
			}
		default:
			data = data[:0]
			p.kind += "/empty"
		}
		p.data = data
	}
	s.pkts = append(s.pkts, p)
	lt := layers.LayerTypeIPv4
	if v6 {
		lt = layers.LayerTypeIPv6
	}
	gp := gopacket.NewPacket(p.data, lt, gopacket.DecodeOptions{NoCopy: true, Lazy: true})
	r.Logf("%v W id=%d %s len=%d pat=%d stream=%d", s.now(), id, p.kind, len(p.data), pattern, s.cur)
	if s.cur >= 0 {
		st := s.strs[s.cur]
		st.outst++
		if p.valid {
			p.pos = len(st.expect)
			st.expect = append(st.expect, id)
			st.starts = append(st.starts, len(st.want))
			st.owner = append(st.owner, id)
			st.want = append(st.want, p.data...)
		}
	}
	if s.guard("Session.Write", func() { s.sess.Write(gp) }) {
		return false
	}
	s.settle()
	return !r.Failed()
}

// release lets a parked frame leave the sending gateway (or fails the send).
func (s *sim) release(pw *pendingWrite, sendErr bool) bool {
	s.nw.remove(pw)
	s.released++
	if sendErr {
		pw.done <- fmt.Errorf("simulated send error")
		s.r.Logf("%v R stream=%d send-error", s.now(), pw.path)
	} else {
		pw.done <- nil
		s.queue = append(s.queue, qframe{stream: pw.path, data: pw.frame})
	}
	s.settle()
	return !s.r.Failed()
}

// handOver gives one frame to the receiving gateway.
func (s *sim) handOver(data []byte, what string) bool {
	if !s.nw.serverParked() {
		if s.r.Failed() {
			return false
		}
		panic(core.InfraError{Msg: "ingress server is not waiting in ReadFrom"})
	}
	if len(data) >= hdrLen && data[0] == 0 {
		sid := binary.BigEndian.Uint32(data[4:8]) & 0xfffff
		s.keys[uint32(data[1])<<20|sid] = true
		// the log names the stream by the serial of the first sender seen with that id, not by the
		// id itself (which is whatever the sending gateway chose)
		of := "?"
		for _, st := range s.strs {
			if st.sid == int(sid) {
				of = fmt.Sprint(st.serial)
				break
			}
		}
		s.r.Logf("%v D %s sess=%d stream-of=%s seq=%d idx=%d len=%d", s.now(), what, data[1], of,
			binary.BigEndian.Uint64(data[8:16]), binary.BigEndian.Uint16(data[2:4]), len(data))
	} else {
		s.r.Logf("%v D %s malformed len=%d", s.now(), what, len(data))
	}
	s.delivered++
	s.nw.rx <- delivery{frame: data}
	s.settle()
	return !s.r.Failed()
}

// settle waits for quiescence and judges what appeared at the seams.
func (s *sim) settle() {
	synctest.Wait()
	busy := map[int]bool{}
	for _, pw := range s.nw.snapshot() {
		busy[pw.path] = true
		if !pw.seen {
			pw.seen = true
			s.judgeFrame(pw)
		}
	}
	for _, st := range s.strs {
		if !busy[st.serial] {
			st.outst = 0 // sender idle: its ring is empty and everything it was given is on the wire
		}
	}
	for _, em := range s.tun.take() {
		s.judgeEmitted(em)
	}
}

// ---- oracles ----

// judgeFrame: sender-side oracle written from doc/sig.rst (frame header, payload = the valid IP
// packets one directly after another, Index = offset of the first packet start or 0xffff,
// consecutive sequence numbers). "Invalid packets are never encapsulated" is judged here.
func (s *sim) judgeFrame(pw *pendingWrite) {
	r := s.r
	f := pw.frame
	if pw.path < 0 || pw.path >= len(s.strs) {
		r.Fail("c41-frame-header", "frame-unknown-path", "frame sent on unknown path %d", pw.path)
		return
	}
	st := s.strs[pw.path]
	if len(f) < hdrLen {
		r.Fail("c41-frame-header", "frame-short", "stream %d: frame of %d bytes", st.serial, len(f))
		return
	}
	ver, sess := f[0], f[1]
	idx := int(binary.BigEndian.Uint16(f[2:4]))
	w := binary.BigEndian.Uint32(f[4:8])
	seq := binary.BigEndian.Uint64(f[8:16])
	if st.sid < 0 {
		st.sid = int(w & 0xfffff)
	}
	r.Logf("%v F stream=%d seq=%d idx=%d len=%d", s.now(), st.serial, seq, idx, len(f))
	if ver != 0 || sess != s.sessID || w>>20 != 0 || int(w&0xfffff) != st.sid || seq != st.nframes {
		r.Fail("c41-frame-header", "frame-header", "stream %d frame %d: header %x (want version 0, session %d, reserved 0, stream %x, seq %d)",
			st.serial, st.nframes, f[:hdrLen], s.sessID, st.sid, st.nframes)
		return
	}
	for _, o := range s.strs {
		if o != st && o.sid == st.sid && !s.collided {
			if s.mode == modeCollide {
				s.collided = true // from here on the receiver cannot tell the two streams apart
				r.Probe("two-streams-with-one-stream-id")
				r.Logf("%v streams %d and %d share a stream id", s.now(), o.serial, st.serial)
			} else {
				r.Ambiguous = true // excluded by assumption in the other campaigns
			}
		}
	}
	st.nframes++
	pl := f[hdrLen:]
	if len(f) > st.maxLen {
		st.maxLen = len(f)
	}
	end := st.got + len(pl)
	if end > len(st.want) || string(pl) != string(st.want[st.got:end]) {
		// classify: does the payload continue with an invalid packet that was written?
		sig := "frame-payload"
		for _, p := range s.pkts {
			if !p.valid && p.stream == st.serial && len(p.data) > 0 && containsAt(pl, p.data) {
				sig = "invalid-encapsulated"
				break
			}
		}
		r.Fail("c41-frame-payload", sig, "stream %d frame seq %d: payload is not the continuation of the valid packets written (offset %d of %d, frame payload %d bytes): %s",
			st.serial, seq, st.got, len(st.want), len(pl), describe(pl))
		return
	}
	// Index and "fixed header in the frame where the packet begins"
	wantIdx := 0xffff
	starts := 0
	for k := range st.starts {
		o := st.starts[k]
		if o >= st.got && o < end {
			if starts == 0 {
				wantIdx = o - st.got
			}
			starts++
			need := 20
			if st.want[o]>>4 == 6 {
				need = 40
			}
			pend := len(st.want)
			if k+1 < len(st.starts) {
				pend = st.starts[k+1]
			}
			if end-o < need && end < pend {
				r.Fail("c41-frame-payload", "frame-header-split", "stream %d frame seq %d: packet %d begins %d bytes before the end of the frame (fixed IP header split)",
					st.serial, seq, st.owner[k], end-o)
				return
			}
		}
		pe := len(st.want)
		if k+1 < len(st.starts) {
			pe = st.starts[k+1]
		}
		if o < end && pe > st.got {
			s.pkts[st.owner[k]].spans++
		}
	}
	if idx != wantIdx {
		r.Fail("c41-frame-header", "frame-index", "stream %d frame seq %d: Index %d, first packet start is at %d", st.serial, seq, idx, wantIdx)
		return
	}
	st.got = end
	if starts >= 2 {
		r.Probe("frame-with->=2-packet-starts")
	}
	if starts >= 1 && wantIdx > 0 {
		r.Probe("frame-tail-then-new-packet")
	}
	r.Covered(fmt.Sprintf("frame:starts=%d,tail=%v,full=%v", min(starts, 3), wantIdx != 0, len(f) == st.maxLen))
}

// containsAt tells whether the frame payload contains the beginning of the given packet image.
func containsAt(pl, data []byte) bool {
	n := min(len(data), 24)
	return n >= 8 && indexOf(pl, data[:n]) >= 0
}

func indexOf(h, n []byte) int {
	for i := 0; i+len(n) <= len(h); i++ {
		if string(h[i:i+len(n)]) == string(n) {
			return i
		}
	}
	return -1
}

// judgeEmitted: receiver-side oracle. Every packet handed to the tunnel device must be
// byte-identical to a valid packet that was written; for strictly judged streams (all streams of
// the clean campaign, the fault-free tail stream of the others) it must be the next one in order.
func (s *sim) judgeEmitted(em []byte) {
	r := s.r
	s.nEmitted++
	p := s.lookup(em)
	if p == nil {
		if s.anyTaint {
			// corruption reached the receiver: the protocol has no integrity check, content is not judged
			r.Probe("garbage-after-corruption")
			r.Logf("%v E garbage %s", s.now(), describe(em))
			return
		}
		if s.collided {
			// separate class: two senders of the session share a stream id, the receiver cannot
			// tell their frames apart
			if r.IsKnown(sigCollision) {
				r.NoteKnown(sigCollision)
				s.anyTaint = true
				return
			}
			r.Fail("c41-not-sent", sigCollision, "receiver emitted a packet that is not byte-identical to any valid packet sent, without any frame lost, duplicated, reordered or altered; two senders of the session were created at instants that give them the same stream id: %s", describe(em))
			return
		}
		sig := "garbage"
		if id, ok := idOf(em); ok && id >= 0 && id < len(s.pkts) {
			q := s.pkts[id]
			switch {
			case !q.valid:
				sig = "invalid-packet-emitted"
			case len(em) == len(q.data):
				sig = "spliced"
			case len(em) < len(q.data) && string(em) == string(q.data[:len(em)]):
				sig = "truncated"
			default:
				sig = "wrong-length"
			}
		}
		r.Fail("c41-not-sent", "emitted-not-sent:"+sig, "receiver emitted a packet that is not byte-identical to any valid packet sent (%s): %s", sig, describe(em))
		return
	}
	p.emitted++
	r.Logf("%v E id=%d len=%d stream=%d", s.now(), p.id, len(em), p.stream)
	st := s.strs[p.stream]
	strict := st.serial == s.strictOnly || (s.faultFree() && !s.collided)
	if !strict {
		if p.emitted > 1 {
			r.Probe("packet-emitted-twice")
		}
		return
	}
	switch {
	case p.pos == st.nextEm:
		st.nextEm++
	case p.pos < st.nextEm:
		r.Fail("c41-clean-order", "clean-duplicate-or-reordered", "stream %d: packet %d (position %d) emitted again/late; next expected position %d",
			st.serial, p.id, p.pos, st.nextEm)
	default:
		if s.missing(st, p.pos, fmt.Sprintf("packet %d (position %d) emitted", p.id, p.pos)) {
			st.nextEm = p.pos + 1
		}
	}
}

const sigLong = "clean-missing:packet-over-more-than-100-frames"
const sigCollision = "emitted-not-sent:stream-id-collision"

// missing judges the valid packets of positions [st.nextEm, upto) that the receiver passed over in a
// strictly judged stream. Returns true when the run may go on (only listed known findings).
func (s *sim) missing(st *stream, upto int, when string) bool {
	r := s.r
	for k := st.nextEm; k < upto; k++ {
		miss := s.pkts[st.expect[k]]
		if miss.spans > 100 {
			// separate class: the packet was spread over more frames than the receiver's
			// reassembly list holds (reassemblyListCap = 100)
			if r.IsKnown(sigLong) {
				r.NoteKnown(sigLong)
				continue
			}
			r.Fail("c41-clean-missing", sigLong, "stream %d: %s while packet %d (position %d, %d bytes, spread over %d frames of at most %d bytes) was never emitted, although every frame was delivered once and in order",
				st.serial, when, miss.id, k, len(miss.data), miss.spans, st.maxLen)
			return false
		}
		r.Fail("c41-clean-missing", "clean-missing", "stream %d: %s while packet %d (position %d, %d bytes, spread over %d frames) was never emitted, although every frame was delivered once and in order",
			st.serial, when, miss.id, k, len(miss.data), miss.spans)
		return false
	}
	return true
}

// checkComplete: after everything was delivered in order, nothing may be missing.
func (s *sim) checkComplete(st *stream) {
	r := s.r
	if r.Failed() {
		return
	}
	if st.got != len(st.want) {
		r.Fail("c41-frame-missing", "sender-lost-bytes", "stream %d: sender was given %d bytes of valid packets (never more than %d packets outstanding) but put %d on the wire",
			st.serial, len(st.want), maxOutstanding, st.got)
		return
	}
	if s.missing(st, len(st.expect), "all frames handed over") {
		st.nextEm = len(st.expect)
	}
}

// ---- the run ----

func (s *sim) drained() bool {
	if len(s.queue) > 0 || len(s.nw.snapshot()) > 0 {
		return false
	}
	for _, st := range s.strs {
		if st.got != len(st.want) || (s.faultFree() && !s.collided && st.nextEm != len(st.expect)) {
			return false
		}
	}
	return true
}

func (s *sim) sleep(d time.Duration) {
	time.Sleep(d)
	s.r.Logf("%v T +%v", s.now(), d)
	s.settle()
}

func (s *sim) advanceClock() bool {
	r := s.r
	if s.faultFree() {
		// With a single stream the clock may jump arbitrarily between any two stimuli (also in the
		// middle of a packet). With several streams it may only do so while nothing is under way:
		// the receiver discards reassembly state of a stream that was idle for 1-2 s while other
		// streams were busy (assumption of the clean campaign: no such hold-ups).
		idle := s.drained()
		if idle || s.single {
			d := []time.Duration{time.Microsecond, 200 * time.Microsecond, 1500 * time.Millisecond, 61 * time.Second, 125 * time.Second}[r.Choice("sleep-any", 5)]
			s.sleep(d)
			s.lastDrain = time.Now()
			if d > time.Second {
				if idle {
					r.Probe("long-idle-gap")
				} else {
					r.Probe("long-stall-mid-stream")
				}
			}
			return !r.Failed()
		}
		d := []time.Duration{time.Microsecond, 10 * time.Microsecond, 100 * time.Microsecond, 300 * time.Microsecond}[r.Choice("sleep", 4)]
		if time.Since(s.lastDrain)+d < 800*time.Millisecond {
			s.sleep(d)
		}
		return !r.Failed()
	}
	d := []time.Duration{time.Microsecond, time.Millisecond, 300 * time.Millisecond, 1100 * time.Millisecond,
		2500 * time.Millisecond, 61 * time.Second}[r.Choice("sleep", 6)]
	if d >= time.Second {
		r.Fault("frame.delay")
	}
	s.sleep(d)
	return !r.Failed()
}

// deliverOne hands the next frame (or, under faults, some frame) of the network queue over.
func (s *sim) deliverOne() bool {
	r := s.r
	if len(s.queue) == 0 {
		return true
	}
	i := 0
	if !s.faultFree() {
		if len(s.queue) > 1 && r.FaultChance("frame.reorder", 1, 8) {
			i = 1 + r.Choice("reorder-idx", len(s.queue)-1)
		}
		switch {
		case r.FaultChance("frame.drop", 1, 10):
			f := s.queue[i]
			s.queue = append(s.queue[:i], s.queue[i+1:]...)
			r.Logf("%v D drop stream=%d len=%d", s.now(), f.stream, len(f.data))
			return true
		case r.FaultChance("frame.dup", 1, 10):
			// deliver a copy now, the original stays in the network (at its place or at the end)
			f := s.queue[i]
			if r.Choice("dup-late", 2) == 1 {
				s.queue = append(append(s.queue[:i:i], s.queue[i+1:]...), f)
			}
			return s.handOver(f.data, "dup")
		case r.FaultChance("frame.delay", 1, 12):
			f := s.queue[i]
			s.queue = append(append(s.queue[:i:i], s.queue[i+1:]...), f)
			r.Logf("%v D hold-back stream=%d", s.now(), f.stream)
			return true
		}
		if s.mode == modeCorrupt {
			switch {
			case r.FaultChance("frame.truncate", 1, 12):
				f := s.queue[i]
				s.queue = append(s.queue[:i], s.queue[i+1:]...)
				s.taint(f.stream)
				return s.handOver(f.data[:r.Choice("trunc-len", len(f.data))], "truncated")
			case r.FaultChance("frame.bitflip", 1, 12):
				f := s.queue[i]
				s.queue = append(s.queue[:i], s.queue[i+1:]...)
				s.taint(f.stream)
				d := append([]byte(nil), f.data...)
				bit := r.Choice("flip-bit", 8*len(d))
				if r.Choice("flip-header", 2) == 1 {
					bit = r.Choice("flip-bit", 8*hdrLen)
				}
				d[bit/8] ^= 1 << (bit % 8)
				return s.handOver(d, "bitflip")
			}
		}
	}
	f := s.queue[i]
	s.queue = append(s.queue[:i], s.queue[i+1:]...)
	if !s.faultFree() && r.FaultChance("tun.error", 1, 40) {
		s.tun.mu.Lock()
		s.tun.failNxt = true
		s.tun.mu.Unlock()
	}
	ok := s.handOver(f.data, fmt.Sprintf("stream=%d", f.stream))
	s.tun.mu.Lock()
	s.tun.failNxt = false
	s.tun.mu.Unlock()
	return ok
}

func (s *sim) taint(stream int) {
	s.anyTaint = true
	if stream >= 0 && stream < len(s.strs) {
		s.strs[stream].tainted = true
	}
}

func (s *sim) garbageBurst() bool {
	r := s.r
	n := []int{1, 3, 64, 70}[r.Choice("garbage-n", 4)]
	r.Fault("frame.garbage")
	for k := 0; k < n; k++ {
		var d []byte
		switch r.Choice("garbage-kind", 3) {
		case 0: // runt
			d = make([]byte, r.Choice("runt-len", hdrLen))
		case 1: // unknown version
			d = make([]byte, hdrLen+r.Choice("garbage-len", 60))
			d[0] = byte(1 + r.Choice("garbage-ver", 255))
		default: // well-formed header, made-up content
			s.anyTaint = true
			d = make([]byte, hdrLen+r.Choice("garbage-len", 200))
			d[1] = s.sessID
			binary.BigEndian.PutUint16(d[2:], uint16(r.Choice("garbage-idx", 4)*0x5555))
			sid := uint32(r.Choice("garbage-stream", 1<<20))
			if len(s.strs) > 0 && r.Choice("garbage-live", 2) == 1 {
				if st := s.strs[r.Choice("garbage-which", len(s.strs))]; st.sid >= 0 {
					sid = uint32(st.sid)
					st.tainted = true
				}
			}
			binary.BigEndian.PutUint32(d[4:], sid)
			binary.BigEndian.PutUint64(d[8:], uint64(r.Choice("garbage-seq", 64)))
			fill(d[hdrLen:], k, 1+r.Choice("garbage-pat", 2))
		}
		if !s.handOver(d, "garbage") {
			return false
		}
	}
	return true
}

// drainAll lets every parked frame leave and hands everything over (in order; under faults each
// remaining frame may also be lost).
func (s *sim) drainAll(lossy bool) bool {
	r := s.r
	for guard := 0; guard < 200000; guard++ {
		pend := s.nw.snapshot()
		if len(pend) == 0 && len(s.queue) == 0 {
			return true
		}
		for _, pw := range pend {
			if !s.release(pw, false) {
				return false
			}
		}
		for len(s.queue) > 0 {
			if lossy && r.FaultChance("frame.drop", 1, 10) {
				s.queue = s.queue[1:]
				continue
			}
			f := s.queue[0]
			s.queue = s.queue[1:]
			if !s.handOver(f.data, fmt.Sprintf("stream=%d", f.stream)) {
				return false
			}
		}
	}
	panic(core.InfraError{Msg: "drain does not terminate"})
}

func (s *sim) script() {
	r := s.r
	nops := r.Range("nops", 12, 260)
	if s.mode == modeFresh {
		nops = r.Range("nops-long", 5000, 9000)
	}
	wW := []int{4, 1, 8, 2}[r.Choice("w-write", 4)]
	wR := []int{2, 1, 8, 4}[r.Choice("w-release", 4)]
	wD := []int{2, 1, 8, 4}[r.Choice("w-deliver", 4)]
	wT := []int{0, 1, 1, 2}[r.Choice("w-time", 4)]
	wP := []int{0, 0, 1, 2}[r.Choice("w-path", 4)]
	wG := 0
	if s.mode == modeCorrupt {
		wG = []int{0, 1, 1, 2}[r.Choice("w-garbage", 4)]
	}
	if s.mode == modeCollide {
		wP = []int{1, 2, 1, 3}[r.Choice("w-path-collide", 4)]
	}
	s.single = wP == 0
	if !s.newStream(s.drawDelta()) {
		return
	}
	for op := 0; op < nops && !r.Failed(); op++ {
		pend := s.nw.snapshot()
		canW := s.released < s.frameBudget && len(s.pkts) < s.pktBudget && (s.cur < 0 || s.strs[s.cur].outst < maxOutstanding)
		type act struct {
			k byte
			w int
		}
		var acts []act
		if canW {
			acts = append(acts, act{'W', wW})
		}
		if len(pend) > 0 {
			acts = append(acts, act{'R', wR})
		}
		if len(s.queue) > 0 {
			acts = append(acts, act{'D', wD})
		}
		if wT > 0 {
			acts = append(acts, act{'T', wT})
		}
		if wP > 0 && s.released < s.frameBudget {
			acts = append(acts, act{'P', wP})
		}
		if wG > 0 {
			acts = append(acts, act{'G', wG})
		}
		tot := 0
		for _, a := range acts {
			tot += a.w
		}
		if tot == 0 {
			break
		}
		v := r.Choice("act", tot)
		var k byte
		for _, a := range acts {
			if v < a.w {
				k = a.k
				break
			}
			v -= a.w
		}
		ok := true
		switch k {
		case 'W':
			ok = s.writePacket()
		case 'R':
			pw := pend[r.Choice("release-which", len(pend))]
			ok = s.release(pw, !s.faultFree() && r.FaultChance("net.send-error", 1, 30))
		case 'D':
			ok = s.deliverOne()
		case 'T':
			ok = s.advanceClock()
		case 'P':
			ok = s.pathChange()
		case 'G':
			ok = s.garbageBurst()
		}
		if !ok {
			return
		}
	}
	if r.Failed() {
		return
	}
	// everything still under way arrives (clean) or arrives/gets lost (faults)
	if !s.drainAll(!s.faultFree()) {
		return
	}
	if s.faultFree() {
		for _, st := range s.strs {
			if s.collided {
				// streams sharing a stream id: what the receiver drops is not judged, only what it emits
				if st.nextEm != len(st.expect) {
					r.Probe("packets-lost-after-stream-id-collision")
				}
				continue
			}
			s.checkComplete(st)
		}
		return
	}
	// Fault-free tail on a fresh stream: whatever happened before, a new stream whose frames arrive
	// once and in order must be reproduced exactly (the clean oracle applies to it).
	time.Sleep(time.Duration(1+r.Choice("tail-gap", 3000)) * time.Millisecond)
	if !s.newStream(s.drawDelta()) {
		return
	}
	// (false alarm fixed: after a corrupted or made-up frame with a well-formed header has reached the
	// receiver, its reassembly state may already hold a list for the stream id the tail stream is
	// going to get - stream ids are consecutive, one flipped bit turns an id into its neighbour - and
	// the tail's first frames are then "too old". The statement speaks of loss, duplication and
	// reordering, not of corruption, so in that case the tail is only run, not judged strictly.)
	strictTail := !(s.mode == modeCorrupt && s.anyTaint)
	if strictTail {
		s.strictOnly = s.cur
	} else {
		r.Probe("tail-after-corruption-not-judged")
	}
	n := r.Range("tail-packets", 3, 14)
	for k := 0; k < n && !r.Failed(); k++ {
		if !s.writePacket() {
			return
		}
		if r.Choice("tail-release", 3) == 0 {
			for _, pw := range s.nw.snapshot() {
				if !s.release(pw, false) {
					return
				}
			}
		}
	}
	if !s.drainAll(false) {
		return
	}
	if strictTail {
		s.checkComplete(s.strs[s.strictOnly])
	}
}

// shutdown ends the goroutines of both gateways so that the bubble can finish, returning every
// frame buffer to the receiving gateway's process-wide pool.
func (s *sim) shutdown() {
	r := s.r
	viol := r.Failed()
	bad := func(msg string) {
		if viol || r.Failed() {
			return // blocked goroutines are then the symptom; core.Bubble tolerates them
		}
		panic(core.InfraError{Msg: "shutdown: " + msg})
	}
	if s.guard("Session.Close", func() { s.sess.Close() }) {
		return
	}
	s.strictOnly = -1
	// let the closed senders flush and finish; the frames are judged by the sender oracle only
	for guard := 0; ; guard++ {
		synctest.Wait()
		pend := s.nw.snapshot()
		if len(pend) == 0 {
			break
		}
		if guard > 100000 {
			bad("senders do not finish")
			return
		}
		for _, pw := range pend {
			if !pw.seen && !r.Failed() {
				pw.seen = true
				s.judgeFrame(pw)
			}
			s.nw.remove(pw)
			pw.done <- nil
		}
	}
	for _, st := range s.strs {
		if st.got != len(st.want) && !r.Failed() {
			r.Fail("c41-frame-missing", "sender-lost-bytes", "stream %d: sender was given %d bytes of valid packets (never more than %d packets outstanding) but had put only %d on the wire when it ended",
				st.serial, len(st.want), maxOutstanding, st.got)
		}
	}
	if !s.nw.serverParked() {
		bad("ingress server is not waiting in ReadFrom")
		return
	}
	// One far-ahead, packet-less frame per (session, stream) seen makes the receiver drop whatever
	// it still holds for reassembly (returns the buffers to the pool).
	flush := func(key uint32) {
		d := make([]byte, hdrLen)
		d[1] = byte(key >> 20)
		binary.BigEndian.PutUint16(d[2:], 0xffff)
		binary.BigEndian.PutUint32(d[4:], key&0xfffff)
		binary.BigEndian.PutUint64(d[8:], 1<<62)
		s.nw.rx <- delivery{frame: d}
		synctest.Wait()
	}
	var keys []uint32
	for k := range s.keys {
		keys = append(keys, k)
	}
	sortU32(keys)
	for _, k := range keys {
		if !s.nw.serverParked() {
			bad("ingress server is not waiting in ReadFrom")
			return
		}
		flush(k)
	}
	for _, em := range s.tun.take() {
		if !r.Failed() {
			s.judgeEmitted(em)
		}
	}
	s.exitWorkers.Store(true)
	// wake every ingress worker once: after the frame it asks its ring for more and ends
	seenSess := map[byte]bool{}
	for _, k := range keys {
		sess := byte(k >> 20)
		if seenSess[sess] || s.tun.alive() == 0 {
			continue
		}
		seenSess[sess] = true
		if s.srvDone.Load() || !s.nw.serverParked() {
			break
		}
		flush(k)
	}
	if n := s.tun.alive(); n != 0 {
		bad(fmt.Sprintf("%d ingress workers still alive", n))
		return
	}
	s.exitServer.Store(true)
	// failing reads until the server has used up its batch of buffers and asks the pool for more
	for k := 0; k < 80 && !s.srvDone.Load(); k++ {
		if !s.nw.serverParked() {
			bad("ingress server is not waiting in ReadFrom")
			return
		}
		s.nw.rx <- delivery{err: fmt.Errorf("simulated receive error")}
		synctest.Wait()
	}
	if !s.srvDone.Load() {
		bad("ingress server did not end")
	}
}

func sortU32(a []uint32) {
	for i := 1; i < len(a); i++ {
		for j := i; j > 0 && a[j-1] > a[j]; j-- {
			a[j-1], a[j] = a[j], a[j-1]
		}
	}
}

func run(r *core.Run, m mode) {
	core.Bubble(r, func(t *testing.T) {
		s := &sim{r: r, mode: m}
		defer func() { ringbuf.SimYield = nil }()
		s.start()
		if !r.Failed() {
			s.script()
		}
		s.shutdown()
		ringbuf.SimYield = nil
		synctest.Wait()
		if !r.Failed() && s.srvDone.Load() && s.tun.alive() == 0 {
			if lost := auditPool(); lost > 0 {
				// frame buffers that the receiving gateway never returned to its pool (it does
				// not release what a stopped worker still holds)
				r.Probes["rx-frame-buffers-not-returned"] += lost
			}
		}
		for _, k := range []string{"too_old", "duplicate", "evicted", "invalid"} {
			if n := s.cnt.get("discard:" + k); n > 0 {
				r.Probes["rx-discard-"+k] += n
			}
		}
		nspan, maxspan := 0, 0
		for _, p := range s.pkts {
			if p.spans >= 3 {
				nspan++
			}
			maxspan = max(maxspan, p.spans)
			if p.valid && p.emitted > 0 {
				r.Covered(fmt.Sprintf("pkt:%s,spans=%d", p.kind, min(p.spans, 6)))
			}
		}
		if nspan > 0 {
			r.Probes["packet-over->=3-frames"] += nspan
		}
		if maxspan >= 50 {
			r.Probe("packet-over->=50-frames")
		}
		r.SimNS = int64(time.Since(s.t0))
		r.Nontrivial = s.nEmitted >= 5
		r.Sample = map[string]any{"packets": len(s.pkts), "streams": len(s.strs), "frames": s.released,
			"delivered": s.delivered, "emitted": s.nEmitted, "min_path_mtu": s.minMTU}
	})
}
