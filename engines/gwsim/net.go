//go:build verif

package gwsim

import (
	"context"
	"fmt"
	"io"
	"net"
	"sort"
	"sync"
	"time"
	"unsafe"

	"github.com/scionproto/scion/gateway/control"
	"github.com/scionproto/scion/pkg/addr"
	"github.com/scionproto/scion/pkg/metrics"
	"github.com/scionproto/scion/pkg/snet"
	"verif/sim/core"
)

// ---- the frame network: net.PacketConn of the sending gateway, ReadConn of the receiving one ----

// pendingWrite is a sender goroutine parked inside WriteTo (net.stall): the simulator decides when
// (and whether) the frame leaves.
type pendingWrite struct {
	path  int // serial number of the path (carried in the next-hop port of the destination address)
	frame []byte
	done  chan error
	seen  bool // already judged by the sender oracle
}

type delivery struct {
	frame []byte
	err   error
}

type frameNet struct {
	mu      sync.Mutex
	local   *snet.UDPAddr
	remote  *snet.UDPAddr // source address the receiving gateway sees
	pending []*pendingWrite
	rx      chan delivery
	inRead  bool
	reads   int
}

func (n *frameNet) WriteTo(b []byte, a net.Addr) (int, error) {
	ua, ok := a.(*snet.UDPAddr)
	if !ok || ua.NextHop == nil {
		panic(core.InfraError{Msg: fmt.Sprintf("WriteTo with unexpected address %T", a)})
	}
	pw := &pendingWrite{path: ua.NextHop.Port, frame: append([]byte(nil), b...), done: make(chan error)}
	n.mu.Lock()
	n.pending = append(n.pending, pw)
	n.mu.Unlock()
	err := <-pw.done
	if err != nil {
		return 0, err
	}
	return len(b), nil
}

// takePending returns the parked writes sorted by path serial (canonical order).
func (n *frameNet) snapshot() []*pendingWrite {
	n.mu.Lock()
	defer n.mu.Unlock()
	out := append([]*pendingWrite(nil), n.pending...)
	sort.SliceStable(out, func(i, j int) bool { return out[i].path < out[j].path })
	return out
}

func (n *frameNet) remove(pw *pendingWrite) {
	n.mu.Lock()
	defer n.mu.Unlock()
	for i, p := range n.pending {
		if p == pw {
			n.pending = append(n.pending[:i], n.pending[i+1:]...)
			return
		}
	}
}

func (n *frameNet) ReadFrom(b []byte) (int, net.Addr, error) {
	n.mu.Lock()
	n.inRead = true
	n.reads++
	n.mu.Unlock()
	d := <-n.rx
	n.mu.Lock()
	n.inRead = false
	n.mu.Unlock()
	if d.err != nil {
		return 0, nil, d.err
	}
	// The receiving gateway recycles its frame buffers through a process-wide pool that outlives
	// a run; clearing what an earlier frame left behind the current one makes the buffer content
	// independent of earlier runs (only this function ever writes into these buffers).
	k := copy(b, d.frame)
	if len(b) > 0 {
		dirtyMu.Lock()
		key := unsafe.SliceData(b)
		if prev := dirty[key]; prev > k {
			clear(b[k:min(prev, len(b))])
		}
		dirty[key] = k
		dirtyMu.Unlock()
	}
	return k, n.remote, nil
}

var (
	dirtyMu sync.Mutex
	dirty   = map[*byte]int{} // frame buffer -> number of leading bytes that may be non-zero
)

func (n *frameNet) serverParked() bool {
	n.mu.Lock()
	defer n.mu.Unlock()
	return n.inRead
}

func (n *frameNet) Close() error                       { return nil }
func (n *frameNet) LocalAddr() net.Addr                { return n.local }
func (n *frameNet) SetDeadline(t time.Time) error      { return nil }
func (n *frameNet) SetReadDeadline(t time.Time) error  { return nil }
func (n *frameNet) SetWriteDeadline(t time.Time) error { return nil }

// ---- the tunnel device of the receiving gateway ----

type tun struct {
	mu      sync.Mutex
	out     [][]byte // packets written by the ingress worker since the last collection
	failNxt bool     // tun.error: the next write fails
	nfailed int
	gets    int
	closes  int
}

type tunHandle struct{ t *tun }

func (t *tun) Get(ctx context.Context, ia addr.IA) (control.DeviceHandle, error) {
	t.mu.Lock()
	t.gets++
	t.mu.Unlock()
	return tunHandle{t}, nil
}

func (h tunHandle) Write(p []byte) (int, error) {
	h.t.mu.Lock()
	defer h.t.mu.Unlock()
	if h.t.failNxt {
		h.t.failNxt = false
		h.t.nfailed++
		return 0, fmt.Errorf("simulated tunnel device error")
	}
	h.t.out = append(h.t.out, append([]byte(nil), p...))
	return len(p), nil
}

func (h tunHandle) Read(p []byte) (int, error) { return 0, io.EOF }
func (h tunHandle) Close() error {
	h.t.mu.Lock()
	h.t.closes++
	h.t.mu.Unlock()
	return nil
}
func (h tunHandle) AddRoute(ctx context.Context, r *control.Route) error    { return nil }
func (h tunHandle) DeleteRoute(ctx context.Context, r *control.Route) error { return nil }

func (t *tun) take() [][]byte {
	t.mu.Lock()
	defer t.mu.Unlock()
	o := t.out
	t.out = nil
	return o
}

func (t *tun) alive() int {
	t.mu.Lock()
	defer t.mu.Unlock()
	return t.gets - t.closes
}

// ---- counters (the gateway's own discard metrics are used as reach probes only) ----

type counterSet struct {
	mu sync.Mutex
	m  map[string]float64
}

type counter struct {
	set    *counterSet
	name   string
	labels []string
}

func (c counter) With(lv ...string) metrics.Counter {
	return counter{c.set, c.name, append(append([]string(nil), c.labels...), lv...)}
}

func (c counter) Add(d float64) {
	k := c.name
	for i := 0; i+1 < len(c.labels); i += 2 {
		if c.labels[i] == "reason" {
			k += ":" + c.labels[i+1]
		}
	}
	c.set.mu.Lock()
	c.set.m[k] += d
	c.set.mu.Unlock()
}

func (s *counterSet) get(k string) int {
	s.mu.Lock()
	defer s.mu.Unlock()
	return int(s.m[k])
}
