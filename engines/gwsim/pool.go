//go:build verif

package gwsim

import (
	"sync"
	_ "unsafe" // go:linkname

	_ "github.com/scionproto/scion/gateway/dataplane"
	"github.com/scionproto/scion/private/ringbuf"
)

// The receiving gateway keeps its frame buffers in a process-wide pool (gateway/dataplane
// framebuf.go: var freeFrames, 1024 buffers, created on first use, never re-created, no exported
// seam). A worker process executes many runs. The fill level of the pool decides the batch size of
// IngressServer.read and with it the instants of its clean-ups, so a run that starts with a
// depleted pool (because code under test leaked buffers in an earlier run of the process, e.g.
// during the minimisation of a violation) would behave differently from the same run in a fresh
// process, and its violation would not replay. The variable is therefore reached by name: after
// every run the pool is counted, and a run that follows a run with a violation, an unfinished
// shutdown or a leak starts with a pool that the gateway re-creates itself (initFreeFrames).
//
//go:linkname dataplaneFreeFrames github.com/scionproto/scion/gateway/dataplane.freeFrames
var dataplaneFreeFrames *ringbuf.Ring

const framePoolSize = 1024

var poolDirty bool

// preparePool is called at the start of a run.
func preparePool() {
	if poolDirty {
		dataplaneFreeFrames = nil
		dirtyMu.Lock()
		dirty = map[*byte]int{}
		dirtyMu.Unlock()
		poolDirty = false
	}
}

// auditPool is called at the end of a run, when no goroutine of the gateway is left and the
// scheduling hook is off. It returns the number of buffers missing from the pool.
func auditPool(clean bool) int {
	if !clean {
		poolDirty = true
		return 0
	}
	if dataplaneFreeFrames == nil {
		return 0
	}
	buf := make(ringbuf.EntryList, framePoolSize+8)
	n, _ := dataplaneFreeFrames.Read(buf, false)
	if n > 0 {
		dataplaneFreeFrames.Write(buf[:n], false)
	}
	if n != framePoolSize {
		poolDirty = true
		return framePoolSize - max(n, 0)
	}
	return 0
}

// The sending gateway numbers its streams with a process-wide counter that is seeded from the
// clock on first use (gateway/dataplane encoder.go: var streamIDs). Forgetting the seed before
// every run makes the stream IDs of a run a function of the run alone (the first sender of the
// run seeds the counter from the simulated clock), so that a replay in a fresh process sees the
// same IDs as the n-th run of a worker process.
//
//go:linkname dataplaneStreamIDs github.com/scionproto/scion/gateway/dataplane.streamIDs
var dataplaneStreamIDs struct {
	sync.Mutex
	started bool
	last    uint32
}

func resetStreamIDs() {
	dataplaneStreamIDs.Lock()
	dataplaneStreamIDs.started = false
	dataplaneStreamIDs.last = 0
	dataplaneStreamIDs.Unlock()
}
