//go:build verif

package gwsim

import (
	"sync"
	_ "unsafe" // go:linkname

	_ "github.com/scionproto/scion/gateway/dataplane"
	"github.com/scionproto/scion/private/ringbuf"
)

// Process-wide state of the gateway that would make the n-th run of a worker process differ from
// the same run in a fresh process (and a violation found there fail to replay). Both variables are
// unexported and have no seam; they are reached by name and put back to their initial state before
// every run. The gateway re-creates / re-seeds them itself on first use.
//
//  1. gateway/dataplane framebuf.go: var freeFrames, the pool of 1024 frame buffers of the receiving
//     gateway. Its fill level decides the batch size of IngressServer.read and with it the instants
//     of its clean-ups (code under test that leaks buffers depletes it), and a broken frameBuf.Reset
//     leaves stale state in recycled buffers. A pool per run costs 64 MB of allocation (30-50 ms).
//
//go:linkname dataplaneFreeFrames github.com/scionproto/scion/gateway/dataplane.freeFrames
var dataplaneFreeFrames *ringbuf.Ring

//  2. gateway/dataplane encoder.go: var streamIDs, the counter the sending gateway numbers its
//     streams with, seeded from the clock on first use. Un-seeded before a run, the first sender of
//     the run seeds it from the simulated clock: stream IDs are a function of the run alone.
//
//go:linkname dataplaneStreamIDs github.com/scionproto/scion/gateway/dataplane.streamIDs
var dataplaneStreamIDs struct {
	sync.Mutex
	started bool
	last    uint32
}

const framePoolSize = 1024

// resetProcessState is called at the start of every run (no gateway goroutine exists).
func resetProcessState() {
	dataplaneFreeFrames = nil
	dirtyMu.Lock()
	dirty = map[*byte]int{}
	dirtyMu.Unlock()
	dataplaneStreamIDs.Lock()
	dataplaneStreamIDs.started = false
	dataplaneStreamIDs.last = 0
	dataplaneStreamIDs.Unlock()
}

// auditPool is called at the end of a run, when no goroutine of the gateway is left and the
// scheduling hook is off. It returns the number of buffers missing from the pool.
func auditPool() int {
	if dataplaneFreeFrames == nil {
		return 0
	}
	buf := make(ringbuf.EntryList, framePoolSize+8)
	n, _ := dataplaneFreeFrames.Read(buf, false)
	if n > 0 {
		dataplaneFreeFrames.Write(buf[:n], false)
	}
	return framePoolSize - max(n, 0)
}
