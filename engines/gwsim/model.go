//go:build verif

package gwsim

import (
	"bytes"
	"encoding/binary"
	"fmt"

	"verif/sim/core"
)

// ---- packets (the workload) ----

type packet struct {
	id      int
	data    []byte
	valid   bool
	kind    string
	stream  int // serial of the stream (= path) it was written to, -1: no path at that moment
	pos     int // position among the valid packets of its stream
	emitted int
	spans   int // number of frames the packet was spread over (sender side)
}

// fill writes a self-identifying or deliberately header-like pattern.
func fill(b []byte, id int, pattern int) {
	switch pattern {
	case 0: // every 8-byte word identifies (packet, offset): any splice or shift is visible
		for i := 0; i < len(b); i += 8 {
			var w [8]byte
			binary.BigEndian.PutUint64(w[:], core.Mix(uint64(id)*0x10001+7, uint64(i)))
			copy(b[i:], w[:])
		}
	case 1: // looks like a train of minimal IPv4 headers
		for i := 0; i < len(b); i++ {
			b[i] = [...]byte{0x45, 0, 0, 20, byte(id), byte(i), 0, 0, 64, 17, 0, 0, 10, 0, 0, 1, 10, 0, 0, 2}[i%20]
		}
	case 2: // looks like a train of empty IPv6 packets
		for i := 0; i < len(b); i++ {
			if i%40 == 0 {
				b[i] = 0x60
			} else if i%40 == 7 {
				b[i] = byte(id)
			} else {
				b[i] = 0
			}
		}
	case 3:
		for i := range b {
			b[i] = 0xff
		}
	default: // zeros except a marker
		if len(b) > 0 {
			b[len(b)-1] = byte(id)
		}
	}
}

func ipv4Checksum(h []byte) uint16 {
	var sum uint32
	for i := 0; i+1 < len(h); i += 2 {
		sum += uint32(binary.BigEndian.Uint16(h[i:]))
	}
	for sum>>16 != 0 {
		sum = sum&0xffff + sum>>16
	}
	return ^uint16(sum)
}

// makeV4 builds a valid IPv4 packet of exactly size bytes (size >= 20).
func makeV4(id, size, ihl, pattern int, proto byte) []byte {
	if ihl < 5 || ihl*4 > size {
		ihl = 5
	}
	b := make([]byte, size)
	fill(b[ihl*4:], id, pattern)
	b[0] = 0x40 | byte(ihl)
	b[1] = byte(id) << 2
	binary.BigEndian.PutUint16(b[2:], uint16(size))
	binary.BigEndian.PutUint16(b[4:], uint16(id))
	b[6], b[7] = 0x40, 0 // don't fragment
	b[8] = 64
	b[9] = proto
	binary.BigEndian.PutUint32(b[12:], uint32(id)) // unique id lives in the source address
	copy(b[16:20], []byte{192, 168, byte(id >> 8), byte(id)})
	for i := 20; i < ihl*4; i++ {
		b[i] = 1 // option: no-operation
	}
	binary.BigEndian.PutUint16(b[10:], ipv4Checksum(b[:ihl*4]))
	return b
}

// makeV6 builds a valid IPv6 packet of exactly size bytes (size >= 40).
func makeV6(id, size, pattern int, next byte) []byte {
	b := make([]byte, size)
	fill(b[40:], id, pattern)
	b[0] = 0x60 | byte(id&0xf)
	b[1] = byte(id >> 4)
	binary.BigEndian.PutUint16(b[4:], uint16(size-40))
	b[6] = next
	b[7] = 64
	b[8], b[9] = 0xfd, 0
	binary.BigEndian.PutUint32(b[10:], uint32(id)) // unique id lives in the source address
	b[23] = 1
	b[24], b[25] = 0xfd, 1
	binary.BigEndian.PutUint32(b[36:], uint32(id)^0x5a5a5a5a)
	return b
}

// idOf extracts the embedded id of a packet image (ok=false when it cannot be one of ours).
func idOf(b []byte) (int, bool) {
	if len(b) == 0 {
		return 0, false
	}
	switch b[0] >> 4 {
	case 4:
		if len(b) >= 20 {
			return int(binary.BigEndian.Uint32(b[12:])), true
		}
	case 6:
		if len(b) >= 40 {
			return int(binary.BigEndian.Uint32(b[10:])), true
		}
	}
	return 0, false
}

func describe(b []byte) string {
	n := len(b)
	if n > 48 {
		n = 48
	}
	return fmt.Sprintf("len=%d head=%x", len(b), b[:n])
}

// ---- streams: what one sender (one path tenure) was given, and what it must put on the wire ----

type stream struct {
	serial  int
	pathMTU int
	capEst  int    // estimated frame payload capacity (budgeting only)
	want    []byte // concatenation of the valid packets written (doc/sig.rst: no padding)
	starts  []int  // offsets in want at which packets begin
	owner   []int  // packet id per entry of starts
	got     int    // bytes of want seen in frames so far
	nframes uint64 // frames seen = next sequence number
	sid     int    // stream id of the frames (-1: none seen)
	expect  []int  // ids of the valid packets in write order
	nextEm  int    // clean oracle: next position expected at the tunnel device
	outst   int    // packets written since the sender was last seen idle
	closed  bool   // no further writes go to this stream
	tainted bool   // a corrupted (truncated/bit-flipped) frame of this stream reached the receiver
	maxLen  int
	born    int64 // clock reading (ns) when the sender was created
}

// lookup finds the valid sent packet an emitted image is byte-identical to.
func (s *sim) lookup(em []byte) *packet {
	if id, ok := idOf(em); ok && id >= 0 && id < len(s.pkts) {
		p := s.pkts[id]
		if p.valid && bytes.Equal(p.data, em) {
			return p
		}
	}
	for _, p := range s.pkts {
		if p.valid && bytes.Equal(p.data, em) {
			return p
		}
	}
	return nil
}
