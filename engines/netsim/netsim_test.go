//go:build verif

package netsim

import (
	"testing"

	"verif/sim/core"
)

func TestWorker(t *testing.T) {
	core.Main(t, core.Engine{Name: "netsim", Campaigns: map[string]core.RunFunc{
		"C01/paths":      runPaths,
		"C01/tamper":     runTamper,
		"C01/expiry":     runExpiry,
		"C02/paths":      runPaths,
		"C03/paths":      runPaths,
		"C03/epic":       runEPIC,
		"C04/tamper":     runTamper,
		"C05/spoof":      runSpoof,
		"C06/linktype":   runLinkType,
		"C07/paths":      runPaths,
		"C07/scmp":       runSCMP,
		"C07/ohp":        runOHP,
		"C07/epic":       runEPIC,
		"C08/garbage":    runGarbage,
		"C09/scmp":       runSCMP,
		"C10/scmp":       runSCMP,
		"C10/expiry":     runExpiry,
		"C11/ports":      runPorts,
		"C12/ohp":        runOHP,
		"C13/epic":       runEPIC,
		"C15/bfdlinks":   runBFDLinks,
		"C21/spao":       runSPAO,
		"C44/dispatcher": runDispatcher,
		"C17/config":     runConfig,
		"C17/sockets":    runSockets,
		"C22/paths":      runPaths,
		"C28/combine":    runCombine,
		"C29/combine":    runCombine,
	}})
}
