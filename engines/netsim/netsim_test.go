//go:build verif

package netsim

import (
	"testing"

	"verif/sim/core"
)

func TestWorker(t *testing.T) {
	core.Main(t, core.Engine{Name: "netsim", Campaigns: map[string]core.RunFunc{
		"C01/paths":    runPaths,
		"C02/paths":    runPaths,
		"C03/paths":    runPaths,
		"C07/paths":    runPaths,
		"C22/paths":    runPaths,
		"C01/tamper":   runTamper,
		"C01/expiry":   runExpiry,
		"C04/tamper":   runTamper,
		"C08/garbage":  runGarbage,
		"C12/ohp":      runOHP,
		"C07/ohp":      runOHP,
		"C05/spoof":    runSpoof,
		"C06/linktype": runLinkType,
		"C11/ports":    runPorts,
		"C17/config":   runConfig,
		"C07/scmp":     runSCMP,
		"C09/scmp":     runSCMP,
		"C10/scmp":     runSCMP,
		"C10/expiry":   runExpiry,
	}})
}
