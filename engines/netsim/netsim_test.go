//go:build verif

package netsim

import (
	"testing"

	"verif/sim/core"
)

func TestWorker(t *testing.T) {
	core.Main(t, core.Engine{Name: "netsim", Campaigns: map[string]core.RunFunc{
		"C01/paths": runPaths,
		"C02/paths": runPaths,
		"C03/paths": runPaths,
		"C07/paths": runPaths,
		"C22/paths": runPaths,
	}})
}
