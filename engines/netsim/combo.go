//go:build verif

package netsim

import (
	"fmt"
	"net/netip"
	"sort"
	"strings"
	"testing"
	"time"

	"github.com/scionproto/scion/pkg/addr"
	seg "github.com/scionproto/scion/pkg/segment"
	"github.com/scionproto/scion/private/path/combinator"
	"github.com/scionproto/scion/private/topology"
	"github.com/scionproto/scion/router"
	"verif/sim/core"
	"verif/sim/refmodel"
)

type hopOwner struct {
	IA   addr.IA
	Kind string // up core down
	Seg  int
	Peer bool
	TS   uint32
}

func hopKey(mac [6]byte, in, eg uint16, exp uint8) string {
	return fmt.Sprintf("%x/%d/%d/%d", mac, in, eg, exp)
}

// indexHops maps every hop field (regular and peer) of the input segments to its AS and segment.
func indexHops(ups, cores, downs []*seg.PathSegment) map[string][]hopOwner {
	idx := map[string][]hopOwner{}
	add := func(kind string, list []*seg.PathSegment) {
		for si, s := range list {
			ts := uint32(s.Info.Timestamp.Unix())
			for _, e := range s.ASEntries {
				h := e.HopEntry.HopField
				k := hopKey(h.MAC, h.ConsIngress, h.ConsEgress, h.ExpTime)
				idx[k] = append(idx[k], hopOwner{e.Local, kind, si, false, ts})
				for _, pe := range e.PeerEntries {
					ph := pe.HopField
					k := hopKey(ph.MAC, ph.ConsIngress, ph.ConsEgress, ph.ExpTime)
					idx[k] = append(idx[k], hopOwner{e.Local, kind, si, true, ts})
				}
			}
		}
	}
	add("up", ups)
	add("core", cores)
	add("down", downs)
	return idx
}

func seqString(c []Crossing) string {
	var sb strings.Builder
	for _, x := range c {
		fmt.Fprintf(&sb, "%s#%d ", x.IA, x.IfID)
	}
	return sb.String()
}

func asCount(c []Crossing) map[addr.IA]int {
	m := map[addr.IA]int{}
	for _, x := range c {
		m[x.IA]++
	}
	return m
}

// enumerate: the interface sequences the statement of C29 promises (conservative: whole segments
// joined at their ends, shortcuts at a common non-core AS inside an up and a down segment, peering
// links announced in both), minus those passing an AS more than twice.
func enumerate(src, dst addr.IA, ups, cores, downs []*seg.PathSegment) map[string]bool {
	out := map[string]bool{}
	type ent struct {
		ia     addr.IA
		in, eg uint16
		peers  []seg.PeerEntry
	}
	conv := func(s *seg.PathSegment) []ent {
		var es []ent
		for _, e := range s.ASEntries {
			es = append(es, ent{e.Local, e.HopEntry.HopField.ConsIngress, e.HopEntry.HopField.ConsEgress, e.PeerEntries})
		}
		return es
	}
	// traversal against construction from index hi down to lo (inclusive): crossings
	against := func(es []ent, hi, lo int) []Crossing {
		var c []Crossing
		for k := hi; k > lo; k-- {
			c = append(c, Crossing{es[k].ia, es[k].in}, Crossing{es[k-1].ia, es[k-1].eg})
		}
		return c
	}
	along := func(es []ent, lo, hi int) []Crossing {
		var c []Crossing
		for k := lo; k < hi; k++ {
			c = append(c, Crossing{es[k].ia, es[k].eg}, Crossing{es[k+1].ia, es[k+1].in})
		}
		return c
	}
	emit := func(c []Crossing) {
		if len(c) == 0 {
			return
		}
		for _, n := range asCount(c) {
			if n > 2 {
				return
			}
		}
		if c[0].IA != src || c[len(c)-1].IA != dst {
			return
		}
		out[seqString(c)] = true
	}
	var U, C, D [][]ent
	for _, s := range ups {
		if es := conv(s); len(es) >= 2 && es[len(es)-1].ia == src {
			U = append(U, es)
		}
	}
	for _, s := range cores {
		if es := conv(s); len(es) >= 2 {
			C = append(C, es)
		}
	}
	for _, s := range downs {
		if es := conv(s); len(es) >= 2 && es[len(es)-1].ia == dst {
			D = append(D, es)
		}
	}
	// single segments
	for _, u := range U {
		if u[0].ia == dst {
			emit(against(u, len(u)-1, 0))
		}
	}
	for _, d := range D {
		if d[0].ia == src {
			emit(along(d, 0, len(d)-1))
		}
	}
	for _, c := range C {
		if c[len(c)-1].ia == src && c[0].ia == dst {
			emit(against(c, len(c)-1, 0))
		}
	}
	// up + core, core + down, up + core + down, up + down at the core end
	for _, u := range U {
		for _, c := range C {
			if c[len(c)-1].ia == u[0].ia && c[0].ia == dst {
				emit(append(against(u, len(u)-1, 0), against(c, len(c)-1, 0)...))
			}
			for _, d := range D {
				if c[len(c)-1].ia == u[0].ia && c[0].ia == d[0].ia {
					x := append(against(u, len(u)-1, 0), against(c, len(c)-1, 0)...)
					emit(append(x, along(d, 0, len(d)-1)...))
				}
			}
		}
		for _, d := range D {
			if u[0].ia == d[0].ia {
				emit(append(against(u, len(u)-1, 0), along(d, 0, len(d)-1)...))
			}
			// shortcut at a common AS inside both
			for i := 1; i < len(u); i++ {
				for j := 1; j < len(d); j++ {
					if u[i].ia == d[j].ia && i < len(u)-1 && j < len(d)-1 {
						emit(append(against(u, len(u)-1, i), along(d, j, len(d)-1)...))
					}
				}
			}
			// peering link announced by both
			for i := 1; i < len(u); i++ {
				for j := 1; j < len(d); j++ {
					for _, pu := range u[i].peers {
						for _, pd := range d[j].peers {
							if pu.Peer == d[j].ia && pd.Peer == u[i].ia && pu.PeerInterface == pd.HopField.ConsIngress && pd.PeerInterface == pu.HopField.ConsIngress {
								x := against(u, len(u)-1, i)
								x = append(x, Crossing{u[i].ia, pu.HopField.ConsIngress}, Crossing{d[j].ia, pd.HopField.ConsIngress})
								emit(append(x, along(d, j, len(d)-1)...))
							}
						}
					}
				}
			}
		}
	}
	for _, c := range C {
		for _, d := range D {
			if c[len(c)-1].ia == src && c[0].ia == d[0].ia {
				emit(append(against(c, len(c)-1, 0), along(d, 0, len(d)-1)...))
			}
		}
	}
	return out
}

// checkCombine judges one Combine call (C28 well-formedness and metadata; C29 completeness).
func (w *World) checkCombine(r *core.Run, src, dst *AS, ups, cores, downs []*seg.PathSegment, paths []combinator.Path) {
	idx := indexHops(ups, cores, downs)
	now := time.Now()
	seen := map[string]int{}
	lastWeight := -1
	got := map[string]bool{}
	// The combinator iterates over Go maps: which of several equivalent candidates comes first (or
	// is kept) can differ between two executions of the same run. To keep verdicts and replays
	// independent of that, every candidate (also the identical ones filtered out) is judged and of
	// all violations the lexicographically smallest is reported.
	var fails [][3]string
	cands := paths
	if r.Prop == "C28" {
		cands = append(append([]combinator.Path(nil), paths...), combinator.Combine(src.IA, dst.IA, ups, cores, downs, true)...)
	}
	defer func() {
		if len(fails) > 0 && !r.Failed() {
			sort.Slice(fails, func(i, j int) bool { return fails[i][2] < fails[j][2] })
			r.Fail(fails[0][0], fails[0][1], "%s", fails[0][2])
		}
	}()
	for pi, p := range cands {
		returned := pi < len(paths)
		var ifs []Crossing
		for _, i := range p.Metadata.Interfaces {
			ifs = append(ifs, Crossing{i.IA, uint16(i.ID)})
		}
		key := seqString(ifs)
		if returned {
			got[key] = true
		}
		if r.Prop != "C28" {
			continue
		}
		fail := func(sig, format string, a ...any) {
			fails = append(fails, [3]string{"c28-" + sig, sig, fmt.Sprintf("Combine(%s,%s) path [%s]: %s", src.IA, dst.IA, key, fmt.Sprintf(format, a...))})
		}
		// the raw path, wrapped in a packet so that the reference parser can read it
		pkt, err := BuildPacket(PktSpec{SrcIA: src.IA, DstIA: dst.IA, Src: hostAddr(src.Hosts[0]), Dst: hostAddr(dst.Hosts[0]), RawPath: p.SCIONPath.Raw, SrcPort: 1, DstPort: 1})
		if err != nil {
			fail("raw-path", "raw path does not decode: %v", err)
			continue
		}
		q, err := refmodel.Parse(pkt)
		if err != nil {
			fail("raw-path", "raw path inconsistent: %v", err)
			continue
		}
		if q.CurrHF != 0 || q.CurrINF != 0 {
			fail("raw-path", "pointers not at the start")
			continue
		}
		// every hop and info field comes from the input segments; segment kinds in order up, core, down
		rank := map[string]int{"up": 0, "core": 1, "down": 2}
		lastRank := -1
		var derived []Crossing
		exp := time.Time{}
		for s := 0; s < q.NumINF; s++ {
			var kind string
			// the input segments all hop fields of this path segment seen so far can come from (a hop
			// field alone may occur in several input segments: beacons of one origin that left over the
			// same interface with the same timestamp and initial segment id share their first entries)
			type segRef struct {
				Kind string
				Seg  int
			}
			var cands map[segRef]bool
			for h := q.SegStart(s); h < q.SegStart(s)+q.SegLen[s]; h++ {
				hf := q.Hops[h]
				owners := idx[hopKey(hf.MAC, hf.ConsIngress, hf.ConsEgress, hf.ExpTime)]
				var o *hopOwner
				here := map[segRef]bool{}
				for k := range owners {
					if owners[k].TS == q.Infos[s].Timestamp && (cands == nil || cands[segRef{owners[k].Kind, owners[k].Seg}]) {
						here[segRef{owners[k].Kind, owners[k].Seg}] = true
						if o == nil {
							o = &owners[k]
						}
					}
				}
				if o == nil {
					fail("foreign-field", "hop field %d (in %d eg %d) with segment timestamp %d is not taken from one input segment", h, hf.ConsIngress, hf.ConsEgress, q.Infos[s].Timestamp)
					continue
				}
				cands = here
				kind = o.Kind
				e := q.HopExpiry(h)
				if exp.IsZero() || e.Before(exp) {
					exp = e
				}
				// interfaces traversed, in travel direction
				in, eg := q.TravelIngress(h), q.TravelEgress(h)
				first := h == q.SegStart(s)
				lastOfSeg := h == q.SegStart(s)+q.SegLen[s]-1
				peerHop := isPeerHop(q, h)
				if in != 0 && h != 0 && !(first && s > 0 && !peerHop) { // the source AS is not entered
					derived = append(derived, Crossing{o.IA, in})
				}
				if eg != 0 && h != q.NumHops-1 && !(lastOfSeg && s < q.NumINF-1 && !peerHop) { // the destination AS is not left
					derived = append(derived, Crossing{o.IA, eg})
				}
			}
			if rank[kind] <= lastRank {
				fail("segment-order", "segments not in the order up, core, down (at most one each): %s after rank %d", kind, lastRank)
				continue
			}
			lastRank = rank[kind]
			if (kind == "down") != q.Infos[s].ConsDir {
				fail("direction", "%s segment with ConsDir=%v", kind, q.Infos[s].ConsDir)
				continue
			}
		}
		if seqString(derived) != key {
			fail("metadata-interfaces", "hop fields traverse [%s]", seqString(derived))
			continue
		}
		if len(ifs) == 0 || ifs[0].IA != src.IA || ifs[len(ifs)-1].IA != dst.IA {
			fail("endpoints", "does not lead from %s to %s", src.IA, dst.IA)
			continue
		}
		for ia, n := range asCount(ifs) {
			if n > 2 {
				fail("as-loop", "passes %s more than twice", ia)
				continue
			}
		}
		if !p.Metadata.Expiry.Equal(exp) {
			fail("expiry", "metadata expiry %v, earliest hop field expiry %v", p.Metadata.Expiry.Sub(now), exp.Sub(now))
			continue
		}
		// MTU: minimum over the internal MTUs of the ASes on the path and the MTUs of the links crossed (ground truth)
		mtu := 1 << 30
		for k, c := range ifs {
			a := w.AS(c.IA)
			mtu = min(mtu, a.MTU)
			if k%2 == 0 {
				if in := a.Intfs[c.IfID]; in != nil {
					mtu = min(mtu, in.MTU)
				}
			}
		}
		if int(p.Metadata.MTU) != mtu {
			fail("mtu", "metadata MTU %d, minimum of AS-internal and link MTUs along the path %d", p.Metadata.MTU, mtu)
			continue
		}
		if returned {
			if _, dup := seen[key]; dup {
				fail("duplicate", "interface sequence returned twice")
				continue
			}
			seen[key] = pi
			if p.Weight < lastWeight {
				fail("weight-order", "weight %d after %d", p.Weight, lastWeight)
				continue
			}
			lastWeight = p.Weight
		}
		r.Probe("c28-path-checked")
	}
	if r.Prop == "C28" && !r.Failed() {
		// among identical interface sequences the kept path is the one expiring last
		all := combinator.Combine(src.IA, dst.IA, ups, cores, downs, true)
		latest := map[string]time.Time{}
		for _, p := range all {
			var ifs []Crossing
			for _, i := range p.Metadata.Interfaces {
				ifs = append(ifs, Crossing{i.IA, uint16(i.ID)})
			}
			k := seqString(ifs)
			if p.Metadata.Expiry.After(latest[k]) {
				latest[k] = p.Metadata.Expiry
			}
		}
		if len(all) > len(paths) {
			r.Probe("c28-identical-paths-filtered")
		}
		for _, p := range paths {
			var ifs []Crossing
			for _, i := range p.Metadata.Interfaces {
				ifs = append(ifs, Crossing{i.IA, uint16(i.ID)})
			}
			k := seqString(ifs)
			if !p.Metadata.Expiry.Equal(latest[k]) {
				r.Fail("c28-kept-latest", "kept-not-latest", "Combine(%s,%s): of the identical paths [%s] the one kept expires %v before the latest", src.IA, dst.IA, k, latest[k].Sub(p.Metadata.Expiry))
				return
			}
		}
		for k := range latest {
			if !got[k] {
				r.Fail("c28-kept-latest", "identical-all-dropped", "Combine(%s,%s): interface sequence [%s] exists among the candidates but no path with it is returned", src.IA, dst.IA, k)
				return
			}
		}
	}
	if r.Prop == "C29" {
		want := enumerate(src.IA, dst.IA, ups, cores, downs)
		keys := make([]string, 0, len(want))
		for k := range want {
			keys = append(keys, k)
		}
		sort.Strings(keys)
		for _, k := range keys {
			r.Probe("c29-expected-sequence")
			if !got[k] {
				r.Fail("c29-missing", "missing-combination", "Combine(%s,%s) with %d up, %d core, %d down segments does not return [%s] (%d paths returned)", src.IA, dst.IA, len(ups), len(cores), len(downs), k, len(paths))
				return
			}
		}
		if len(want) == 0 {
			r.Probe("c29-nothing-expected")
		}
	}
}

func runCombine(r *core.Run) {
	core.Bubble(r, func(t *testing.T) { combineCampaign(r) })
}

// combineCampaign serves C28 and C29: every AS pair of a world, with the segment sets a lookup
// would have and with perturbed sets (subsets, duplicates re-beaconed later with other expiries).
func combineCampaign(r *core.Run) {
	k := defaultKnobs(r)
	k.MaxRouters = 1 // routers are irrelevant here; keeps worlds cheap
	k.RandomMaxExp = r.Chance("randexp", 1, 2)
	w := GenWorld(r, k)
	w.SegJitter = time.Duration(r.Choice("segjitter.s", 4)) * 600 * time.Second
	w.Build()
	r.Logf("world: %s", w.Describe())
	segs, err := w.GenSegments(r, time.Now().Add(-time.Duration(r.Choice("segage.s", 3000))*time.Second), 8)
	if err != nil {
		panic(core.InfraError{Msg: "segments: " + err.Error()})
	}
	if r.Chance("rebeacon", 1, 2) {
		// a second beaconing round: the same walks again with newer timestamps (duplicates with other expiries)
		more, err := w.GenSegments(r, time.Now().Add(-time.Duration(r.Choice("segage2.s", 600))*time.Second), 4)
		if err != nil {
			panic(core.InfraError{Msg: "segments: " + err.Error()})
		}
		// a refreshed registration may announce fewer peering links than the older one
		for _, d := range more.Down {
			for i := range d.PS.ASEntries {
				if len(d.PS.ASEntries[i].PeerEntries) > 0 && r.Chance("rebeacon.droppeers", 1, 2) {
					d.PS.ASEntries[i].PeerEntries = nil
					r.Fault("seg.refreshed-without-peers")
				}
			}
		}
		segs.Core = append(segs.Core, more.Core...)
		segs.Down = append(segs.Down, more.Down...)
		r.Fault("seg.rebeacon")
	}
	// segments are arbitrary inputs: peer hop fields whose expiry differs from the regular hop field's
	if r.Chance("perturb.peerexp", 1, 2) {
		for _, d := range segs.Down {
			for i := range d.PS.ASEntries {
				for k := range d.PS.ASEntries[i].PeerEntries {
					if r.Chance("peerexp", 1, 2) {
						d.PS.ASEntries[i].PeerEntries[k].HopField.ExpTime = uint8(r.Choice("peerexp.val", 256))
						r.Fault("seg.peer-exptime-differs")
					}
				}
			}
		}
	}
	n := 0
	for _, src := range w.ASes {
		for _, dst := range w.ASes {
			if src == dst || r.Failed() {
				continue
			}
			if !r.Chance("pair", 1, 2) {
				continue
			}
			ups, cores, downs := segs.SegsFor(src, dst)
			// perturbation: drop some segments
			if r.Chance("subset", 1, 3) {
				filter := func(l []*seg.PathSegment) []*seg.PathSegment {
					var o []*seg.PathSegment
					for _, s := range l {
						if !r.Chance("drop", 1, 4) {
							o = append(o, s)
						}
					}
					return o
				}
				ups, cores, downs = filter(ups), filter(cores), filter(downs)
				r.Fault("seg.subset")
			}
			paths := combinator.Combine(src.IA, dst.IA, ups, cores, downs, false)
			n++
			r.Logf("combine %s -> %s: %d/%d/%d segments, %d paths", src.IA, dst.IA, len(ups), len(cores), len(downs), len(paths))
			r.Covered(fmt.Sprintf("srccore%v/dstcore%v/sameisd%v/paths%d", src.Core, dst.Core, src.IA.ISD() == dst.IA.ISD(), min(len(paths), 3)))
			w.checkCombine(r, src, dst, ups, cores, downs, paths)
		}
	}
	// very long segments: two chains of 28-36 ASes under two core ASes, joined by one peering link near
	// the top, so that the peering path between the two leaves needs 60-64 hop fields (64 is the most
	// a SCION path can hold)
	if r.Chance("longchains", 1, 3) && !r.Failed() {
		total := 60 + r.Choice("long.total", 5)
		la := 28 + r.Choice("long.la", 5)
		lb := total + 2 - la // the core entries above the peering ASes are not part of the peering path
		lw, src, dst, up, down := longChainWorld(r, la, lb)
		ups, downs := []*seg.PathSegment{up.PS}, []*seg.PathSegment{down.PS}
		paths := combinator.Combine(src.IA, dst.IA, ups, nil, downs, false)
		n++
		r.Logf("combine over long chains %s -> %s: %d+%d hop fields, %d paths", src.IA, dst.IA, la, lb, len(paths))
		r.Covered(fmt.Sprintf("longchains/total%d/paths%d", total, min(len(paths), 2)))
		r.Probe("c29-long-peering-path")
		lw.checkCombine(r, src, dst, ups, nil, downs, paths)
	}
	r.Nontrivial = n > 0
	r.Sample = map[string]any{"ases": len(w.ASes), "combine_calls": n, "core_segments": len(segs.Core), "down_segments": len(segs.Down)}
}

// longChainWorld builds two core ASes, a chain of la-1 ASes below the first and of lb-1 below the
// second (so that the segments from the cores to the leaves have la and lb entries), and a peering link
// between the first non-core AS of each chain. It returns the two leaves and their segments. No
// routers are built.
func longChainWorld(r *core.Run, la, lb int) (*World, *AS, *AS, *Seg, *Seg) {
	w := &World{R: r, byIA: map[addr.IA]*AS{}, Knobs: Knobs{MaxRouters: 1}, consBeta: map[string]uint16{}}
	mk := func(isCore bool) *AS {
		a := &AS{Idx: len(w.ASes), Core: isCore, Intfs: map[uint16]*Intf{}}
		a.IA = addr.MustIAFrom(1, addr.AS(0xff00_0000_1000+uint64(len(w.ASes))))
		a.MTU = 1472
		a.Master = r.Tape.Bytes("master", 16)
		a.RefKey = refmodel.DeriveHopKey(a.Master)
		a.MaxExp = 63
		w.ASes = append(w.ASes, a)
		w.byIA[a.IA] = a
		return a
	}
	chain := func(n int) []*AS {
		as := []*AS{mk(true)}
		for i := 1; i < n; i++ {
			a := mk(false)
			w.addLink(a, as[i-1], topology.Parent, topology.Child)
			as = append(as, a)
		}
		return as
	}
	ca, cb := chain(la), chain(lb)
	w.addLink(ca[0], cb[0], topology.Core, topology.Core)
	w.addLink(ca[1], cb[1], topology.Peer, topology.Peer)
	for _, a := range w.ASes {
		rt := &Router{AS: a, Name: fmt.Sprintf("br%d-0", a.Idx), linkToSibling: map[router.Link]*Router{},
			Internal: netip.AddrPortFrom(netip.AddrFrom4([4]byte{10, byte(a.Idx), 0, 1}), 30042)}
		a.Routers = []*Router{rt}
		for _, id := range a.SortedIfIDs() {
			a.Intfs[id].Router = rt
			rt.Intfs = append(rt.Intfs, a.Intfs[id])
		}
		a.Hosts = []*Host{{AS: a, Addr: netip.AddrFrom4([4]byte{10, byte(a.Idx), 1, 1})}}
		a.CSAddr = netip.AddrPortFrom(netip.AddrFrom4([4]byte{10, byte(a.Idx), 2, 1}), 30252)
		a.PortStart, a.PortEnd, a.PortRange = 31000, 32767, "31000-32767"
		if err := a.BuildTopo(); err != nil {
			panic(core.InfraError{Msg: "long chain topology: " + err.Error()})
		}
	}
	walk := func(as []*AS) *Seg {
		in, eg := []uint16{0}, []uint16{}
		for i := 1; i < len(as); i++ {
			// the link between as[i-1] (parent) and as[i]
			var down *Intf
			for _, id := range as[i-1].SortedIfIDs() {
				if x := as[i-1].Intfs[id]; x.Remote.AS == as[i] && x.Type == topology.Child {
					down = x
				}
			}
			eg = append(eg, down.ID)
			in = append(in, down.Remote.ID)
		}
		eg = append(eg, 0)
		sg, err := w.walkSeg(time.Now().Add(-time.Minute), uint16(r.Choice("segid", 1<<16)), as, in, eg, false)
		if err != nil {
			panic(core.InfraError{Msg: "long chain segment: " + err.Error()})
		}
		return sg
	}
	return w, ca[la-1], cb[lb-1], walk(ca), walk(cb)
}
