//go:build verif

package netsim

import (
	"encoding/binary"

	"verif/sim/core"
	"verif/sim/refmodel"
)

// Forged paths: hop fields MACed with an AS's own key (through the reference model), used to put
// otherwise valid packets into situations honest path construction never produces (illegal link
// type pairs, wrong positions). Only the hop fields of the AS under test need valid MACs: a router
// never validates another AS's hop fields.

type FHop struct {
	AS     *AS    // nil: foreign hop with a random MAC
	In, Eg uint16 // construction ingress / egress
	Exp    uint8
	Beta   uint16 // accumulator the MAC is computed with (only for AS != nil)
	mac    [6]byte
}

type FSeg struct {
	Hops    []FHop // in the order they appear in the packet
	ConsDir bool
	Peer    bool
	TS      uint32
	SegID   uint16
}

// forgeRaw serialises a SCION path (type 1) from forged segments.
func forgeRaw(r *core.Run, segs []FSeg, currINF, currHF int) []byte {
	var seglen [3]int
	for i, s := range segs {
		seglen[i] = len(s.Hops)
	}
	meta := uint32(currINF)<<30 | uint32(currHF)<<24 | uint32(seglen[0])<<12 | uint32(seglen[1])<<6 | uint32(seglen[2])
	out := make([]byte, 4)
	binary.BigEndian.PutUint32(out, meta)
	for _, s := range segs {
		var b [8]byte
		if s.ConsDir {
			b[0] |= 1
		}
		if s.Peer {
			b[0] |= 2
		}
		binary.BigEndian.PutUint16(b[2:], s.SegID)
		binary.BigEndian.PutUint32(b[4:], s.TS)
		out = append(out, b[:]...)
	}
	for _, s := range segs {
		for _, h := range s.Hops {
			var b [12]byte
			b[1] = h.Exp
			binary.BigEndian.PutUint16(b[2:], h.In)
			binary.BigEndian.PutUint16(b[4:], h.Eg)
			if h.AS != nil {
				full := refmodel.HopMACFull(h.AS.RefKey, h.Beta, s.TS, h.Exp, h.In, h.Eg)
				copy(b[6:], full[:6])
			} else {
				copy(b[6:], r.Tape.Bytes("forge.foreignmac", 6))
			}
			out = append(out, b[:]...)
		}
	}
	return out
}

// macOf returns the first two MAC bytes of a hop forged for AS a.
func macHead(a *AS, beta uint16, ts uint32, exp uint8, in, eg uint16) uint16 {
	full := refmodel.HopMACFull(a.RefKey, beta, ts, exp, in, eg)
	return uint16(full[0])<<8 | uint16(full[1])
}
