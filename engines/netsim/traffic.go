//go:build verif

package netsim

import (
	"fmt"
	"testing"
	"time"

	"github.com/scionproto/scion/pkg/addr"
	"github.com/scionproto/scion/pkg/snet"
	"github.com/scionproto/scion/private/path/combinator"
	"verif/sim/core"
	"verif/sim/refmodel"
)

func defaultKnobs(r *core.Run) Knobs {
	return Knobs{MaxISD: 2, MaxCore: 3, MaxNonCore: 5, MaxPeer: 3, MaxRouters: 3,
		ReuseLocal: r.Chance("reuselocal", 1, 2), RcvBuf: 1 << (10 + r.Choice("rcvbuf", 8)), SndBuf: 3 << (9 + r.Choice("sndbuf", 8)),
		Batch: 1 << r.Choice("batch", 3), ConcBeacon: r.Chance("concbeacon", 1, 2)} // small: the sequential engine never batches, and the pool is sized by it
}

func hostAddr(h *Host) addr.Host { return addr.HostIP(h.Addr) }

// pathsBetween runs the real combinator on the segments a lookup would have.
func (w *World) pathsBetween(segs *Segments, src, dst *AS) []combinator.Path {
	ups, cores, downs := segs.SegsFor(src, dst)
	return combinator.Combine(src.IA, dst.IA, ups, cores, downs, false)
}

func describePath(p combinator.Path) string {
	s := ""
	for _, i := range p.Metadata.Interfaces {
		s += fmt.Sprintf("%s#%d ", i.IA, i.ID)
	}
	return s
}

// Flow is one (source host, destination host, path) triple with its serialised packet.
type Flow struct {
	Src, Dst *AS
	SH, DH   *Host
	Path     combinator.Path
	Raw      []byte
	DPort    uint16
	SPort    uint16
	First    *Router
}

func (w *World) newFlow(r *core.Run, src, dst *AS, p combinator.Path) *Flow {
	f := &Flow{Src: src, Dst: dst, Path: p}
	f.SH = src.Hosts[r.Choice("srchost", len(src.Hosts))]
	f.DH = dst.Hosts[r.Choice("dsthost", len(dst.Hosts))]
	f.DPort = uint16(int(dst.PortStart) + r.Choice("dport", int(dst.PortEnd-dst.PortStart)+1))
	f.SPort = uint16(int(src.PortStart) + r.Choice("sport", int(src.PortEnd-src.PortStart)+1))
	raw, err := BuildPacket(PktSpec{SrcIA: src.IA, DstIA: dst.IA, Src: hostAddr(f.SH), Dst: hostAddr(f.DH),
		RawPath: p.SCIONPath.Raw, SrcPort: f.SPort, DstPort: f.DPort, Payload: r.Tape.Bytes("payload", r.Choice("pldlen", 64)),
		TC: uint8(r.Choice("tc", 256)), FlowID: uint32(r.Choice("flowid", 1<<20))})
	if err != nil {
		panic(core.InfraError{Msg: "build packet: " + err.Error()})
	}
	f.Raw = raw
	first := src.Intfs[uint16(p.Metadata.Interfaces[0].ID)]
	if first == nil {
		panic(core.InfraError{Msg: "path metadata starts at an interface the source AS does not have"})
	}
	f.First = first.Router
	return f
}

// sampleFlows performs lookups for seed-chosen AS pairs and returns one flow per returned path.
func (w *World) sampleFlows(r *core.Run, segs *Segments, maxPairs, maxPaths int) []*Flow {
	var out []*Flow
	npairs := 1 + r.Choice("pairs", maxPairs)
	for i := 0; i < npairs; i++ {
		src := w.ASes[r.Choice("src", len(w.ASes))]
		dst := w.ASes[r.Choice("dst", len(w.ASes))]
		if src == dst {
			continue
		}
		paths := w.pathsBetween(segs, src, dst)
		r.Logf("lookup %s -> %s: %d paths", src.IA, dst.IA, len(paths))
		if len(paths) > maxPaths {
			k := r.Choice("pathoff", len(paths)-maxPaths+1)
			paths = paths[k : k+maxPaths]
		}
		for _, p := range paths {
			out = append(out, w.newFlow(r, src, dst, p))
		}
	}
	return out
}

// setup builds a world with segments inside the bubble.
func setup(r *core.Run, k Knobs, segAge time.Duration) (*World, *Segments) {
	w := GenWorld(r, k)
	w.Build()
	w.OnHop = func(rec *HopRec) { w.judgeRec(r, rec) }
	r.Logf("world: %s", w.Describe())
	segs, err := w.GenSegments(r, time.Now().Add(-segAge), 6)
	if err != nil {
		panic(core.InfraError{Msg: "segments: " + err.Error()})
	}
	return w, segs
}

// judgeHops is kept for call sites; judging happens per traversal in OnHop (see judgeRec).
func (w *World) judgeHops(r *core.Run, j *Journey) {}

// judgeRec applies the per-traversal invariants of the property under check, at the simulated
// instant of the traversal.
func (w *World) judgeRec(r *core.Run, rec *HopRec) {
	now := time.Now()
	{
		if rec.Panic != "" && r.Prop != "C08" {
			panic(core.InfraError{Msg: fmt.Sprintf("router panic outside the C08 campaign (a C08 violation): %s %s: %s input %x",
				rec.Router.AS.IA, rec.Router.Name, rec.Panic, rec.InRaw)})
		}
		switch r.Prop {
		case "C01":
			w.checkC01(r, rec, now)
		case "C07":
			w.checkC07(r, rec)
		case "C08":
			w.checkC08Output(r, rec)
		case "C22":
			w.checkC22(r, rec)
		}
	}
}

func sameCrossings(c []Crossing, ifs []snet.PathInterface, reversed bool) bool {
	if len(c) != len(ifs) {
		return false
	}
	for k := range c {
		e := ifs[k]
		if reversed {
			e = ifs[len(ifs)-1-k]
		}
		if c[k].IA != e.IA || uint64(c[k].IfID) != uint64(e.ID) {
			return false
		}
	}
	return true
}

func lastHop(j *Journey) string {
	if len(j.Hops) == 0 {
		return "no hop"
	}
	l := j.Hops[len(j.Hops)-1]
	return fmt.Sprintf("%s %s in=%v disp=%d slow=%v sptype=%d code=%d ptr=%d err=%v", l.Router.AS.IA, l.Router.Name, l.In, l.Res.Disposition,
		l.Res.SlowPath, l.Res.SPType, l.Res.SPCode, l.Res.SPPointer, l.Res.SlowPathErr)
}

// runPaths: valid traffic on every path the real combinator builds from real segments, and the
// replies on the reversed paths. Serves C02, C03, C07, C22 and the valid-traffic side of C01.
func runPaths(r *core.Run) {
	core.Bubble(r, func(t *testing.T) { paths(r) })
}

func paths(r *core.Run) {
	w, segs := setup(r, defaultKnobs(r), time.Duration(r.Choice("segage.s", 3600))*time.Second)
	flows := w.sampleFlows(r, segs, 6, 8)
	nhops := 0
	for _, f := range flows {
		if r.Failed() {
			break
		}
		r.Logf("flow %s:%v -> %s:%v via %s", f.Src.IA, f.SH.Addr, f.Dst.IA, f.DH.Addr, describePath(f.Path))
		j := w.Send(f.First, Ingress{Kind: InHost, Src: f.SH.UDPAddr(int(f.SPort))}, f.Raw, nil)
		nhops += len(j.Hops)
		if pp, err := refmodel.Parse(f.Raw); err == nil {
			peer := false
			for _, inf := range pp.Infos {
				peer = peer || inf.Peer
			}
			r.Covered(fmt.Sprintf("segs%d/hops%d/peer%v/srccore%v/dstcore%v", pp.NumINF, pp.NumHops, peer, f.Src.Core, f.Dst.Core))
			if peer {
				r.Probe("peering-path")
			}
			if pp.NumINF == 2 && !peer && !f.Src.Core && !f.Dst.Core {
				r.Probe("shortcut-or-2seg-noncore")
			}
			if pp.NumINF == 3 {
				r.Probe("three-segment-path")
			}
		}
		w.judgeHops(r, j)
		if r.Failed() {
			break
		}
		ok := j.Delivered && !j.SCMP
		if r.Prop == "C02" || r.Prop == "C01" {
			if !ok {
				r.Fail("c02-accepted", "not-accepted", "path %s: valid packet not delivered: %s", describePath(f.Path), lastHop(j))
				break
			}
			if j.DstAS != f.Dst || j.Dst.Addr() != f.DH.Addr || j.Dst.Port() != f.DPort {
				r.Fail("c02-destination", "wrong-destination", "delivered to %s %v, want %s %v:%d", j.DstAS.IA, j.Dst, f.Dst.IA, f.DH.Addr, f.DPort)
				break
			}
			if !sameCrossings(j.Crossings, f.Path.Metadata.Interfaces, false) {
				r.Fail("c02-interfaces", "interface-sequence", "crossed %v, metadata %s", j.Crossings, describePath(f.Path))
				break
			}
		}
		if !ok {
			continue
		}
		// the destination host answers on the reversed path, via the router that delivered
		reply, err := reverseUDP(j.Final)
		if err != nil {
			panic(core.InfraError{Msg: "reversing delivered packet: " + err.Error()})
		}
		lastRouter := j.Hops[len(j.Hops)-1].Router
		jr := w.Send(lastRouter, Ingress{Kind: InHost, Src: f.DH.UDPAddr(int(f.DPort))}, reply, nil)
		nhops += len(jr.Hops)
		w.judgeHops(r, jr)
		if r.Failed() {
			break
		}
		if r.Prop == "C03" {
			if !jr.Delivered || jr.SCMP {
				r.Fail("c03-reply-accepted", "reply-not-accepted", "reply on reversed path %s not delivered: %s", describePath(f.Path), lastHop(jr))
				break
			}
			if jr.DstAS != f.Src || jr.Dst.Addr() != f.SH.Addr || jr.Dst.Port() != f.SPort {
				r.Fail("c03-reply-destination", "reply-wrong-destination", "reply delivered to %s %v, want %s %v:%d", jr.DstAS.IA, jr.Dst, f.Src.IA, f.SH.Addr, f.SPort)
				break
			}
			if !sameCrossings(jr.Crossings, f.Path.Metadata.Interfaces, true) {
				r.Fail("c03-reply-interfaces", "reply-interface-sequence", "reply crossed %v, request metadata %s", jr.Crossings, describePath(f.Path))
				break
			}
		}
	}
	r.Nontrivial = len(flows) > 0
	r.Sample = map[string]any{"ases": len(w.ASes), "links": w.Links, "core_segments": len(segs.Core), "down_segments": len(segs.Down),
		"flows": len(flows), "router_traversals": nhops}
}

// checkC22: the accumulator value the router validates a hop field with equals the value the
// beaconing AS used when it created that hop field.
func (w *World) checkC22(r *core.Run, rec *HopRec) {
	// judged on every traversal of a packet on a combinator path, whatever the router then decided:
	// a desynchronised accumulator is the violation, the rejection only its symptom
	a := rec.Router.AS
	p, err := refmodel.Parse(rec.InRaw)
	if err != nil || !p.HasSCION {
		return
	}
	check := func(h int, beta uint16) {
		hf := p.Hops[h]
		key := consKey(a, hf.MAC[:], hf.ConsIngress, hf.ConsEgress, p.Infos[p.SegOfHop(h)].Timestamp)
		want, ok := w.consBeta[key]
		if !ok {
			return // not a hop field of a simulated segment (cannot happen on combinator paths)
		}
		r.Probe("c22-hop-checked")
		if want != beta {
			r.Fail("c22-accumulator", "accumulator-desync", "%s %s validates hop %d (in %d eg %d) with accumulator %#04x, constructed with %#04x",
				a.IA, rec.Router.Name, h, hf.ConsIngress, hf.ConsEgress, beta, want)
		}
	}
	h := p.CurrHF
	check(h, effBeta(p, h, rec.In.Kind == InExt))
	if p.IsLastHopOfSeg(h) && h != p.NumHops-1 && !isPeerHop(p, h) && p.DstIA != uint64(a.IA) {
		check(h+1, p.Infos[p.SegOfHop(h+1)].SegID)
	}
}
