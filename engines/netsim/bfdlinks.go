//go:build verif

package netsim

import (
	"context"
	"fmt"
	"net"
	"testing"
	"testing/synctest"
	"time"

	"github.com/gopacket/gopacket"
	"github.com/gopacket/gopacket/layers"

	"github.com/scionproto/scion/pkg/addr"
	"github.com/scionproto/scion/pkg/slayers"
	spath "github.com/scionproto/scion/pkg/slayers/path"
	"github.com/scionproto/scion/pkg/slayers/path/empty"
	"github.com/scionproto/scion/pkg/slayers/path/onehop"
	"github.com/scionproto/scion/router"
	"github.com/scionproto/scion/router/bfd"
	"verif/sim/core"
	"verif/sim/refmodel"
)

// Campaign C15/bfdlinks: links carry real bfd.Sessions (running on the simulated clock). The
// simulator plays the remote end of every session with scripted control packets that travel
// through the real router (processBFD), and silences; data packets that would use the links are
// interleaved. Oracle per traversal: forwarded over link L <=> L has no BFD or its session is up
// at that instant; otherwise the documented SCMP message.

const (
	bfdAlive = iota
	bfdSilent
	bfdSayDown
	bfdSayAdminDown
)

var bfdModeName = []string{"alive", "silent", "saydown", "sayadmindown"}

// bfdLink is one BFD session of one router and the scripted remote end.
type bfdLink struct {
	rt    *Router
	name  string
	link  router.Link
	sess  *bfd.Session
	ext   *Intf   // external link: the local interface
	sib   *Router // sibling link: the sibling
	mode  int
	discr uint32 // the scripted peer's discriminator
	sent  int
}

func (b *bfdLink) ingress() Ingress {
	if b.ext != nil {
		return Ingress{Kind: InExt, IfID: b.ext.ID}
	}
	return Ingress{Kind: InSibling, Sibling: b.sib}
}

// peerPacket builds the control packet the remote end would send, as the router's own BFD sender
// does (one-hop path between ASes, empty path between siblings).
func (b *bfdLink) peerPacket(state layers.BFDState) []byte {
	sc := &slayers.SCION{TrafficClass: 0xb8, FlowID: 0xdead, NextHdr: slayers.L4BFD}
	a := b.rt.AS
	var src, dst addr.Host
	if b.ext != nil {
		rem := b.ext.Remote
		sc.SrcIA, sc.DstIA = rem.AS.IA, a.IA
		la, _ := net.ResolveUDPAddr("udp", b.ext.LocalUA)
		ra, _ := net.ResolveUDPAddr("udp", b.ext.RemoteUA)
		src, dst = addr.HostIP(ra.AddrPort().Addr().Unmap()), addr.HostIP(la.AddrPort().Addr().Unmap())
		sc.PathType = onehop.PathType
		sc.Path = &onehop.Path{Info: spath.InfoField{ConsDir: true, Timestamp: uint32(time.Now().Unix() - 10)},
			FirstHop: spath.HopField{ConsEgress: rem.ID, ExpTime: 63}}
	} else {
		sc.SrcIA, sc.DstIA = a.IA, a.IA
		src, dst = addr.HostIP(b.sib.Internal.Addr()), addr.HostIP(b.rt.Internal.Addr())
		sc.PathType = empty.PathType
		sc.Path = &empty.Path{}
	}
	if err := sc.SetSrcAddr(src); err != nil {
		panic(core.InfraError{Msg: err.Error()})
	}
	if err := sc.SetDstAddr(dst); err != nil {
		panic(core.InfraError{Msg: err.Error()})
	}
	ctl := &layers.BFD{Version: 1, State: state, DetectMultiplier: 3, MyDiscriminator: layers.BFDDiscriminator(b.discr),
		YourDiscriminator:     b.sess.LocalDiscriminator,
		DesiredMinTxInterval:  layers.BFDTimeInterval(200 * time.Millisecond / time.Microsecond),
		RequiredMinRxInterval: layers.BFDTimeInterval(200 * time.Millisecond / time.Microsecond)}
	buf := gopacket.NewSerializeBuffer()
	if err := gopacket.SerializeLayers(buf, gopacket.SerializeOptions{FixLengths: true}, sc, ctl); err != nil {
		panic(core.InfraError{Msg: "serialising BFD packet: " + err.Error()})
	}
	return append([]byte(nil), buf.Bytes()...)
}

func runBFDLinks(r *core.Run) {
	core.Bubble(r, func(t *testing.T) { bfdLinksCampaign(r) })
}

func scopeName(l router.Link) string {
	switch l.Scope() {
	case router.External:
		return "external"
	case router.Sibling:
		return "sibling"
	}
	return "internal"
}

func bfdLinksCampaign(r *core.Run) {
	k := defaultKnobs(r)
	k.BFD, k.BFDMix = true, true
	seed := r.Tape.Seed
	bfd.VerifSetJitterSource(func(n int) int { return int(core.Mix(seed, uint64(time.Now().UnixNano())) % uint64(n)) })
	defer bfd.VerifSetJitterSource(nil)
	w, segs := setup(r, k, time.Duration(r.Choice("segage.s", 3600))*time.Second)

	// every session of every router, in a stable order; sibling links share one session per sibling
	ctx, cancel := context.WithCancel(context.Background())
	var links []*bfdLink
	seen := map[*bfd.Session]bool{}
	for _, a := range w.ASes {
		for _, rt := range a.Routers {
			for _, id := range a.SortedIfIDs() {
				in := a.Intfs[id]
				l := rt.Conn.VerifLink(id)
				if l == nil {
					panic(core.InfraError{Msg: fmt.Sprintf("%s has no link for interface %d", rt.Name, id)})
				}
				s := l.BFDSession()
				if s == nil || seen[s] {
					continue
				}
				seen[s] = true
				b := &bfdLink{rt: rt, link: l, sess: s, discr: uint32(1000 + len(links))}
				if in.Router == rt {
					b.ext, b.name = in, fmt.Sprintf("%s/%s#%d", a.IA, rt.Name, id)
				} else {
					b.sib, b.name = in.Router, fmt.Sprintf("%s/%s~%s", a.IA, rt.Name, in.Router.Name)
				}
				b.mode = r.Choice("bfd.mode0", 3)
				links = append(links, b)
				go func() {
					if err := s.Run(ctx); err != nil {
						panic(core.InfraError{Msg: "bfd session: " + err.Error()})
					}
				}()
			}
		}
	}
	defer func() {
		cancel()
		for _, b := range links {
			b.sess.Close()
		}
		synctest.Wait()
	}()
	synctest.Wait()
	r.Logf("%d BFD sessions", len(links))

	serve := func() {
		for _, b := range links {
			var st layers.BFDState
			switch b.mode {
			case bfdSilent:
				continue
			case bfdSayDown:
				st = layers.BFDStateDown
			case bfdSayAdminDown:
				st = layers.BFDStateAdminDown
			default:
				st = layers.BFDStateInit
				if b.sess.VerifLocalState() == layers.BFDStateUp {
					st = layers.BFDStateUp
				}
			}
			rec := w.process(b.rt, b.ingress(), b.peerPacket(st))
			if rec.Panic != "" {
				panic(core.InfraError{Msg: "router panic on a BFD packet: " + rec.Panic})
			}
			if rec.Res.Disposition != router.VerifDone {
				panic(core.InfraError{Msg: fmt.Sprintf("BFD control packet for %s not consumed by the router (disposition %d)", b.name, rec.Res.Disposition)})
			}
			b.sent++
			synctest.Wait()
		}
	}
	tick := func(n int) {
		for i := 0; i < n; i++ {
			// 137 ms: no multiple of it equals the 600 ms detection time, so a scripted packet never
			// coincides with a detection-timer expiry
			time.Sleep(137 * time.Millisecond)
			synctest.Wait()
			serve()
		}
	}
	tick(8)

	// ground truth: does the link run BFD at all?
	hasBFD := func(rt *Router, l router.Link, egress uint16) bool {
		if l.Scope() == router.External {
			return rt.AS.Intfs[egress].BFD
		}
		return rt.SibBFD
	}
	up := func(rt *Router, l router.Link, egress uint16) bool {
		s := l.BFDSession()
		if !hasBFD(rt, l, egress) {
			return true
		}
		if s == nil {
			r.Probe("c15-configured-bfd-without-session")
			return true
		}
		// the session's *state* (hook H3), not its IsUp(): what IsUp answers is part of what is judged
		return s.VerifLocalState() == layers.BFDStateUp
	}

	var cur *Flow
	nUp, nDown := 0, 0
	prev := w.OnHop
	w.OnHop = func(rec *HopRec) {
		prev(rec)
		if r.Failed() || rec.Panic != "" {
			return
		}
		rt := rec.Router
		a := rt.AS
		// invariant on every traversal, replies included: nothing leaves over a link that is down
		if rec.Res.Disposition == router.VerifForward && rec.Res.EgressLink.Scope() != router.Internal {
			l := rec.Res.EgressLink
			eg := l.IfID()
			if l.Scope() == router.Sibling {
				eg = rec.Res.Egress
			}
			if rec.Res.SlowPath {
				// an SCMP reply leaves over the link the offender came in by
				if s := l.BFDSession(); s != nil && s.VerifLocalState() != layers.BFDStateUp {
					r.Probe("c15-scmp-reply-over-down-ingress-link")
				}
			} else if !up(rt, l, eg) {
				r.Fail("c15-forwarded-over-down-link", "forwarded-over-down-link", "%s %s forwarded a packet over its %s link towards interface %d while the BFD session of that link is %v",
					a.IA, rt.Name, scopeName(l), eg, l.BFDSession().VerifLocalState())
				return
			}
		}
		if rec.Reply || cur == nil {
			return
		}
		// forward traversal of a valid packet: which link would it use here?
		var egress uint16
		ifs := cur.Path.Metadata.Interfaces
		for i := 0; i < len(ifs); i += 2 {
			if ifs[i].IA == a.IA {
				egress = uint16(ifs[i].ID)
			}
		}
		if egress == 0 {
			return // destination AS: local delivery
		}
		l := rt.Conn.VerifLink(egress)
		isUp := up(rt, l, egress)
		r.Covered(fmt.Sprintf("%s/bfd%v/up%v", scopeName(l), hasBFD(rt, l, egress), isUp))
		if isUp {
			nUp++
			if rec.Res.Disposition != router.VerifForward || rec.Res.SlowPath || rec.Res.EgressLink != l {
				r.Fail("c15-usable-link-refused", "usable-link-refused", "%s %s did not forward a valid packet over its %s link towards interface %d (BFD configured: %v, session up): disposition %d slow path %v type %d",
					a.IA, rt.Name, scopeName(l), egress, hasBFD(rt, l, egress), rec.Res.Disposition, rec.Res.SlowPath, rec.Res.SPType)
			}
			return
		}
		nDown++
		wantType := uint8(scmpIntConnDown)
		if l.Scope() == router.External {
			wantType = uint8(scmpExtIfDown)
		}
		if !rec.Res.SlowPath || rec.Res.SPType != int(wantType) || rec.Res.Disposition != router.VerifForward {
			r.Fail("c15-down-link-scmp", "down-link-no-scmp", "%s %s: packet for the down %s link towards interface %d not answered with SCMP type %d: disposition %d slow path %v type %d err %v",
				a.IA, rt.Name, scopeName(l), egress, wantType, rec.Res.Disposition, rec.Res.SlowPath, rec.Res.SPType, rec.Res.SlowPathErr)
			return
		}
		out, err := refmodel.Parse(rec.OutRaw)
		if err != nil {
			r.Fail("c15-down-link-scmp", "down-link-scmp-malformed", "%s %s: SCMP does not parse: %v", a.IA, rt.Name, err)
			return
		}
		v, err := viewSCMP(out)
		if err != nil || v.Type != wantType || v.IA != uint64(a.IA) || v.Iface != uint64(egress) {
			r.Fail("c15-down-link-scmp", "down-link-scmp-content", "%s %s: SCMP %+v (err %v), want type %d naming %s interface %d", a.IA, rt.Name, v, err, wantType, a.IA, egress)
			return
		}
		if wantType == scmpIntConnDown {
			var ingress uint16
			for i := 1; i < len(ifs); i += 2 {
				if ifs[i].IA == a.IA {
					ingress = uint16(ifs[i].ID)
				}
			}
			if v.Ingress != uint64(ingress) {
				r.Fail("c15-down-link-scmp", "down-link-scmp-ingress", "%s %s: internal-connectivity-down names ingress %d, packet entered through %d", a.IA, rt.Name, v.Ingress, ingress)
			}
		}
	}

	flows := w.sampleFlows(r, segs, 6, 6)
	steps := 20 + r.Choice("steps", 40)
	sent := 0
	for s := 0; s < steps && !r.Failed(); s++ {
		switch c := r.Choice("step", 10); {
		case c <= 5 && len(flows) > 0:
			f := flows[r.Choice("flow", len(flows))]
			cur = f
			r.Logf("t=%v data %s -> %s via %s", time.Since(time.Date(2000, 1, 1, 0, 0, 0, 0, time.UTC)), f.Src.IA, f.Dst.IA, describePath(f.Path))
			w.Send(f.First, Ingress{Kind: InHost, Src: f.SH.UDPAddr(int(f.SPort))}, f.Raw, nil)
			cur = nil
			sent++
		case c == 6:
			tick(1)
		case c == 7:
			tick(6) // longer than the detection time
			r.Fault("clock.advance")
		default:
			if len(links) == 0 {
				continue
			}
			b := links[r.Choice("bfd.link", len(links))]
			b.mode = r.Choice("bfd.mode", 4)
			r.Fault("bfd." + bfdModeName[b.mode])
			r.Logf("peer of %s now %s (session %v)", b.name, bfdModeName[b.mode], b.sess.VerifLocalState())
		}
	}
	r.SimNS = int64(time.Since(time.Date(2000, 1, 1, 0, 0, 0, 0, time.UTC)))
	r.Nontrivial = sent > 0 && len(links) > 0 && nUp > 0 && nDown > 0
	if nDown > 0 {
		r.Probe("c15-packet-for-down-link")
	}
	r.Sample = map[string]any{"ases": len(w.ASes), "bfd_sessions": len(links), "data_packets": sent, "traversals_link_up": nUp, "traversals_link_down": nDown}
}
