//go:build verif

package netsim

import (
	"sync"

	"encoding/binary"
	"fmt"
	"github.com/scionproto/scion/pkg/slayers/path/epic"
	"github.com/scionproto/scion/pkg/slayers/path/scion"
	"testing"
	"time"

	"github.com/scionproto/scion/pkg/addr"
	"github.com/scionproto/scion/private/topology"
	"github.com/scionproto/scion/router"
	"verif/sim/core"
	"verif/sim/refmodel"
)

func setIAs(raw []byte, dst, src addr.IA) []byte {
	out := append([]byte(nil), raw...)
	binary.BigEndian.PutUint64(out[12:], uint64(dst))
	binary.BigEndian.PutUint64(out[20:], uint64(src))
	return out
}

// fixUDPChecksum is not needed: routers do not verify upper-layer checksums.

// background sends one valid packet of a seed-chosen flow through the network, unjudged: it gives
// the long-lived packet processors of the routers on its path a history (cross-overs, peering
// hops, EPIC), so that state a processor wrongly carries from one packet to the next shows.
func (w *World) background(r *core.Run, flows []*Flow) {
	if len(flows) == 0 || !r.Chance("background", 1, 2) {
		return
	}
	f := flows[r.Choice("background.flow", len(flows))]
	raw := f.Raw
	if f.Path.Metadata.EpicAuths.SupportsEpic() && r.Chance("background.epic", 1, 3) {
		if e, err := buildEPIC(f, []byte("background")); err == nil {
			raw = e
		}
	}
	prev := w.OnHop
	w.OnHop = nil
	w.remember(w.Send(f.First, Ingress{Kind: InHost, Src: f.SH.UDPAddr(int(f.SPort))}, raw, nil))
	w.OnHop = prev
	r.Probe("background-packet")
}

// history: valid traversals seen per router, by kind, so that an adversarial packet can be preceded
// on the very same processor by a packet that was at a peering hop, did a cross-over, or was plain.
type histRec struct {
	in  Ingress
	raw []byte
}

var histories sync.Map // *World -> map[*Router]map[string][]histRec

func (w *World) remember(j *Journey) {
	v, _ := histories.LoadOrStore(w, map[*Router]map[string][]histRec{})
	h := v.(map[*Router]map[string][]histRec)
	for _, rec := range j.Hops {
		if rec.Reply || rec.Panic != "" || rec.Res.Disposition != router.VerifForward || rec.Res.SlowPath {
			continue
		}
		p, err := refmodel.Parse(rec.InRaw)
		if err != nil || !p.HasSCION {
			continue
		}
		kind := "plain"
		switch {
		case isPeerHop(p, p.CurrHF):
			kind = "peering"
		case p.IsLastHopOfSeg(p.CurrHF) && p.CurrHF != p.NumHops-1:
			kind = "xover"
		}
		if h[rec.Router] == nil {
			h[rec.Router] = map[string][]histRec{}
		}
		if l := h[rec.Router][kind]; len(l) < 6 {
			h[rec.Router][kind] = append(l, histRec{rec.In, rec.InRaw})
		}
	}
}

// precede processes, unjudged, one packet on the router just before the packet under test: a
// remembered valid traversal (at a peering hop, doing a cross-over, plain) or a forged packet that
// merely has the shape of one positioned on a peering hop (whatever the router then decides about
// it, it has looked at it).
func (w *World) precede(r *core.Run, rt *Router) {
	if !r.Chance("precede", 2, 3) {
		return
	}
	var h map[string][]histRec
	if v, ok := histories.Load(w); ok {
		h = v.(map[*Router]map[string][]histRec)[rt]
	}
	kinds := []string{"forged-peering"}
	for _, k := range []string{"peering", "xover", "plain"} {
		if len(h[k]) > 0 {
			kinds = append(kinds, k)
		}
	}
	kind := kinds[r.Choice("precede.kind", len(kinds))]
	prev := w.OnHop
	w.OnHop = nil
	defer func() { w.OnHop = prev }()
	r.Probe("preceded-by-" + kind + "-packet")
	if kind != "forged-peering" {
		x := h[kind][r.Choice("precede.which", len(h[kind]))]
		w.process(rt, x.in, x.raw)
		return
	}
	a := rt.AS
	ts := uint32(time.Now().Unix() - 60)
	in := Ingress{Kind: InHost, Src: a.Hosts[0].UDPAddr(40000)}
	first := uint16(0)
	if len(rt.Intfs) > 0 && r.Chance("precede.ext", 1, 2) {
		first = rt.Intfs[0].ID
		in = Ingress{Kind: InExt, IfID: first}
	}
	segs := []FSeg{
		{ConsDir: false, Peer: true, TS: ts, SegID: 7, Hops: []FHop{{In: 9, Eg: 0}, {AS: a, In: first, Eg: 3, Exp: 63, Beta: 7}}},
		{ConsDir: true, Peer: true, TS: ts, SegID: 9, Hops: []FHop{{AS: a, In: first, Eg: 5, Exp: 63, Beta: 9}, {In: 7, Eg: 0}}},
	}
	currINF, currHF := 1, 2
	if in.Kind == InExt {
		currINF, currHF = 0, 1
	}
	other := w.ASes[(a.Idx+1)%len(w.ASes)]
	pkt, err := BuildPacket(PktSpec{SrcIA: a.IA, DstIA: other.IA, Src: hostAddr(a.Hosts[0]), Dst: hostAddr(other.Hosts[0]),
		RawPath: forgeRaw(r, segs, currINF, currHF), SrcPort: 31000, DstPort: 31001, Payload: []byte("peering-shaped")})
	if err != nil {
		panic(core.InfraError{Msg: "forged peering-shaped packet: " + err.Error()})
	}
	w.process(rt, in, pkt)
}

func runSpoof(r *core.Run) {
	core.Bubble(r, func(t *testing.T) { spoof(r) })
}

// spoof serves C05: valid in-flight packets (taken from dry runs on combinator paths) with the
// source/destination ISD-AS rewritten and/or handed to the router over another link.
func spoof(r *core.Run) {
	k := defaultKnobs(r)
	k.MaxRouters = 4
	w, segs := setup(r, k, time.Minute)
	flows := w.sampleFlows(r, segs, 5, 4)
	n := 0
	for _, f := range flows {
		if r.Failed() {
			break
		}
		dry := w.Send(f.First, Ingress{Kind: InHost, Src: f.SH.UDPAddr(int(f.SPort))}, f.Raw, nil)
		if !dry.Delivered || dry.SCMP {
			continue
		}
		w.remember(dry)
		// ingress router of each AS in the dry run
		ingressRouter := map[*AS]*Router{}
		for _, rec := range dry.Hops {
			if rec.In.Kind == InExt {
				ingressRouter[rec.Router.AS] = rec.Router
			}
		}
		for ti := range dry.Hops {
			rec := dry.Hops[ti]
			a := rec.Router.AS
			p, err := refmodel.Parse(rec.InRaw)
			if err != nil || !p.HasSCION {
				continue
			}
			for rep := 0; rep < 2 && !r.Failed(); rep++ {
				// choose source and destination ISD-AS
				third := w.ASes[r.Choice("third", len(w.ASes))].IA
				cands := []addr.IA{f.Src.IA, f.Dst.IA, a.IA, third}
				src := cands[r.Choice("spoof.src", len(cands))]
				dst := cands[r.Choice("spoof.dst", len(cands))]
				// choose the link it arrives on
				in := rec.In
				linkDesc := "as-is"
				lk := r.Choice("spoof.link", 4)
				if rec.In.Kind == InSibling && r.Chance("spoof.hostlink.bias", 1, 2) {
					lk = 1 // transit traffic handed over by a sibling, re-sent by a host: the disguise of the statement
				}
				switch lk {
				case 1: // over the internal link from a host
					if rec.In.Kind != InHost {
						in = Ingress{Kind: InHost, Src: a.Hosts[0].UDPAddr(40000)}
						linkDesc = "host-link"
						r.Fault("pkt.misdeliver.hostlink")
					}
				case 2: // over the sibling link from another router
					if len(a.Routers) >= 2 {
						s := a.Routers[r.Choice("spoof.sibling", len(a.Routers))]
						if s != rec.Router && !(rec.In.Kind == InSibling && rec.In.Sibling == s) {
							in = Ingress{Kind: InSibling, Sibling: s}
							linkDesc = fmt.Sprintf("sibling-link-from-r%d", s.Idx)
							r.Fault("pkt.misdeliver.sibling")
						}
					}
				}
				raw := setIAs(rec.InRaw, dst, src)
				srcLocal, dstLocal := src == a.IA, dst == a.IA
				first, last := p.CurrHF == 0, p.CurrHF == p.NumHops-1
				// the decision table of the statement
				reject, why := false, ""
				switch in.Kind {
				case InExt:
					if srcLocal {
						reject, why = true, "external ingress claims local source"
					} else if last != dstLocal {
						reject, why = true, "local delivery iff last hop and destination local"
					}
				default:
					if dstLocal {
						reject, why = true, "from inside with local destination"
					} else if first {
						if !srcLocal {
							reject, why = true, "first hop from inside with foreign source"
						}
					} else {
						// must have come over the sibling link to the router owning the hop's ingress interface
						owner := ingressRouter[a]
						if in.Kind != InSibling || owner == nil || in.Sibling != owner {
							reject, why = true, "transit over the internal network not from the sibling owning the ingress interface"
						}
					}
				}
				w.background(r, flows)
				r.Logf("spoof at %s %s traversal %d: src=%s dst=%s link=%s => reject=%v (%s)", a.IA, rec.Router.Name, ti, src, dst, linkDesc, reject, why)
				w.precede(r, rec.Router)
				prevHook := w.OnHop
				w.OnHop = nil
				got := w.process(rec.Router, in, raw)
				w.OnHop = prevHook
				n++
				if got.Panic != "" {
					panic(core.InfraError{Msg: "router panic (C08): " + got.Panic})
				}
				forwarded := got.Res.Disposition == router.VerifForward && !got.Res.SlowPath
				r.Covered(fmt.Sprintf("in%d/first%v/last%v/srcl%v/dstl%v/%s/reject%v", in.Kind, first, last, srcLocal, dstLocal, linkDesc[:4], reject))
				if reject && forwarded {
					r.Fail("c05-accepted", "spoof-accepted:"+why, "%s %s forwarded a packet that must be rejected (%s): src=%s dst=%s ingress=%v currHF=%d/%d", a.IA, rec.Router.Name, why, src, dst, in, p.CurrHF, p.NumHops)
					break
				}
				if !reject && !forwarded && in == rec.In && src == f.Src.IA && dst == f.Dst.IA {
					r.Fail("c05-overreject", "valid-rejected", "%s %s rejected the unmodified valid packet", a.IA, rec.Router.Name)
					break
				}
				if !reject && dstLocal && forwarded && got.Res.EgressLink.Scope() != router.Internal {
					r.Fail("c05-local-delivery", "not-delivered-locally", "%s %s: last hop with local destination not delivered locally", a.IA, rec.Router.Name)
					break
				}
			}
		}
	}
	r.Nontrivial = n > 0
	histories.Delete(w)
	r.Sample = map[string]any{"ases": len(w.ASes), "flows": len(flows), "spoofed_packets": n}
}

func runLinkType(r *core.Run) {
	core.Bubble(r, func(t *testing.T) { linkType(r) })
}

var ltName = map[topology.LinkType]string{topology.Core: "core", topology.Parent: "parent", topology.Child: "child", topology.Peer: "peer"}

// linkType serves C06: for every ordered pair of interfaces of an AS, within a segment and at a
// segment change, in both directions, a packet with validly MACed hop fields.
func linkType(r *core.Run) {
	k := defaultKnobs(r)
	w, lsegs := setup(r, k, time.Minute)
	bg := w.sampleFlows(r, lsegs, 4, 4)
	n := 0
	ts := uint32(time.Now().Unix() - 60)
	for _, a := range w.ASes {
		ids := a.SortedIfIDs()
		if len(ids) < 2 || r.Failed() {
			continue
		}
		for _, i := range ids {
			for _, e := range ids {
				if i == e || r.Failed() {
					continue
				}
				ii, ee := a.Intfs[i], a.Intfs[e]
				shape := r.Choice("lt.shape", 6) // 0 same segment consdir, 1 same segment against, 2 segment change, 3 from inside (host) to e,
				// 4 un-crossed segment change handed over by the sibling owning i, 5 un-crossed segment change sent by a host
				ti, te := ii.Type, ee.Type
				prev, next := ii.Remote.AS, ee.Remote.AS
				var segs []FSeg
				currINF, currHF := 0, 1
				beta := uint16(r.Choice("lt.beta", 1<<16))
				allowed := false
				in := Ingress{Kind: InExt, IfID: i}
				rt := ii.Router
				srcIA, dstIA := prev.IA, next.IA
				if prev == a || next == a {
					continue
				}
				pair := ltName[ti] + "-" + ltName[te]
				sameSeg := map[string]bool{"core-core": true, "child-parent": true, "parent-child": true, "child-peer": true, "peer-child": true}
				change := map[string]bool{"core-child": true, "child-core": true, "child-child": true}
				switch shape {
				case 0:
					segs = []FSeg{{ConsDir: true, TS: ts, SegID: beta, Hops: []FHop{{In: 0, Eg: 9}, {AS: a, In: i, Eg: e, Exp: 63, Beta: beta}, {In: 7, Eg: 0}}}}
					allowed = sameSeg[pair]
				case 1:
					// against construction direction: travel ingress i = ConsEgress, travel egress e = ConsIngress
					segID := beta ^ macHead(a, beta, ts, 63, e, i)
					segs = []FSeg{{ConsDir: false, TS: ts, SegID: segID, Hops: []FHop{{In: 9, Eg: 0}, {AS: a, In: e, Eg: i, Exp: 63, Beta: beta}, {In: 0, Eg: 7}}}}
					allowed = sameSeg[pair]
				case 2:
					// up segment ends at a (against construction), down segment starts at a (construction direction)
					b2 := uint16(r.Choice("lt.beta2", 1<<16))
					segID := beta ^ macHead(a, beta, ts, 63, 0, i)
					segs = []FSeg{
						{ConsDir: false, TS: ts, SegID: segID, Hops: []FHop{{In: 9, Eg: 0}, {AS: a, In: 0, Eg: i, Exp: 63, Beta: beta}}},
						{ConsDir: true, TS: ts, SegID: b2, Hops: []FHop{{AS: a, In: 0, Eg: e, Exp: 63, Beta: b2}, {In: 7, Eg: 0}}},
					}
					allowed = change[pair]
				case 3:
					// from a host inside: first hop, must leave through an external interface of the receiving router
					segs = []FSeg{{ConsDir: true, TS: ts, SegID: beta, Hops: []FHop{{AS: a, In: 0, Eg: e, Exp: 63, Beta: beta}, {In: 7, Eg: 0}}}}
					currHF = 0
					in = Ingress{Kind: InHost, Src: a.Hosts[0].UDPAddr(40000)}
					rt = a.Routers[r.Choice("lt.router", len(a.Routers))]
					srcIA = a.IA
					allowed = ee.Router == rt
					pair = "inside-" + ltName[te]
				}
				judgeAllowed := true
				switch shape {
				case 4, 5:
					b2 := uint16(r.Choice("lt.beta2", 1<<16))
					inIf := i
					if shape == 5 {
						inIf = 0 // the hop names no ingress interface: "entered" from inside
					}
					// from inside the AS no ingress update is applied: SegID is the hop's own accumulator
					segs = []FSeg{
						{ConsDir: false, TS: ts, SegID: beta, Hops: []FHop{{In: 9, Eg: 0}, {AS: a, In: 0, Eg: inIf, Exp: 63, Beta: beta}}},
						{ConsDir: true, TS: ts, SegID: b2, Hops: []FHop{{AS: a, In: 0, Eg: e, Exp: 63, Beta: b2}, {In: 7, Eg: 0}}},
					}
					currHF = 1
					rt = ee.Router
					if shape == 4 {
						if ii.Router == ee.Router {
							continue // needs two routers
						}
						in = Ingress{Kind: InSibling, Sibling: ii.Router}
						allowed = change[pair]
						judgeAllowed = false // an allowed pair arriving un-crossed over the sibling link: the statement is silent
						pair = "sibling:" + pair
					} else {
						in = Ingress{Kind: InHost, Src: a.Hosts[0].UDPAddr(40000)}
						allowed = false
						pair = "host-midpath-" + ltName[te]
					}
				}
				// the same rules hold for EPIC packets (same hop fields behind an EPIC header); two more foreign
				// hops at the end keep the hop under test away from the penultimate and last positions,
				// where the hop validation fields are checked
				asEPIC := shape <= 2 && r.Chance("lt.epic", 1, 3)
				if asEPIC {
					last := &segs[len(segs)-1]
					last.Hops[len(last.Hops)-1].Eg = 11
					last.Hops = append(last.Hops, FHop{In: 12, Eg: 13}, FHop{In: 14, Eg: 0})
					pair += "/epic"
				}
				raw := forgeRaw(r, segs, currINF, currHF)
				g := &Flow{Src: w.AS(srcIA), Dst: w.AS(dstIA), SH: w.AS(srcIA).Hosts[0], DH: w.AS(dstIA).Hosts[0]}
				spec := PktSpec{SrcIA: srcIA, DstIA: dstIA, Src: hostAddr(g.SH), Dst: hostAddr(g.DH), RawPath: raw,
					SrcPort: 31000, DstPort: 31001, Payload: []byte("linktype")}
				if asEPIC {
					rp := &scion.Raw{}
					if err := rp.DecodeFromBytes(raw); err != nil {
						panic(core.InfraError{Msg: "forged path: " + err.Error()})
					}
					spec.Path, spec.PathType = &epic.Path{PktID: epic.PktID{Timestamp: 1, Counter: uint32(n)}, PHVF: []byte{1, 2, 3, 4},
						LHVF: []byte{5, 6, 7, 8}, ScionPath: rp}, epic.PathType
				}
				pkt, err := BuildPacket(spec)
				if err != nil {
					panic(core.InfraError{Msg: "forged packet: " + err.Error()})
				}
				w.background(r, bg)
				w.precede(r, rt)
				prevHook := w.OnHop
				w.OnHop = nil
				got := w.process(rt, in, pkt)
				w.OnHop = prevHook
				n++
				if got.Panic != "" {
					panic(core.InfraError{Msg: "router panic (C08): " + got.Panic})
				}
				forwarded := got.Res.Disposition == router.VerifForward && !got.Res.SlowPath
				r.Logf("linktype %s shape %d pair %s i=%d e=%d => allowed=%v forwarded=%v slow=%v type=%d code=%d", a.IA, shape, pair, i, e, allowed, forwarded, got.Res.SlowPath, got.Res.SPType, got.Res.SPCode)
				r.Covered(fmt.Sprintf("shape%d/%s", shape, pair))
				if !allowed {
					if forwarded {
						r.Fail("c06-forwarded", fmt.Sprintf("illegal-pair-forwarded:shape%d:%s", shape, pair), "%s %s forwarded %s (shape %d, ingress %d egress %d) although the link-type rules forbid it", a.IA, rt.Name, pair, shape, i, e)
						break
					}
					if !got.Res.SlowPath || got.Res.SPType != scmpParamProblem {
						r.Fail("c06-scmp", fmt.Sprintf("illegal-pair-no-scmp:shape%d:%s", shape, pair), "%s %s: forbidden pair %s (shape %d) not answered with an SCMP parameter problem (slow=%v type=%d)", a.IA, rt.Name, pair, shape, got.Res.SlowPath, got.Res.SPType)
						break
					}
				} else if !judgeAllowed {
					// nothing to demand
				} else if !forwarded {
					r.Fail("c06-overreject", fmt.Sprintf("legal-pair-rejected:shape%d:%s", shape, pair), "%s %s rejected the allowed pair %s (shape %d): slow=%v type=%d code=%d", a.IA, rt.Name, pair, shape, got.Res.SlowPath, got.Res.SPType, got.Res.SPCode)
					break
				} else if got.Res.Egress != e {
					r.Fail("c06-egress", "wrong-egress", "%s %s forwarded to egress %d, hop field says %d", a.IA, rt.Name, got.Res.Egress, e)
					break
				}
			}
		}
	}
	r.Nontrivial = n > 0
	histories.Delete(w)
	r.Sample = map[string]any{"ases": len(w.ASes), "packets": n}
}
