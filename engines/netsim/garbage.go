//go:build verif

package netsim

import (
	"fmt"
	"testing"
	"time"

	"verif/sim/core"
)

func runGarbage(r *core.Run) {
	core.Bubble(r, func(t *testing.T) { garbage(r) })
}

// mutate applies one network-style corruption to a datagram.
func mutate(r *core.Run, raw []byte) ([]byte, string) {
	out := append([]byte(nil), raw...)
	hdr := min(len(out), 12+int(out[5])*4)
	if hdr < 12 {
		hdr = len(out)
	}
	switch k := r.Choice("mut.kind", 12); k {
	case 0, 1, 2: // bit flips, biased to the header
		nb := 1 + r.Choice("mut.nbits", 6)
		for i := 0; i < nb; i++ {
			lim := hdr
			if r.Chance("mut.anywhere", 1, 5) {
				lim = len(out)
			}
			pos := r.Choice("mut.pos", lim*8)
			out[pos/8] ^= 0x80 >> (pos % 8)
		}
		r.Fault("pkt.bitflip")
		return out, "bitflip"
	case 3:
		n := r.Choice("mut.trunc", len(out)+1)
		r.Fault("pkt.truncate")
		return out[:n], "truncate"
	case 4:
		ext := r.Tape.Bytes("mut.ext", 1+r.Choice("mut.extlen", 64))
		r.Fault("pkt.extend")
		return append(out, ext...), "extend"
	case 5: // structural fields
		fields := []int{4, 5, 6, 7, 8, 9} // next hdr, hdr len, payload len, path type, address types/lengths
		f := fields[r.Choice("mut.field", len(fields))]
		out[f] = byte(r.Choice("mut.val", 256))
		r.Fault("pkt.tamper.structure")
		return out, fmt.Sprintf("field%d", f)
	case 6: // path meta header (first 4 bytes of the path)
		if hdr > 12+16+8+4 {
			addrLen := 16 + 4*(int(out[9]>>4&3)+1) + 4*(int(out[9]&3)+1)
			off := 12 + addrLen
			if off+4 <= len(out) {
				out[off+r.Choice("mut.metabyte", 4)] = byte(r.Choice("mut.val", 256))
			}
		}
		r.Fault("pkt.tamper.pathmeta")
		return out, "pathmeta"
	case 10, 11: // address type bits (same length, other type) of source or destination
		out[9] ^= []byte{0x40, 0x80, 0x04, 0x08, 0xc0, 0x0c}[r.Choice("mut.addrtype", 6)]
		r.Fault("pkt.tamper.addrtype")
		return out, "addrtype"
	case 7: // random garbage of random length
		r.Fault("pkt.garbage")
		return r.Tape.Bytes("mut.garbage", r.Choice("mut.garblen", 200)), "garbage"
	case 8: // garbage that keeps a valid-looking common header
		g := r.Tape.Bytes("mut.garbage", 12+r.Choice("mut.garblen", 200))
		copy(g, out[:min(12, len(out))])
		r.Fault("pkt.garbage")
		return g, "garbage-with-header"
	default: // upper layer corruption
		if len(out) > hdr {
			pos := hdr + r.Choice("mut.l4pos", len(out)-hdr)
			out[pos] = byte(r.Choice("mut.val", 256))
		}
		r.Fault("pkt.bitflip")
		return out, "l4"
	}
}

// garbage serves C08: every byte string on every kind of link must be processed without a panic,
// and whatever comes out must be a well-formed SCION packet.
func garbage(r *core.Run) {
	k := defaultKnobs(r)
	w := GenWorld(r, k)
	w.AuthSCMP = r.Chance("scmpauth", 1, 2)
	w.Build()
	w.OnHop = func(rec *HopRec) { w.judgeRec(r, rec) }
	segs, err := w.GenSegments(r, time.Now().Add(-time.Minute), 6)
	if err != nil {
		panic(core.InfraError{Msg: "segments: " + err.Error()})
	}
	flows := w.sampleFlows(r, segs, 4, 3)
	n := 0
	for _, f := range flows {
		if r.Failed() {
			break
		}
		// seeds for mutation: UDP, SCMP echo, traceroute with alert, SCMP error, with extensions
		ext := drawExt(r)
		var seeds [][]byte
		seeds = append(seeds, f.Raw)
		seeds = append(seeds, scmpSeed(r, f, ext))
		for _, s := range seeds {
			dry := w.Send(f.First, Ingress{Kind: InHost, Src: f.SH.UDPAddr(int(f.SPort))}, s, nil)
			if r.Failed() {
				break
			}
			for _, rec := range dry.Hops {
				for rep := 0; rep < 3 && !r.Failed(); rep++ {
					m, kind := mutate(r, rec.InRaw)
					in := rec.In
					if r.Chance("mut.otherlink", 1, 6) {
						in = Ingress{Kind: InHost, Src: rec.Router.AS.Hosts[0].UDPAddr(1 + r.Choice("mut.srcport", 65535))}
					}
					// the journey of whatever the router makes of it is followed to its end
					j := w.Send(rec.Router, in, m, nil)
					n++
					r.Covered(kind)
					_ = j
				}
			}
		}
	}
	// packets with very long paths (up to the 63 hop fields a segment can have), as a local host or a
	// neighbour can send them: the first hop field is this AS's own (valid or with a broken MAC), the
	// rest is arbitrary. Whatever the router answers (error replies quote the packet and reverse the
	// whole path) must come out without a panic and well-formed.
	for i := 0; i < 4 && !r.Failed(); i++ {
		a := w.ASes[r.Choice("long.as", len(w.ASes))]
		ids := a.SortedIfIDs()
		if len(ids) == 0 {
			continue
		}
		eg := a.Intfs[ids[r.Choice("long.egress", len(ids))]]
		nseg := 1 + r.Choice("long.segs", 3)
		total := 2*nseg + r.Choice("long.hops", 64-2*nseg)
		ts := uint32(time.Now().Add(-time.Minute).Unix())
		var segs []FSeg
		left := total
		for sgi := 0; sgi < nseg; sgi++ {
			n := left - 2*(nseg-1-sgi)
			if sgi < nseg-1 {
				n = 2 + r.Choice("long.seglen", n-1)
			}
			n = min(n, 63)
			left -= n
			fs := FSeg{ConsDir: r.Chance("long.consdir", 1, 2), TS: ts, SegID: uint16(r.Choice("long.segid", 1<<16))}
			if sgi == 0 {
				fs.ConsDir = true
			}
			for h := 0; h < n; h++ {
				fs.Hops = append(fs.Hops, FHop{In: uint16(r.Choice("long.in", 1<<16)), Eg: uint16(r.Choice("long.eg", 1<<16)), Exp: uint8(r.Choice("long.exp", 256))})
			}
			segs = append(segs, fs)
		}
		fromHost := r.Chance("long.fromhost", 2, 3)
		first := &segs[0].Hops[0]
		first.Exp = 63
		if fromHost {
			first.In, first.Eg = 0, eg.ID
		} else {
			first.In, first.Eg = eg.ID, uint16(r.Choice("long.eg0", 1<<16))
		}
		if !r.Chance("long.badmac", 1, 2) {
			first.AS, first.Beta = a, segs[0].SegID
		}
		rawPath := forgeRaw(r, segs, 0, 0)
		src, dst := a, w.ASes[r.Choice("long.dst", len(w.ASes))]
		if !fromHost {
			src = eg.Remote.AS
		}
		pkt, err := BuildPacket(PktSpec{SrcIA: src.IA, DstIA: dst.IA, Src: hostAddr(src.Hosts[0]), Dst: hostAddr(dst.Hosts[0]), RawPath: rawPath,
			SrcPort: 40000, DstPort: 40001, Payload: r.Tape.Bytes("long.pld", r.Choice("long.pldlen", 1200)), TC: uint8(r.Choice("tc", 256))})
		if err != nil {
			panic(core.InfraError{Msg: "long path packet: " + err.Error()})
		}
		in := Ingress{Kind: InHost, Src: a.Hosts[0].UDPAddr(40000)}
		rt := eg.Router
		if !fromHost {
			in = Ingress{Kind: InExt, IfID: eg.ID}
		}
		r.Logf("long path: %d hop fields in %d segments at %s %s from host=%v, %d bytes", total, nseg, a.IA, rt.Name, fromHost, len(pkt))
		w.Send(rt, in, pkt, nil)
		n++
		r.Covered(fmt.Sprintf("longpath/hops%d", total/8*8))
		r.Probe("c08-long-path-packet")
	}
	r.Nontrivial = n > 0
	r.Sample = map[string]any{"ases": len(w.ASes), "flows": len(flows), "mutated_datagrams": n, "scmp_authentication": w.AuthSCMP}
}
