//go:build verif

// Package netsim: a whole SCION internetwork in one process. Real border routers (configured
// through the real control.ConfigDataplane / Connector API, processing through the real fast and
// slow path), real beacon extension, real path combination; the simulator is the network, the
// hosts and the clock.
package netsim

import (
	"crypto/ecdsa"
	"crypto/elliptic"
	"crypto/rand"
	"fmt"
	"hash"
	"net"
	"net/netip"
	"sort"
	"time"

	"github.com/scionproto/scion/control/ifstate"
	"github.com/scionproto/scion/pkg/addr"
	"github.com/scionproto/scion/pkg/scrypto"
	"github.com/scionproto/scion/pkg/segment/iface"
	"github.com/scionproto/scion/private/env"
	"github.com/scionproto/scion/private/keyconf"
	"github.com/scionproto/scion/private/topology"
	jsontopo "github.com/scionproto/scion/private/topology/json"
	"github.com/scionproto/scion/private/underlay/conn"
	"github.com/scionproto/scion/router"
	rconfig "github.com/scionproto/scion/router/config"
	"github.com/scionproto/scion/router/control"
	_ "github.com/scionproto/scion/router/underlayproviders/udpip"
	"verif/sim/core"
	"verif/sim/refmodel"
)

// LinkType as seen from the local AS: what the neighbour is to us.
type LinkType = topology.LinkType

type Intf struct {
	ID       uint16
	AS       *AS
	Router   *Router
	Type     LinkType // Core, Parent (neighbour is our parent), Child, Peer
	Remote   *Intf
	MTU      int
	LinkIdx  int
	LocalUA  string // underlay addresses of the external link
	RemoteUA string
	BFD      bool
	// ExplicitBFD: the topology says "BFD enabled" for this interface rather than leaving it to
	// the router-wide default.
	ExplicitBFD bool
}

type Router struct {
	AS       *AS
	Idx      int
	Name     string
	Internal netip.AddrPort
	Intfs    []*Intf
	Conn     *router.Connector
	Proc     *router.VerifProcessor
	Opener   *simOpener
	SibBFD   bool // router-wide BFD switch (governs the sibling links)
	// sibling link objects: link of this router towards sibling s, by pointer
	linkToSibling map[router.Link]*Router
}

type Host struct {
	AS   *AS
	Addr netip.Addr
}

type AS struct {
	Idx       int
	IA        addr.IA
	Core      bool
	Level     int
	MTU       int
	Master    []byte
	RefKey    []byte // hop key derived by the reference model
	MacFac    func() hash.Hash
	Intfs     map[uint16]*Intf
	Routers   []*Router
	Hosts     []*Host
	CSAddr    netip.AddrPort
	PortStart uint16
	PortEnd   uint16
	PortRange string
	Topo      topology.Topology
	IfState   *ifstate.Interfaces
	SignKey   *ecdsa.PrivateKey
	MaxExp    uint8
	// router-configuration override of the dispatched port range (nil: none)
	OvStart, OvEnd *int
}

type World struct {
	R        *core.Run
	ASes     []*AS
	byIA     map[addr.IA]*AS
	Links    int
	AuthSCMP bool
	EPIC     bool // extenders add the EPIC authenticators
	Knobs    Knobs
	// consBeta: accumulator value used at construction time, per hop field (see consKey)
	consBeta map[string]uint16
	// SegJitter: segment timestamps are spread over [ts-SegJitter, ts].
	SegJitter time.Duration
	// OnHop is called after every router traversal, at its simulated instant.
	OnHop func(rec *HopRec)
}

// Knobs are per-run configuration choices.
type Knobs struct {
	MaxISD, MaxCore, MaxNonCore, MaxPeer, MaxRouters int
	BFD                                              bool
	BFDMix                                           bool // BFD per link end and per router drawn (C15)
	ReuseLocal                                       bool
	RcvBuf, SndBuf                                   int
	Batch                                            int
	RandomMaxExp                                     bool // per-AS maximum hop expiry drawn from 0..255
	DirectConfigOrder                                bool // configure through direct Connector calls in a drawn order (C11)
	RouterPortOverride                               bool
	// ConcBeacon: several beacons are extended at the same time (as the propagator does), with
	// the goroutines interleaved by the seeded scheduler at every MAC operation.
	ConcBeacon bool
}

func (w *World) AS(ia addr.IA) *AS { return w.byIA[ia] }

func (a *AS) SortedIfIDs() []uint16 {
	ids := make([]uint16, 0, len(a.Intfs))
	for id := range a.Intfs {
		ids = append(ids, id)
	}
	sort.Slice(ids, func(i, j int) bool { return ids[i] < ids[j] })
	return ids
}

func (a *AS) newIfID(r *core.Run) uint16 {
	var id uint16
	if r.Chance("ifid.big", 1, 4) {
		id = uint16(1 + r.Choice("ifid", 65535))
	} else {
		id = uint16(1 + r.Choice("ifid", 40))
	}
	// next free id (no tape-driven retry loops: a zeroed tape must terminate)
	for {
		if _, dup := a.Intfs[id]; !dup && id != 0 {
			return id
		}
		id++
	}
}

var mtus = []int{1472, 1280, 1400, 1500, 4000, 9000}

// GenWorld draws a topology.
func GenWorld(r *core.Run, k Knobs) *World {
	w := &World{R: r, byIA: map[addr.IA]*AS{}, Knobs: k, consBeta: map[string]uint16{}}
	nISD := r.Range("isds", 1, k.MaxISD)
	for isd := 1; isd <= nISD; isd++ {
		nCore := r.Range("cores", 1, k.MaxCore)
		nNon := r.Range("noncores", 0, k.MaxNonCore)
		for c := 0; c < nCore+nNon; c++ {
			a := &AS{Idx: len(w.ASes), Core: c < nCore, Intfs: map[uint16]*Intf{}}
			a.IA = addr.MustIAFrom(addr.ISD(isd), addr.AS(0xff0000000000+uint64(isd)*0x100+uint64(c+1)))
			a.MTU = mtus[r.Choice("asmtu", len(mtus))]
			a.Master = r.Tape.Bytes("master", 16+r.Choice("masterlen", 3)*8)
			a.RefKey = refmodel.DeriveHopKey(a.Master)
			a.MaxExp = 63
			if k.RandomMaxExp {
				a.MaxExp = uint8(r.Choice("maxexp", 256))
			}
			w.ASes = append(w.ASes, a)
			w.byIA[a.IA] = a
		}
	}
	var cores, byISD = []*AS{}, map[addr.ISD][]*AS{}
	for _, a := range w.ASes {
		if a.Core {
			cores = append(cores, a)
		}
		byISD[a.IA.ISD()] = append(byISD[a.IA.ISD()], a)
	}
	// core mesh: spanning chain, then extra links
	for i := 1; i < len(cores); i++ {
		j := r.Choice("corelink.to", i)
		w.addLink(cores[i], cores[j], topology.Core, topology.Core)
	}
	for i := 0; i < len(cores); i++ {
		for j := i + 1; j < len(cores); j++ {
			if r.Chance("corelink.extra", 1, 3) {
				w.addLink(cores[i], cores[j], topology.Core, topology.Core)
			}
		}
	}
	// non-core DAG inside each ISD
	for isd := 1; isd <= nISD; isd++ {
		as := byISD[addr.ISD(isd)]
		for i, a := range as {
			if a.Core {
				continue
			}
			nPar := 1 + r.Choice("parents", 2)
			maxLevel := 0
			for p := 0; p < nPar; p++ {
				par := as[r.Choice("parent", i)] // any earlier AS of the ISD (cores come first)
				if par.Level >= 3 {
					par = as[0]
				}
				w.addLink(a, par, topology.Parent, topology.Child)
				maxLevel = max(maxLevel, par.Level+1)
			}
			a.Level = maxLevel
		}
	}
	// peering links between non-core ASes (also across ISDs) and core<->non-core
	var non []*AS
	for _, a := range w.ASes {
		if !a.Core {
			non = append(non, a)
		}
	}
	if len(non) >= 2 {
		nPeer := r.Choice("peers", k.MaxPeer+1)
		for p := 0; p < nPeer; p++ {
			x := non[r.Choice("peer.a", len(non))]
			y := non[r.Choice("peer.b", len(non))]
			if x == y {
				continue
			}
			w.addLink(x, y, topology.Peer, topology.Peer)
		}
	}
	// routers and interface ownership
	for _, a := range w.ASes {
		nR := min(r.Range("routers", 1, k.MaxRouters), max(1, len(a.Intfs)))
		for i := 0; i < nR; i++ {
			rt := &Router{AS: a, Idx: i, Name: fmt.Sprintf("br%d-%d", a.Idx, i),
				Internal:      netip.AddrPortFrom(netip.AddrFrom4([4]byte{10, byte(a.Idx), 0, byte(i + 1)}), 30042),
				linkToSibling: map[router.Link]*Router{}}
			a.Routers = append(a.Routers, rt)
		}
		ids := a.SortedIfIDs()
		for n, id := range ids {
			var rt *Router
			if n < nR {
				rt = a.Routers[n] // every router owns at least one interface
			} else {
				rt = a.Routers[r.Choice("owner", nR)]
			}
			a.Intfs[id].Router = rt
			rt.Intfs = append(rt.Intfs, a.Intfs[id])
		}
		nH := 1 + r.Choice("hosts", 2)
		for h := 0; h < nH; h++ {
			var ip netip.Addr
			if r.Chance("host.v6", 1, 3) {
				ip = netip.AddrFrom16([16]byte{0xfd, 0, 0, byte(a.Idx), 0, 0, 0, 0, 0, 0, 0, 0, 0, 0, 0, byte(h + 1)})
			} else {
				ip = netip.AddrFrom4([4]byte{10, byte(a.Idx), 1, byte(h + 1)})
			}
			a.Hosts = append(a.Hosts, &Host{AS: a, Addr: ip})
		}
		a.CSAddr = netip.AddrPortFrom(netip.AddrFrom4([4]byte{10, byte(a.Idx), 2, 1}), 30252)
		a.PortStart, a.PortEnd = 31000, 32767
		a.PortRange = "31000-32767"
	}
	return w
}

func (w *World) addLink(a, b *AS, aType, bType LinkType) {
	r := w.R
	ia := &Intf{ID: a.newIfID(r), AS: a, Type: aType, LinkIdx: w.Links}
	ib := &Intf{ID: b.newIfID(r), AS: b, Type: bType, LinkIdx: w.Links}
	ia.Remote, ib.Remote = ib, ia
	mtu := mtus[r.Choice("linkmtu", len(mtus))]
	ia.MTU, ib.MTU = mtu, mtu
	// both ends unique per link
	ia.LocalUA = fmt.Sprintf("172.16.%d.%d:%d", w.Links>>8, w.Links&255, 50001)
	ib.LocalUA = fmt.Sprintf("172.17.%d.%d:%d", w.Links>>8, w.Links&255, 50002)
	ia.RemoteUA, ib.RemoteUA = ib.LocalUA, ia.LocalUA
	ia.BFD, ib.BFD = w.Knobs.BFD, w.Knobs.BFD
	if w.Knobs.BFDMix {
		// each end decides for itself whether it runs BFD on the link
		ia.BFD, ib.BFD = !r.Chance("link.nobfd", 1, 4), !r.Chance("link.nobfd", 1, 4)
	}
	a.Intfs[ia.ID] = ia
	b.Intfs[ib.ID] = ib
	w.Links++
}

func linkTo(t LinkType) string {
	switch t {
	case topology.Core:
		return "core"
	case topology.Parent:
		return "parent"
	case topology.Child:
		return "child"
	case topology.Peer:
		return "peer"
	}
	return ""
}

// BuildTopo creates the AS's topology object through the repository's JSON topology loader.
func (a *AS) BuildTopo() error {
	raw := &jsontopo.Topology{IA: a.IA.String(), MTU: a.MTU, EndhostPortRange: a.PortRange,
		BorderRouters:  map[string]*jsontopo.BRInfo{},
		ControlService: map[string]*jsontopo.ServerInfo{"cs-1": {Addr: a.CSAddr.String()}}}
	if a.Core {
		raw.Attributes = jsontopo.Attributes{jsontopo.AttrCore}
	}
	dis := true
	for _, rt := range a.Routers {
		br := &jsontopo.BRInfo{InternalAddr: rt.Internal.String(), Interfaces: map[iface.ID]*jsontopo.BRInterface{}}
		for _, in := range rt.Intfs {
			bi := &jsontopo.BRInterface{
				Underlay:   jsontopo.Underlay{Local: in.LocalUA, Remote: in.RemoteUA},
				IA:         in.Remote.AS.IA.String(),
				LinkTo:     linkTo(in.Type),
				MTU:        in.MTU,
				RemoteIfID: iface.ID(in.Remote.ID),
			}
			if !in.BFD {
				bi.BFD = &jsontopo.BFD{Disable: &dis}
			} else if in.ExplicitBFD {
				en := false
				bi.BFD = &jsontopo.BFD{Disable: &en}
			}
			br.Interfaces[iface.ID(in.ID)] = bi
		}
		raw.BorderRouters[rt.Name] = br
	}
	rw, err := topology.RWTopologyFromJSONTopology(raw)
	if err != nil {
		return err
	}
	a.Topo = topology.FromRWTopology(rw)
	m := map[uint16]ifstate.InterfaceInfo{}
	for id, info := range a.Topo.IFInfoMap() {
		m[uint16(id)] = ifstate.InterfaceInfo{ID: uint16(info.ID), IA: info.IA, LinkType: info.LinkType,
			InternalAddr: info.InternalAddr, RemoteID: uint16(info.RemoteIfID), MTU: uint16(info.MTU)}
	}
	a.IfState = ifstate.NewInterfaces(m, ifstate.Config{})
	a.MacFac, err = scrypto.HFMacFactory(a.Master)
	if err != nil {
		return err
	}
	a.SignKey, err = ecdsa.GenerateKey(elliptic.P256(), rand.Reader)
	return err
}

// ---- simulated sockets ----

type openRec struct {
	Local, Remote netip.AddrPort
	Cfg           conn.Config
}

type simOpener struct {
	reuse bool
	Opens []openRec
}

type simConn struct{}

func (simConn) ReadBatch(conn.Messages) (int, error)           { select {} }
func (simConn) WriteBatch(m conn.Messages, _ int) (int, error) { return len(m), nil }
func (simConn) Close() error                                   { return nil }

func (o *simOpener) Open(l, r netip.AddrPort, c *conn.Config) (router.BatchConn, error) {
	o.Opens = append(o.Opens, openRec{l, r, *c})
	return simConn{}, nil
}
func (o *simOpener) UDPCanReuseLocal() bool { return o.reuse }

// BuildRouters configures every border router of the AS with the real configuration code.
func (w *World) BuildRouters(a *AS) error {
	k := w.Knobs
	for _, rt := range a.Routers {
		cfg := rconfig.RouterConfig{ReceiveBufferSize: k.RcvBuf, SendBufferSize: k.SndBuf, NumProcessors: 1,
			NumSlowPathProcessors: 1, BatchSize: k.Batch, BFD: rconfig.BFD{Disable: !k.BFD}}
		cfg.BFD.DetectMult = 3
		if k.BFDMix {
			// the router-wide switch governs the sibling links (and external links that say nothing)
			cfg.BFD.Disable = !rt.SibBFD
			cfg.BFD.DesiredMinTxInterval.Duration = 200 * time.Millisecond
			cfg.BFD.RequiredMinRxInterval.Duration = 200 * time.Millisecond
		}
		cfg.DispatchedPortStart, cfg.DispatchedPortEnd = a.OvStart, a.OvEnd
		rt.Conn = router.NewConnector(cfg, env.Features{ExperimentalSCMPAuthentication: w.AuthSCMP})
		rt.Opener = &simOpener{reuse: k.ReuseLocal}
		rt.Conn.VerifSetConnOpener("udpip", rt.Opener)
		br, ok := a.Topo.BR(rt.Name)
		if !ok {
			return fmt.Errorf("router %s not in topology", rt.Name)
		}
		ccfg := &control.Config{Topo: a.Topo, IA: a.IA, BR: &br, MasterKeys: keyconf.Master{Key0: a.Master}}
		if k.DirectConfigOrder {
			if err := w.directConfig(rt, ccfg); err != nil {
				return fmt.Errorf("configuring %s (direct calls): %w", rt.Name, err)
			}
		} else if err := control.ConfigDataplane(rt.Conn, ccfg); err != nil {
			return fmt.Errorf("configuring %s: %w", rt.Name, err)
		}
		rt.Conn.VerifPrepare()
		rt.Proc = rt.Conn.VerifNewProcessor()
	}
	for _, rt := range a.Routers {
		for _, s := range a.Routers {
			if s == rt || len(s.Intfs) == 0 {
				continue
			}
			rt.linkToSibling[rt.Conn.VerifLink(s.Intfs[0].ID)] = s
		}
	}
	return nil
}

// Build builds topologies and routers of all ASes.
func (w *World) Build() {
	for _, a := range w.ASes {
		if w.Knobs.BFDMix {
			for _, rt := range a.Routers {
				rt.SibBFD = !w.R.Chance("router.nobfd", 1, 4)
				for _, in := range rt.Intfs {
					in.ExplicitBFD = in.BFD && (!rt.SibBFD || w.R.Chance("link.explicitbfd", 1, 2))
				}
			}
		}
		if err := a.BuildTopo(); err != nil {
			panic(core.InfraError{Msg: "topology of " + a.IA.String() + ": " + err.Error()})
		}
		if err := w.BuildRouters(a); err != nil {
			panic(core.InfraError{Msg: err.Error()})
		}
	}
}

func (h *Host) UDPAddr(port int) *net.UDPAddr {
	return &net.UDPAddr{IP: h.Addr.AsSlice(), Port: port}
}

func (w *World) Describe() string {
	s := ""
	for _, a := range w.ASes {
		s += fmt.Sprintf("%s core=%v routers=%d intfs=[", a.IA, a.Core, len(a.Routers))
		for _, id := range a.SortedIfIDs() {
			in := a.Intfs[id]
			s += fmt.Sprintf("%d:%s->%s#%d@r%d ", id, linkTo(in.Type), in.Remote.AS.IA, in.Remote.ID, in.Router.Idx)
		}
		s += "] "
	}
	return s
}
