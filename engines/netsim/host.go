//go:build verif

package netsim

import (
	"fmt"

	"github.com/scionproto/scion/pkg/addr"
	"net"
	"net/netip"

	"github.com/gopacket/gopacket"

	"github.com/scionproto/scion/pkg/slayers"
	"github.com/scionproto/scion/pkg/snet"
)

// reverseUDP is what a destination host does to answer: decode with the real slayers, reverse the
// path with the real default reply pather, swap addresses and ports.
func reverseUDP(raw []byte) ([]byte, error) { return reverseUDPFrom(raw, nil) }

// reverseUDPFrom: self, if given, is the replying host's own address (needed when the request was
// addressed to a service address).
func reverseUDPFrom(raw []byte, self *addr.Host) ([]byte, error) {
	var sc slayers.SCION
	sc.RecyclePaths()
	if err := sc.DecodeFromBytes(raw, gopacket.NilDecodeFeedback); err != nil {
		return nil, err
	}
	if sc.NextHdr != slayers.L4UDP {
		return nil, fmt.Errorf("not UDP: %v", sc.NextHdr)
	}
	var udp slayers.UDP
	if err := udp.DecodeFromBytes(sc.Payload, gopacket.NilDecodeFeedback); err != nil {
		return nil, err
	}
	rawPath := make([]byte, sc.Path.Len())
	if err := sc.Path.SerializeTo(rawPath); err != nil {
		return nil, err
	}
	rp, err := snet.DefaultReplyPather{}.ReplyPath(snet.RawPath{PathType: sc.PathType, Raw: rawPath})
	if err != nil {
		return nil, err
	}
	src, err := sc.SrcAddr()
	if err != nil {
		return nil, err
	}
	dst, err := sc.DstAddr()
	if err != nil {
		return nil, err
	}
	out := &slayers.SCION{Version: 0, TrafficClass: sc.TrafficClass, FlowID: sc.FlowID, NextHdr: slayers.L4UDP,
		SrcIA: sc.DstIA, DstIA: sc.SrcIA}
	if self != nil {
		dst = *self
	}
	if err := out.SetSrcAddr(dst); err != nil {
		return nil, err
	}
	if err := out.SetDstAddr(src); err != nil {
		return nil, err
	}
	if err := rp.SetPath(out); err != nil {
		return nil, err
	}
	u := &slayers.UDP{SrcPort: udp.DstPort, DstPort: udp.SrcPort}
	u.SetNetworkLayerForChecksum(out)
	buf := gopacket.NewSerializeBuffer()
	if err := gopacket.SerializeLayers(buf, gopacket.SerializeOptions{FixLengths: true, ComputeChecksums: true},
		out, u, gopacket.Payload(udp.Payload)); err != nil {
		return nil, err
	}
	return append([]byte(nil), buf.Bytes()...), nil
}

func netUDP(ap netip.AddrPort) net.UDPAddr {
	return net.UDPAddr{IP: ap.Addr().AsSlice(), Port: int(ap.Port())}
}

func udpPtr(ap netip.AddrPort) *net.UDPAddr { u := netUDP(ap); return &u }
