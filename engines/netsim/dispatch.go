//go:build verif

package netsim

import (
	"bytes"
	"encoding/binary"
	"fmt"
	"net/netip"
	"testing"
	"time"

	"github.com/gopacket/gopacket"

	"github.com/scionproto/scion/dispatcher"
	"github.com/scionproto/scion/pkg/addr"
	"github.com/scionproto/scion/pkg/slayers"
	"verif/sim/core"
	"verif/sim/refmodel"
)

// Campaign C44/dispatcher: every end host runs the real shim dispatcher (one long-lived Server per
// host, fed with the whole sequence of datagrams the run produces for it). Datagrams are what the
// real routers deliver to port 30041 (UDP, SCMP requests, replies and router-generated errors),
// the same datagrams corrupted or handed to the wrong host, and garbage. The reference decision is
// written from the property statement over a lenient reading of the raw bytes.

type shim struct {
	srv    *dispatcher.Server
	isDisp bool
	svc    map[addr.Addr]netip.AddrPort
	fed    int
}

// lview is a lenient reading of a SCION datagram: just enough to find the destination and the
// upper layer, tolerating trailing bytes and truncated upper layers.
type lview struct {
	raw            []byte
	dstIA          uint64
	dt, dl         uint8
	dstHost        []byte
	l4             uint8
	l4off          int
	hasE2E, hasHBH bool
}

func lenient(raw []byte) (*lview, error) {
	if len(raw) < 12 {
		return nil, fmt.Errorf("short")
	}
	v := &lview{raw: raw, dt: raw[9] >> 6, dl: raw[9] >> 4 & 3}
	dl, sl := 4*(int(v.dl)+1), 4*(int(raw[9]&3)+1)
	hdr := int(raw[5]) * 4
	if hdr < 12+16+dl+sl || len(raw) < hdr {
		return nil, fmt.Errorf("header length")
	}
	v.dstIA = binary.BigEndian.Uint64(raw[12:])
	v.dstHost = raw[28 : 28+dl]
	nh, o := raw[4], hdr
	for _, cls := range []uint8{refmodel.HBH, refmodel.E2E} {
		if nh != cls {
			continue
		}
		if len(raw) < o+2 {
			return nil, fmt.Errorf("short extension")
		}
		l := (int(raw[o+1]) + 1) * 4
		if len(raw) < o+l {
			return nil, fmt.Errorf("extension exceeds data")
		}
		if cls == refmodel.HBH {
			v.hasHBH = true
		} else {
			v.hasE2E = true
		}
		nh = raw[o]
		o += l
	}
	v.l4, v.l4off = nh, o
	return v, nil
}

// ip reads the destination host as an IP address. The address *type* bits are deliberately not
// judged: whatever they say, a 4- or 16-byte destination that equals the outer destination of the
// datagram names this very host, so handing the datagram to a local port reflects nothing.
func (v *lview) ip() (netip.Addr, bool) {
	a, ok := netip.AddrFromSlice(v.dstHost)
	if !ok {
		return netip.Addr{}, false
	}
	return a.Unmap(), true
}

const (
	shimDrop = iota
	shimForward
	shimReply
)

// refShim is the decision the statement prescribes. strict=false marks inputs on which the
// statement allows either a drop or the returned action (truncated bodies of otherwise valid
// messages).
func refShim(raw []byte, underlay netip.Addr, prev netip.AddrPort, sh *shim) (kind int, to netip.AddrPort, strict bool) {
	v, err := lenient(raw)
	if err != nil {
		return shimDrop, netip.AddrPort{}, true
	}
	rest := len(raw) - v.l4off
	fwdIP := func(port uint16) (int, netip.AddrPort, bool) {
		ip, ok := v.ip()
		if !ok || ip != underlay.Unmap() {
			return shimDrop, netip.AddrPort{}, true
		}
		return shimForward, netip.AddrPortFrom(ip, port), true
	}
	switch v.l4 {
	case refmodel.L4UDP:
		if !sh.isDisp || rest < 8 {
			return shimDrop, netip.AddrPort{}, true
		}
		if v.dt == 1 && v.dl == 0 {
			a, ok := sh.svc[addr.Addr{IA: addr.IA(v.dstIA), Host: addr.HostSVC(addr.SVC(binary.BigEndian.Uint16(v.dstHost)))}]
			if !ok || a.Addr().Unmap() != underlay.Unmap() {
				return shimDrop, netip.AddrPort{}, true
			}
			return shimForward, a, true
		}
		return fwdIP(binary.BigEndian.Uint16(raw[v.l4off+2:]))
	case refmodel.L4SCMP:
		if rest < 4 {
			return shimDrop, netip.AddrPort{}, true
		}
		t := raw[v.l4off]
		body := raw[v.l4off+4:]
		switch t {
		case scmpEchoReq:
			return shimReply, prev, len(body) >= 4
		case scmpTraceReq:
			return shimReply, prev, len(body) >= 20
		}
		if !sh.isDisp {
			return shimDrop, netip.AddrPort{}, true
		}
		switch t {
		case scmpEchoRep:
			if len(body) < 4 {
				return shimDrop, netip.AddrPort{}, true
			}
			return fwdIP(binary.BigEndian.Uint16(body))
		case scmpTraceRep:
			if len(body) < 20 {
				return shimDrop, netip.AddrPort{}, true
			}
			return fwdIP(binary.BigEndian.Uint16(body))
		case scmpDestUnreach, scmpPktTooBig, scmpParamProblem, scmpExtIfDown, scmpIntConnDown:
			info := map[uint8]int{scmpDestUnreach: 4, scmpPktTooBig: 4, scmpParamProblem: 4, scmpExtIfDown: 16, scmpIntConnDown: 24}[t]
			if len(body) <= info {
				return shimDrop, netip.AddrPort{}, true
			}
			q, err := lenient(body[info:])
			if err != nil {
				return shimDrop, netip.AddrPort{}, true
			}
			qrest := len(q.raw) - q.l4off
			switch q.l4 {
			case refmodel.L4UDP:
				if qrest < 8 {
					return shimDrop, netip.AddrPort{}, true
				}
				sp := binary.BigEndian.Uint16(q.raw[q.l4off:])
				if sp == 0 {
					return shimDrop, netip.AddrPort{}, true
				}
				return fwdIP(sp)
			case refmodel.L4SCMP:
				if qrest < 4 {
					return shimDrop, netip.AddrPort{}, true
				}
				qt := q.raw[q.l4off]
				need := map[uint8]int{scmpEchoReq: 4, scmpTraceReq: 20}[qt]
				if need == 0 || qrest < 4+need {
					return shimDrop, netip.AddrPort{}, true
				}
				return fwdIP(binary.BigEndian.Uint16(q.raw[q.l4off+4:]))
			}
			return shimDrop, netip.AddrPort{}, true
		}
	}
	return shimDrop, netip.AddrPort{}, true
}

func runDispatcher(r *core.Run) {
	core.Bubble(r, func(t *testing.T) { dispatcherCampaign(r) })
}

func dispatcherCampaign(r *core.Run) {
	k := defaultKnobs(r)
	w := GenWorld(r, k)
	w.AuthSCMP = r.Chance("scmpauth", 1, 2)
	for _, a := range w.ASes {
		// narrow dispatched ranges, so that much of the traffic is redirected to the shim's port
		switch r.Choice("portrange.kind", 3) {
		case 0:
			a.PortRange, a.PortStart, a.PortEnd = "-", 0, 0
		case 1:
			p := uint16(31000 + r.Choice("portrange.p", 20))
			a.PortRange, a.PortStart, a.PortEnd = fmt.Sprintf("%d-%d", p, p+3), p, p+3
		}
	}
	w.Build()
	w.OnHop = func(rec *HopRec) { w.judgeRec(r, rec) }
	r.Logf("world: %s", w.Describe())
	segs, err := w.GenSegments(r, time.Now().Add(-time.Minute), 6)
	if err != nil {
		panic(core.InfraError{Msg: "segments: " + err.Error()})
	}
	shims := map[netip.Addr]*shim{}
	shimOf := func(a *AS, h netip.Addr) *shim {
		if s := shims[h]; s != nil {
			return s
		}
		s := &shim{isDisp: !r.Chance("shim.nodispatch", 1, 4), svc: map[addr.Addr]netip.AddrPort{}}
		switch r.Choice("shim.svcmap", 3) {
		case 1: // the service lives on this host
			s.svc[addr.Addr{IA: a.IA, Host: addr.HostSVC(addr.SvcCS)}] = netip.AddrPortFrom(h, 30252)
		case 2: // the service lives elsewhere
			s.svc[addr.Addr{IA: a.IA, Host: addr.HostSVC(addr.SvcCS)}] = a.CSAddr
		}
		s.srv = dispatcher.VerifNewServer(s.isDisp, s.svc)
		shims[h] = s
		r.Logf("shim at %v: dispatcher function %v, %d service entries", h, s.isDisp, len(s.svc))
		return s
	}
	nFed, nFwd, nRep := 0, 0, 0

	// feed hands one datagram to the host's shim and judges the decision. pristine: the datagram is
	// exactly what a real router delivered to this host.
	feed := func(a *AS, host netip.Addr, raw []byte, underlay netip.Addr, prev netip.AddrPort, pristine bool, what string) (out []byte, to netip.AddrPort) {
		sh := shimOf(a, host)
		in := append([]byte(nil), raw...)
		var perr error
		if r.Guard(core.PanicIsViolation, "dispatcher.processMsgNextHop", func() {
			out, to, perr = sh.srv.VerifProcess(in, underlay, prev)
		}) {
			return nil, netip.AddrPort{}
		}
		sh.fed++
		nFed++
		kind, wantTo, strict := refShim(raw, underlay, prev, sh)
		got := shimDrop
		if !to.IsValid() {
			out = nil // Serve discards the datagram when no valid next-hop address comes back
		}
		if out != nil {
			got = shimForward
			if v, err := lenient(raw); err == nil && v.l4 == refmodel.L4SCMP && len(raw) > v.l4off && (raw[v.l4off] == scmpEchoReq || raw[v.l4off] == scmpTraceReq) {
				got = shimReply
			}
		}
		r.Logf("shim %v (%s, pristine=%v, disp=%v): underlay %v prev %v -> %d to %v (reference %d to %v) err=%v", host, what, pristine, sh.isDisp, underlay, prev, got, to, kind, wantTo, perr)
		r.Covered(fmt.Sprintf("%s/disp%v/ref%d/got%d", what, sh.isDisp, kind, got))
		if perr != nil {
			r.Fail("c44-fatal-error", "fatal-error:"+what, "shim returned a non-recoverable error for a datagram: %v", perr)
			return
		}
		switch {
		case got == shimDrop:
			if kind != shimDrop && pristine && strict {
				r.Fail("c44-valid-dropped", "valid-dropped:"+what, "shim at %v dropped a well-formed %s datagram delivered by the router (reference: action %d to %v)", host, what, kind, wantTo)
			}
		case got != kind && !(kind == shimDrop && !strict):
			r.Fail("c44-unintended", "unintended:"+what, "shim at %v (dispatcher function %v) sent a %s datagram to %v although the statement prescribes action %d (0 drop, 1 forward, 2 reply)%s; outer destination %v, previous hop %v; datagram %x",
				host, sh.isDisp, what, to, kind, fmtTo(kind, wantTo), underlay, prev, raw)
		case to != wantTo:
			r.Fail("c44-unintended", "wrong-destination:"+what, "shim at %v sent a %s datagram to %v; the packet's own SCION destination derives %v (outer destination %v, previous hop %v)", host, what, to, wantTo, underlay, prev)
		case got == shimForward && !bytes.Equal(out, raw):
			r.Fail("c44-forward-altered", "forward-altered:"+what, "shim at %v altered a forwarded %s datagram", host, what)
		case got == shimForward:
			nFwd++
		case got == shimReply:
			nRep++
		}
		return out, to
	}

	flows := w.sampleFlows(r, segs, 5, 3)
	for _, f := range flows {
		for rep := 0; rep < 4 && !r.Failed(); rep++ {
			s, e := f.Dst.effRange()
			port := interestingPort(r, s, e)
			ident := interestingPort(r, f.Src.PortStart, f.Src.PortEnd)
			kind := r.Choice("l4.kind", 9)
			fid := uint32(r.Choice("flowid", 1<<20))
			ext := drawExt(r)
			var raw []byte
			desc := ""
			quote := func(l4 slayers.L4ProtocolType, upper ...gopacket.SerializableLayer) []byte {
				return buildL4(&Flow{Src: f.Dst, Dst: f.Src, SH: f.DH, DH: f.SH, Path: f.Path}, l4, 0, 1, nil, upper...)
			}
			switch kind {
			case 0:
				desc = "udp"
				raw = buildL4(f, slayers.L4UDP, 0, fid, ext, &slayers.UDP{SrcPort: ident, DstPort: port}, gopacket.Payload(r.Tape.Bytes("pld", r.Choice("pldlen", 40))))
			case 1:
				desc = "echo-request"
				raw = buildL4(f, slayers.L4SCMP, 0, fid, ext, &slayers.SCMP{TypeCode: slayers.CreateSCMPTypeCode(slayers.SCMPTypeEchoRequest, 0)},
					&slayers.SCMPEcho{Identifier: ident, SeqNumber: uint16(r.Choice("seq", 1<<16))}, gopacket.Payload(r.Tape.Bytes("pld", r.Choice("pldlen", 40))))
			case 2:
				desc = "traceroute-request"
				raw = buildL4(f, slayers.L4SCMP, 0, fid, ext, &slayers.SCMP{TypeCode: slayers.CreateSCMPTypeCode(slayers.SCMPTypeTracerouteRequest, 0)},
					&slayers.SCMPTraceroute{Identifier: ident, Sequence: uint16(r.Choice("seq", 1<<16))})
			case 3:
				desc = "echo-reply"
				raw = buildL4(f, slayers.L4SCMP, 0, fid, ext, &slayers.SCMP{TypeCode: slayers.CreateSCMPTypeCode(slayers.SCMPTypeEchoReply, 0)},
					&slayers.SCMPEcho{Identifier: port, SeqNumber: 3}, gopacket.Payload([]byte("pong")))
			case 4:
				desc = "traceroute-reply"
				raw = buildL4(f, slayers.L4SCMP, 0, fid, ext, &slayers.SCMP{TypeCode: slayers.CreateSCMPTypeCode(slayers.SCMPTypeTracerouteReply, 0)},
					&slayers.SCMPTraceroute{Identifier: port, Sequence: 3, IA: f.Src.IA, Interface: 5})
			case 5:
				desc = "error-quoting-udp"
				raw = buildL4(f, slayers.L4SCMP, 0, fid, ext, &slayers.SCMP{TypeCode: slayers.CreateSCMPTypeCode(slayers.SCMPTypeDestinationUnreachable, 0)},
					&slayers.SCMPDestinationUnreachable{}, gopacket.Payload(quote(slayers.L4UDP, &slayers.UDP{SrcPort: port, DstPort: 4242}, gopacket.Payload([]byte("offending")))))
			case 6:
				desc = "error-quoting-request"
				var q []byte
				if r.Chance("quote.traceroute", 1, 2) {
					q = quote(slayers.L4SCMP, &slayers.SCMP{TypeCode: slayers.CreateSCMPTypeCode(slayers.SCMPTypeTracerouteRequest, 0)}, &slayers.SCMPTraceroute{Identifier: port, Sequence: 1})
				} else {
					q = quote(slayers.L4SCMP, &slayers.SCMP{TypeCode: slayers.CreateSCMPTypeCode(slayers.SCMPTypeEchoRequest, 0)}, &slayers.SCMPEcho{Identifier: port, SeqNumber: 1}, gopacket.Payload([]byte("ping")))
				}
				raw = buildL4(f, slayers.L4SCMP, 0, fid, ext, &slayers.SCMP{TypeCode: slayers.CreateSCMPTypeCode(slayers.SCMPTypeParameterProblem, slayers.SCMPCodeInvalidPath)},
					&slayers.SCMPParameterProblem{Pointer: 4}, gopacket.Payload(q))
			case 7:
				desc = "error-quoting-other"
				q := quote(slayers.L4SCMP, &slayers.SCMP{TypeCode: slayers.CreateSCMPTypeCode(slayers.SCMPTypeEchoReply, 0)}, &slayers.SCMPEcho{Identifier: port, SeqNumber: 1})
				if r.Chance("quote.error", 1, 2) {
					q = quote(slayers.L4SCMP, &slayers.SCMP{TypeCode: slayers.CreateSCMPTypeCode(slayers.SCMPTypeDestinationUnreachable, 0)}, &slayers.SCMPDestinationUnreachable{}, gopacket.Payload([]byte("x")))
				}
				raw = buildL4(f, slayers.L4SCMP, 0, fid, ext, &slayers.SCMP{TypeCode: slayers.CreateSCMPTypeCode(slayers.SCMPTypeDestinationUnreachable, 0)},
					&slayers.SCMPDestinationUnreachable{}, gopacket.Payload(q))
			case 8:
				// a UDP packet whose later hop is broken: the router-generated SCMP error comes back to
				// the *source* host
				desc = "router-error"
				raw = buildL4(f, slayers.L4UDP, 0, fid, ext, &slayers.UDP{SrcPort: ident, DstPort: port}, gopacket.Payload(r.Tape.Bytes("pld", r.Choice("pldlen", 300))))
				pp, _ := refmodel.Parse(raw)
				raw[pp.Hops[r.Choice("bad.hop", pp.NumHops)].Off+6+r.Choice("bad.byte", 6)] ^= byte(1 + r.Choice("bad.val", 255))
			}
			r.Logf("%s %s -> %s port %d ident %d", desc, f.Src.IA, f.Dst.IA, port, ident)
			j := w.Send(f.First, Ingress{Kind: InHost, Src: f.SH.UDPAddr(int(ident))}, raw, nil)
			if r.Failed() {
				break
			}
			if !j.Delivered || j.Dst.Port() != 30041 {
				continue // not for a shim (dropped, or delivered straight to the application port)
			}
			last := j.Hops[len(j.Hops)-1].Router
			host, prev := j.Dst.Addr(), last.Internal
			out, to := feed(j.DstAS, host, j.Final, host, prev, true, desc)
			if r.Failed() {
				break
			}
			hasE2E := false
			if v, err := lenient(j.Final); err == nil {
				hasE2E = v.hasE2E
			}
			if hasE2E && (kind == 1 || kind == 2) {
				// documented limitation of the shim (issue 4128 quoted in the source): the answer to a
				// request with an end-to-end extension header is not well-formed; where it is sent is
				// judged above, whether it gets home is not
				r.Probe("c44-request-with-e2e-extension")
			}
			if (kind == 1 || kind == 2) && !j.SCMP && out != nil && !hasE2E {
				// the answer goes back through the routers and must reach the requester
				if to != prev {
					break
				}
				jr := w.Send(last, Ingress{Kind: InHost, Src: f.DH.UDPAddr(30041)}, out, nil)
				if r.Failed() {
					break
				}
				wantPort := ident
				if ident < f.Src.PortStart || ident > f.Src.PortEnd {
					wantPort = 30041
				}
				if !jr.Delivered || jr.DstAS != f.Src || jr.Dst.Addr() != f.SH.Addr || jr.Dst.Port() != wantPort || !sameCrossings(jr.Crossings, f.Path.Metadata.Interfaces, true) {
					r.Fail("c44-reply-not-returned", "reply-not-returned:"+desc, "the shim's answer to a %s did not travel back to the requester %v:%d over the reversed path: delivered=%v to %v; %s", desc, f.SH.Addr, wantPort, jr.Delivered, jr.Dst, lastHop(jr))
					break
				}
				fin, err := refmodel.Parse(jr.Final)
				if err != nil {
					r.Fail("c44-reply-content", "reply-malformed", "the shim's answer does not parse: %v", err)
					break
				}
				v, err := viewSCMP(fin)
				wantType := uint8(scmpEchoRep)
				if kind == 2 {
					wantType = scmpTraceRep
				}
				if err != nil || v.Type != wantType || v.Ident != ident || fin.SrcIA != uint64(f.Dst.IA) || !bytes.Equal(fin.SrcHost, f.DH.Addr.AsSlice()) || !v.SumOK {
					r.Fail("c44-reply-content", "reply-content:"+desc, "answer to %s: %+v err=%v, want type %d identifier %d from %s %v with a valid checksum", desc, v, err, wantType, ident, f.Dst.IA, f.DH.Addr)
					break
				}
				if jr.Dst.Port() == 30041 {
					// ... where the requester's own shim hands it to the application
					feed(f.Src, f.SH.Addr, jr.Final, f.SH.Addr, jr.Hops[len(jr.Hops)-1].Router.Internal, true, desc+"-answer")
				}
			}
			// the same datagram, disturbed
			for m := 0; m < 3 && !r.Failed(); m++ {
				d := append([]byte(nil), j.Final...)
				under := host
				what := desc
				switch r.Choice("disturb", 5) {
				case 0: // handed to another host of the AS (outer destination differs from the SCION one)
					under = netip.AddrFrom4([4]byte{10, byte(j.DstAS.Idx), 1, byte(100 + r.Choice("otherhost", 50))})
					what += "/misdelivered"
					r.Fault("pkt.misdeliver")
				case 1:
					for n := 1 + r.Choice("flips", 3); n > 0; n-- {
						d[r.Choice("flip.pos", len(d))] ^= 1 << r.Choice("flip.bit", 8)
					}
					what += "/bitflip"
					r.Fault("pkt.bitflip")
				case 2:
					d = d[:r.Choice("trunc", len(d))]
					what += "/truncated"
					r.Fault("pkt.truncate")
				case 3:
					d = append(d, r.Tape.Bytes("extend", 1+r.Choice("extend.len", 40))...)
					what += "/extended"
					r.Fault("pkt.extend")
				case 4:
					d = r.Tape.Bytes("garbage", 1+r.Choice("garbage.len", 120))
					what = "garbage"
					r.Fault("pkt.garbage")
				}
				feed(j.DstAS, host, d, under, prev, false, what)
			}
		}
	}
	r.Nontrivial = nFwd > 0 && nRep > 0
	r.Sample = map[string]any{"ases": len(w.ASes), "shims": len(shims), "datagrams_fed": nFed, "forwarded": nFwd, "answered": nRep}
}

func fmtTo(kind int, to netip.AddrPort) string {
	if kind == shimDrop {
		return ""
	}
	return " to " + to.String()
}
