//go:build verif

package netsim

import (
	"bytes"
	"encoding/binary"
	"fmt"
	"testing"
	"time"

	"github.com/gopacket/gopacket"

	"github.com/scionproto/scion/pkg/drkey"
	"github.com/scionproto/scion/pkg/slayers"
	"github.com/scionproto/scion/private/drkey/drkeyutil"
	"verif/sim/core"
	"verif/sim/refmodel"
)

// ---- reference model of the SCION packet authenticator option, written from
// doc/protocols/authenticator-option.rst (not from pkg/spao) ----

type spaoOpt struct {
	Off    int // offset of the option data (SPI) in the raw packet
	SPI    uint32
	Alg    uint8
	TS     []byte // 6 bytes
	Auth   []byte
	AuthAt int
}

// findSPAO locates the authenticator option (type 2) in the end-to-end extension header.
func findSPAO(p *refmodel.Packet) *spaoOpt {
	if p.E2EOff < 0 {
		return nil
	}
	raw := p.Raw
	end := p.E2EOff + (int(raw[p.E2EOff+1])+1)*4
	o := p.E2EOff + 2
	for o < end {
		t := raw[o]
		if t == 0 { // Pad1
			o++
			continue
		}
		if o+2 > end {
			return nil
		}
		l := int(raw[o+1])
		if o+2+l > end {
			return nil
		}
		if t == 2 && l >= 12 {
			d := o + 2
			return &spaoOpt{Off: d, SPI: binary.BigEndian.Uint32(raw[d:]), Alg: raw[d+4], TS: raw[d+6 : d+12],
				Auth: raw[d+12 : d+l], AuthAt: d + 12}
		}
		o += 2 + l
	}
	return nil
}

// spaoInput assembles the authenticated data of the document, section "Authenticated Data".
// tcMask selects the traffic-class bits that are covered: the document says "TC without ECN",
// i.e. 0xfc; any other value is only used to *diagnose* a deviation.
func spaoInput(p *refmodel.Packet, o *spaoOpt, tcMask uint8) []byte {
	raw := p.Raw
	upper := raw[p.L4Off:]
	b := []byte{byte(p.HdrLen / 4), p.L4Type, byte(len(upper) >> 8), byte(len(upper)), o.Alg, 0}
	b = append(b, o.TS...)
	first := uint32(p.Version)<<28 | uint32(p.TrafficClass&tcMask)<<20 | p.FlowID
	b = binary.BigEndian.AppendUint32(b, first)
	b = append(b, p.PathType, raw[9], 0, 0)
	isDRKey := o.SPI != 0 && o.SPI < 1<<21
	typ, dir := o.SPI>>17&1, o.SPI>>16&1
	if !isDRKey {
		b = append(b, raw[12:28]...)
	}
	if !isDRKey || (typ == 0 && dir == 1) {
		b = append(b, p.DstHost...)
	}
	if !isDRKey || (typ == 0 && dir == 0) {
		b = append(b, p.SrcHost...)
	}
	path := append([]byte(nil), raw[p.PathOff:p.PathOff+p.PathLen]...)
	rel := func(abs int) int { return abs - p.PathOff }
	switch p.PathType {
	case refmodel.PathSCION, refmodel.PathEPIC:
		path[rel(p.MetaOff)] = 0 // CurrINF, CurrHF
		for _, inf := range p.Infos {
			path[rel(inf.Off)+2], path[rel(inf.Off)+3] = 0, 0
		}
		for _, h := range p.Hops {
			path[rel(h.Off)] &^= 0x03 // router alert flags
		}
	case refmodel.PathOneHop:
		path[8] &^= 0x03
		for i := 20; i < 32; i++ {
			path[i] = 0
		}
	}
	b = append(b, path...)
	return append(b, upper...)
}

func spaoMAC(key []byte, p *refmodel.Packet, o *spaoOpt, tcMask uint8) []byte {
	m := refmodel.CMAC(key, spaoInput(p, o, tcMask))
	return m[:]
}

// the router's built-in DRKey provider hands out the all-zero key for every epoch
var scmpKey = make([]byte, 16)

const (
	sigECN  = "spao-tc:ecn-bits-covered"
	sigDSCP = "spao-tc:dscp-high-bits-not-covered"
)

// ---- campaign ----

func runSPAO(r *core.Run) {
	core.Bubble(r, func(t *testing.T) { spaoCampaign(r) })
}

// in-flight change kinds
type flightChange struct {
	name    string
	covered bool                                 // covered by a sender-side AS-host authenticator (router-generated SCMP)
	apply   func(r *core.Run, raw []byte) []byte // nil: not applicable to this packet
}

// coveredRecv: covered by a receiver-side AS-host authenticator (host-generated request): as the
// sender-side one, except that the destination host is in the MAC input and the source host is not.
func (c flightChange) coveredRecv() bool {
	switch c.name {
	case "source-host":
		return false
	case "destination-host":
		return true
	}
	return c.covered
}

func hopsBehind(p *refmodel.Packet) int { return p.CurrHF } // hop fields already traversed

func flightChanges() []flightChange {
	parse := func(raw []byte) *refmodel.Packet {
		p, err := refmodel.Parse(raw)
		if err != nil || !p.HasSCION {
			return nil
		}
		return p
	}
	cp := func(raw []byte) []byte { return append([]byte(nil), raw...) }
	return []flightChange{
		{"none", false, func(r *core.Run, raw []byte) []byte { return cp(raw) }},
		{"ecn-mark", false, func(r *core.Run, raw []byte) []byte {
			out := cp(raw)
			// traffic class = bits 27..20 of the first word; ECN = its two low bits = bits 21..20
			out[1] ^= byte(1+r.Choice("ecn.bits", 3)) << 4
			return out
		}},
		{"alert-flag-on-traversed-hop", false, func(r *core.Run, raw []byte) []byte {
			p := parse(raw)
			if p == nil || hopsBehind(p) == 0 {
				return nil
			}
			out := cp(raw)
			out[p.Hops[r.Choice("behind.hop", hopsBehind(p))].Off] ^= byte(1 + r.Choice("alert.bits", 3))
			return out
		}},
		{"segid-of-traversed-segment", false, func(r *core.Run, raw []byte) []byte {
			p := parse(raw)
			if p == nil || p.CurrINF == 0 {
				return nil
			}
			out := cp(raw)
			out[p.Infos[r.Choice("behind.inf", p.CurrINF)].Off+2+r.Choice("segid.byte", 2)] ^= byte(1 + r.Choice("segid.val", 255))
			return out
		}},
		{"hbh-extension-inserted", false, func(r *core.Run, raw []byte) []byte {
			p := parse(raw)
			if p == nil || p.HBHOff >= 0 {
				return nil
			}
			// next-header and payload length of the common header change, an extension header appears
			ext := []byte{p.NextHdr, 1, 1, 4, 0, 0, 0, 0} // PadN option filling the 8 bytes
			out := append(cp(raw[:p.HdrLen]), ext...)
			out = append(out, raw[p.HdrLen:]...)
			out[4] = refmodel.HBH
			binary.BigEndian.PutUint16(out[6:], uint16(p.PayloadLen+8))
			return out
		}},
		{"dscp-high-bits", true, func(r *core.Run, raw []byte) []byte {
			out := cp(raw)
			// DSCP bits 7..6 of the traffic class = bits 27..26 of the first word
			out[0] ^= byte(1+r.Choice("dscp.hi", 3)) << 2
			return out
		}},
		{"dscp-low-bits", true, func(r *core.Run, raw []byte) []byte {
			out := cp(raw)
			// traffic-class bits 5..2: bits 25..24 (byte 0) and 23..22 (byte 1)
			if r.Chance("dscp.lo.byte1", 1, 2) {
				out[1] ^= byte(1+r.Choice("dscp.lo", 3)) << 6
			} else {
				out[0] ^= byte(1 + r.Choice("dscp.lo", 3))
			}
			return out
		}},
		{"flow-id", true, func(r *core.Run, raw []byte) []byte {
			out := cp(raw)
			bit := r.Choice("flow.bit", 20)
			out[3-bit/8] ^= 1 << (bit % 8)
			return out
		}},
		{"source-host", true, func(r *core.Run, raw []byte) []byte {
			p := parse(raw)
			if p == nil {
				return nil
			}
			out := cp(raw)
			out[28+len(p.DstHost)+r.Choice("src.byte", len(p.SrcHost))] ^= byte(1 + r.Choice("src.val", 255))
			return out
		}},
		{"destination-host", false, func(r *core.Run, raw []byte) []byte {
			p := parse(raw)
			if p == nil {
				return nil
			}
			out := cp(raw)
			out[28+len(p.DstHost)-1] ^= byte(1 + r.Choice("dst.val", 7)) // stays inside the AS's host subnet
			return out
		}},
		{"traversed-hop-field", true, func(r *core.Run, raw []byte) []byte {
			p := parse(raw)
			if p == nil || hopsBehind(p) == 0 {
				return nil
			}
			out := cp(raw)
			// expiry, interfaces or MAC of a hop field no router will look at again
			out[p.Hops[r.Choice("behind.hop", hopsBehind(p))].Off+1+r.Choice("hop.byte", 11)] ^= byte(1 + r.Choice("hop.val", 255))
			return out
		}},
		{"traversed-info-timestamp", true, func(r *core.Run, raw []byte) []byte {
			p := parse(raw)
			if p == nil || p.CurrINF == 0 {
				return nil
			}
			out := cp(raw)
			out[p.Infos[r.Choice("behind.inf", p.CurrINF)].Off+4+r.Choice("ts.byte", 4)] ^= byte(1 + r.Choice("ts.val", 255))
			return out
		}},
		{"upper-layer-byte", true, func(r *core.Run, raw []byte) []byte {
			p := parse(raw)
			if p == nil || len(raw) <= p.L4Off {
				return nil
			}
			out := cp(raw)
			out[p.L4Off+r.Choice("l4.byte", len(raw)-p.L4Off)] ^= byte(1 + r.Choice("l4.val", 255))
			return out
		}},
		{"upper-layer-type", true, func(r *core.Run, raw []byte) []byte {
			p := parse(raw)
			if p == nil || p.E2EOff < 0 {
				return nil
			}
			out := cp(raw)
			out[p.E2EOff] = refmodel.L4UDP // the end-to-end extension's next-header: what the upper layer is
			return out
		}},
		{"option-timestamp", true, func(r *core.Run, raw []byte) []byte {
			p := parse(raw)
			if p == nil {
				return nil
			}
			o := findSPAO(p)
			if o == nil {
				return nil
			}
			out := cp(raw)
			out[o.Off+6+r.Choice("opt.ts.byte", 6)] ^= byte(1 + r.Choice("opt.ts.val", 255))
			return out
		}},
		{"option-reserved-byte", false, func(r *core.Run, raw []byte) []byte {
			// "RSV: MUST be set to zero by the sender and SHOULD be ignored by the recipient"
			p := parse(raw)
			if p == nil {
				return nil
			}
			o := findSPAO(p)
			if o == nil {
				return nil
			}
			out := cp(raw)
			out[o.Off+5] ^= byte(1 + r.Choice("opt.rsv.val", 255))
			return out
		}},
		{"option-algorithm", true, func(r *core.Run, raw []byte) []byte {
			p := parse(raw)
			if p == nil {
				return nil
			}
			o := findSPAO(p)
			if o == nil {
				return nil
			}
			out := cp(raw)
			out[o.Off+4] ^= 1
			return out
		}},
	}
}

// authRequest builds an authenticated SCMP traceroute request as a host following the document
// would: AS-host key, receiver-side derivation (the router derives), AES-CMAC.
func authRequest(r *core.Run, f *Flow, tc uint8, fid uint32, ident uint16, hop int, ingFlag bool, tcMask uint8) []byte {
	spi, err := slayers.MakePacketAuthSPIDRKey(uint16(drkey.SCMP), slayers.PacketAuthASHost, slayers.PacketAuthReceiverSide)
	if err != nil {
		panic(core.InfraError{Msg: err.Error()})
	}
	dur := int64(drkeyutil.LoadEpochDuration() / time.Second)
	now := time.Now()
	epochStart := time.Unix(now.Unix()/dur*dur, 0)
	opt, err := slayers.NewPacketAuthOption(slayers.PacketAuthOptionParams{SPI: spi, Algorithm: slayers.PacketAuthCMAC,
		TimestampSN: uint64(now.Sub(epochStart)), Auth: make([]byte, 16)})
	if err != nil {
		panic(core.InfraError{Msg: err.Error()})
	}
	e2e := &slayers.EndToEndExtn{Options: []*slayers.EndToEndOption{opt.EndToEndOption}}
	raw := buildL4(f, slayers.L4SCMP, tc, fid, []gopacket.SerializableLayer{e2e},
		&slayers.SCMP{TypeCode: slayers.CreateSCMPTypeCode(slayers.SCMPTypeTracerouteRequest, 0)},
		&slayers.SCMPTraceroute{Identifier: ident, Sequence: uint16(r.Choice("seq", 1<<16))})
	// the MAC is computed before the alert flag is set: the flag is mutable anyway
	p, err := refmodel.Parse(raw)
	if err != nil {
		panic(core.InfraError{Msg: err.Error()})
	}
	o := findSPAO(p)
	if o == nil {
		panic(core.InfraError{Msg: "authenticator option not found in own request"})
	}
	copy(raw[o.AuthAt:], spaoMAC(scmpKey, p, o, tcMask))
	return setAlert(raw, hop, ingFlag)
}

func spaoCampaign(r *core.Run) {
	k := defaultKnobs(r)
	w := GenWorld(r, k)
	w.AuthSCMP = true
	// the bubble clock starts exactly at the beginning of a DRKey epoch: move into the epoch so that
	// all six bytes of the relative timestamps are in use
	time.Sleep(time.Duration(r.Choice("epoch.offset.s", 80000))*time.Second + time.Duration(r.Choice("epoch.offset.ns", 1000000000)))
	w.Build()
	w.OnHop = func(rec *HopRec) { w.judgeRec(r, rec) }
	r.Logf("world: %s", w.Describe())
	segs, err := w.GenSegments(r, time.Now().Add(-time.Duration(r.Choice("segage.s", 3600))*time.Second), 6)
	if err != nil {
		panic(core.InfraError{Msg: "segments: " + err.Error()})
	}
	changes := flightChanges()
	flows := w.sampleFlows(r, segs, 5, 4)
	verified, rejected, n := 0, 0, 0

	known := func(sig, format string, args ...any) {
		if r.IsKnown(sig) {
			r.NoteKnown(sig)
			return
		}
		r.Fail("c21-traffic-class-coverage", sig, format, args...)
	}

	for _, f := range flows {
		if r.Failed() {
			break
		}
		base, err := refmodel.Parse(f.Raw)
		if err != nil {
			panic(core.InfraError{Msg: err.Error()})
		}
		ident := uint16(int(f.Src.PortStart) + r.Choice("ident", int(f.Src.PortEnd-f.Src.PortStart)+1))
		fid := uint32(r.Choice("flowid", 1<<20))
		// three quarters of the packets carry a traffic class whose DSCP top bits and ECN bits are
		// zero, so that runs get past the known traffic-class finding
		tc := uint8(r.Choice("tc", 16)) << 2
		if r.Chance("tc.any", 1, 4) {
			tc = uint8(r.Choice("tc.full", 256))
		}
		ch := changes[r.Choice("change", len(changes))]
		at := r.Choice("change.at", 4) // how many routers the packet passes before the change

		if r.Chance("traceroute", 1, 2) {
			at = 1 + at%3 // the request has to pass at least one router before something happens to it
			// ---- authenticated traceroute request: the router is the verifier ----
			hop := r.Choice("alert.hop", base.NumHops)
			ingFlag := r.Chance("alert.ingressflag", 1, 2)
			raw := authRequest(r, f, tc, fid, ident, hop, ingFlag, 0xfc)
			applied, passed := false, 0
			var orig []byte
			hook := func(next *Router, in Ingress, b []byte) []byte {
				pp, err := refmodel.Parse(b)
				if err != nil || pp.DstIA != uint64(f.Dst.IA) {
					return b // reply on its way back
				}
				if !applied && passed == at && passed > 0 {
					if m := ch.apply(r, b); m != nil {
						applied, orig = true, b
						r.Fault("pkt." + ch.name)
						passed++
						return m
					}
				}
				passed++
				return b
			}
			r.Logf("auth traceroute %s -> %s hop %d ingress=%v tc=%#02x change %s@%d", f.Src.IA, f.Dst.IA, hop, ingFlag, tc, ch.name, at)
			j := w.Send(f.First, Ingress{Kind: InHost, Src: f.SH.UDPAddr(int(ident))}, raw, hook)
			n++
			_ = orig
			if r.Failed() || !j.SCMP || !j.Delivered {
				continue
			}
			fin, err := refmodel.Parse(j.Final)
			if err != nil {
				continue
			}
			v, err := viewSCMP(fin)
			if err != nil || v.Type != scmpTraceRep {
				continue // something else happened (e.g. the change made a router complain)
			}
			authenticated := findSPAO(fin) != nil
			wantAuth := !(applied && ch.coveredRecv())
			r.Covered(fmt.Sprintf("traceroute/%s/applied%v/auth%v", ch.name, applied, authenticated))
			switch {
			case authenticated == wantAuth:
				if authenticated {
					verified++
				} else {
					rejected++
				}
			case !authenticated && wantAuth:
				// the router did not accept an authenticator that is valid by the document
				if applied && ch.name == "ecn-mark" {
					known(sigECN, "router did not accept the authenticator of a traceroute request after the ECN bits were set in flight (tc %#02x)", tc)
					continue
				}
				if tc&0xc3 != 0 {
					// is the traffic-class mask the reason? the same request with the deviating mask
					alt := authRequest(r, f, tc, fid, ident, hop, ingFlag, 0x3f)
					j2 := w.Send(f.First, Ingress{Kind: InHost, Src: f.SH.UDPAddr(int(ident))}, alt, nil)
					if fin2, err := refmodel.Parse(j2.Final); j2.Delivered && err == nil && findSPAO(fin2) != nil {
						if tc&0x03 != 0 {
							known(sigECN, "router accepts a traceroute request with traffic class %#02x only if the authenticator covers the ECN bits", tc)
						}
						if tc&0xc0 != 0 && !r.Failed() {
							known(sigDSCP, "router accepts a traceroute request with traffic class %#02x only if the authenticator leaves out DSCP bits 7..6", tc)
						}
						continue
					}
				}
				r.Fail("c21-valid-authenticator-rejected", "valid-rejected:"+ch.name, "traceroute request with a valid authenticator (tc %#02x, in-flight change %s applied=%v) was answered without authentication", tc, ch.name, applied)
			default:
				if ch.name == "dscp-high-bits" {
					known(sigDSCP, "router accepted the authenticator of a traceroute request whose DSCP bits 7..6 were changed in flight (tc %#02x)", tc)
					continue
				}
				r.Fail("c21-covered-change-accepted", "covered-accepted:"+ch.name, "router accepted the authenticator of a traceroute request although %s was changed in flight", ch.name)
			}
			continue
		}

		// ---- error provoked at a later hop: the router authenticates its SCMP error, the source
		// host is the verifier ----
		offKind := r.Choice("offender", 3)
		var raw []byte
		switch offKind {
		case 0:
			raw = buildL4(f, slayers.L4UDP, tc, fid, drawExt(r), &slayers.UDP{SrcPort: ident, DstPort: f.DPort}, gopacket.Payload(r.Tape.Bytes("pld", r.Choice("pldlen", 300))))
		case 1:
			raw = buildL4(f, slayers.L4SCMP, tc, fid, drawExt(r), &slayers.SCMP{TypeCode: slayers.CreateSCMPTypeCode(slayers.SCMPTypeEchoRequest, 0)},
				&slayers.SCMPEcho{Identifier: ident, SeqNumber: 7}, gopacket.Payload(r.Tape.Bytes("pld", r.Choice("pldlen", 100))))
		default:
			// a traceroute request whose alert flag lies beyond the failing hop: the error quotes it and
			// the reversed path of the error carries the flag
			raw = buildL4(f, slayers.L4SCMP, tc, fid, nil, &slayers.SCMP{TypeCode: slayers.CreateSCMPTypeCode(slayers.SCMPTypeTracerouteRequest, 0)},
				&slayers.SCMPTraceroute{Identifier: ident, Sequence: 3})
		}
		hop := r.Choice("bad.hop", base.NumHops)
		pp, _ := refmodel.Parse(raw)
		raw[pp.Hops[hop].Off+6+r.Choice("bad.byte", 6)] ^= byte(1 + r.Choice("bad.val", 255))
		if offKind == 2 {
			for h := hop + 1; h < base.NumHops; h++ {
				if r.Chance("alert.later", 1, 2) {
					raw[pp.Hops[h].Off] |= byte(1 + r.Choice("alert.bits", 3))
				}
			}
		}
		var gen, before []byte
		applied, passed := false, 0
		hook := func(next *Router, in Ingress, b []byte) []byte {
			p2, err := refmodel.Parse(b)
			if err != nil || p2.DstIA != uint64(f.Src.IA) || p2.L4Type == refmodel.L4UDP {
				return b
			}
			// the SCMP error on its way back
			if gen == nil {
				gen = append([]byte(nil), b...)
			}
			if !applied && passed == at {
				if m := ch.apply(r, b); m != nil {
					applied, before = true, b
					r.Fault("pkt." + ch.name)
					passed++
					return m
				}
			}
			passed++
			return b
		}
		r.Logf("offender kind %d bad hop %d tc=%#02x change %s@%d via %s", offKind, hop, tc, ch.name, at, describePath(f.Path))
		j := w.Send(f.First, Ingress{Kind: InHost, Src: f.SH.UDPAddr(int(ident))}, raw, hook)
		n++
		if r.Failed() || !j.SCMP {
			continue
		}
		final := j.Final
		if !j.Delivered {
			if gen == nil {
				// generated by the first router and handed straight to the host: no hook call
				continue
			}
			continue // dropped on the way back (the change made a router refuse it): not delivered, fine
		}
		if gen == nil {
			gen = final // generated by the source AS's own router: delivered without passing a link
		}
		_ = before
		g, err := refmodel.Parse(gen)
		if err != nil {
			r.Fail("c21-generated", "generated-malformed", "authenticated SCMP error does not parse: %v", err)
			break
		}
		og := findSPAO(g)
		if og == nil {
			r.Probe("c21-error-without-authenticator")
			continue
		}
		// 1. the authenticator as generated
		mask := uint8(0xfc)
		if !bytes.Equal(og.Auth, spaoMAC(scmpKey, g, og, 0xfc)) {
			if g.TrafficClass&0xc3 != 0 && bytes.Equal(og.Auth, spaoMAC(scmpKey, g, og, 0x3f)) {
				if g.TrafficClass&0x03 != 0 {
					known(sigECN, "authenticator of a router-generated SCMP error with traffic class %#02x covers the ECN bits", g.TrafficClass)
				}
				if g.TrafficClass&0xc0 != 0 && !r.Failed() {
					known(sigDSCP, "authenticator of a router-generated SCMP error with traffic class %#02x does not cover DSCP bits 7..6", g.TrafficClass)
				}
				if r.Failed() {
					break
				}
				mask = 0x3f
			} else {
				r.Fail("c21-generated", "generated-authenticator-invalid", "authenticator of the SCMP error generated by %s does not verify over the authenticated data of the document (tc %#02x, SPI %#x, %d hop fields)",
					j.Hops[len(j.Hops)-1].Router.AS.IA, g.TrafficClass, og.SPI, g.NumHops)
				break
			}
		}
		// 2. the authenticator as delivered to the source host
		fp, err := refmodel.Parse(final)
		if err != nil {
			continue
		}
		of := findSPAO(fp)
		ok := of != nil && bytes.Equal(of.Auth, spaoMAC(scmpKey, fp, of, mask))
		r.Covered(fmt.Sprintf("error/%s/applied%v/verifies%v", ch.name, applied, ok))
		wantOK := !(applied && ch.covered)
		switch {
		case ok == wantOK:
			if ok {
				verified++
			} else {
				rejected++
			}
		case !ok && wantOK:
			if applied && ch.name == "ecn-mark" && mask == 0x3f {
				known(sigECN, "authenticator of a router-generated SCMP error no longer verifies after the ECN bits were set in flight")
				continue
			}
			if applied && ch.name == "ecn-mark" && bytes.Equal(of.Auth, spaoMAC(scmpKey, g, og, 0x3f)) {
				known(sigECN, "authenticator of a router-generated SCMP error no longer verifies after the ECN bits were set in flight")
				continue
			}
			r.Fail("c21-mutable-change-breaks-authenticator", "mutable-rejected:"+ch.name, "SCMP error no longer verifies at the source host although only mutable or excluded fields changed on the way (change %s applied=%v, %d routers passed)", ch.name, applied, len(j.Hops))
		default:
			if ch.name == "dscp-high-bits" && bytes.Equal(of.Auth, spaoMAC(scmpKey, fp, of, 0x3f)) {
				known(sigDSCP, "authenticator of a router-generated SCMP error still verifies after DSCP bits 7..6 were changed in flight")
				continue
			}
			r.Fail("c21-covered-change-accepted", "covered-accepted:"+ch.name, "SCMP error still verifies at the source host although %s was changed in flight", ch.name)
		}
	}
	r.Nontrivial = verified > 0
	r.Sample = map[string]any{"ases": len(w.ASes), "packets": n, "verified": verified, "rejected_after_covered_change": rejected}
}
