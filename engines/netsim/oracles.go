//go:build verif

package netsim

import (
	"fmt"
	"time"

	"github.com/scionproto/scion/router"
	"verif/sim/core"
	"verif/sim/refmodel"
)

// SCMP numbers from doc/protocols/scmp.rst
const (
	scmpDestUnreach  = 1
	scmpPktTooBig    = 2
	scmpParamProblem = 4
	scmpExtIfDown    = 5
	scmpIntConnDown  = 6
	scmpEchoReq      = 128
	scmpEchoRep      = 129
	scmpTraceReq     = 130
	scmpTraceRep     = 131
	// parameter problem codes
	codeInvalidPktSize    = 19
	codeInvalidSrcAddr    = 33
	codeInvalidDstAddr    = 34
	codeNonLocalDelivery  = 35
	codeInvalidPath       = 48
	codeUnknownHopIngress = 49
	codeUnknownHopEgress  = 50
	codeInvalidMACV       = 51
	codePathExpiredV      = 52
	codeInvalidSegChange  = 53
)

// effBeta returns the accumulator value with which the router must validate hop h of the packet as
// it arrived (documented SegID rule): against construction direction a packet entering the AS from
// outside carries the value of the next hop and the ingress router folds in the hop's own MAC;
// peering hops and packets coming from inside the AS use the carried value as it is.
func effBeta(p *refmodel.Packet, h int, fromOutside bool) uint16 {
	inf := p.Infos[p.SegOfHop(h)]
	if !inf.ConsDir && fromOutside && !isPeerHop(p, h) {
		return inf.SegID ^ (uint16(p.Hops[h].MAC[0])<<8 | uint16(p.Hops[h].MAC[1]))
	}
	return inf.SegID
}

// isPeerHop: in a path whose info field carries the peering flag, the peering hop fields are the
// last hop of the first segment and the first hop of the second.
func isPeerHop(p *refmodel.Packet, h int) bool {
	if !p.Infos[p.SegOfHop(h)].Peer {
		return false
	}
	if p.SegLen[0] == 0 || p.SegLen[1] == 0 || p.SegLen[2] != 0 {
		return false
	}
	return h == p.SegLen[0]-1 || h == p.SegLen[0]
}

// macStatus evaluates, with the reference model only, the hop fields the router at hand has to
// validate for this input: the current one and, at an effective cross-over of a packet that is not
// for the local AS, the first hop of the next segment.
type macStatus struct {
	Parsed      *refmodel.Packet
	CurValid    bool
	CurExpired  bool
	Xover       bool
	NextValid   bool
	NextExpired bool
	CurFull     [16]byte
	NextFull    [16]byte
}

func (w *World) macStatusOf(a *AS, in Ingress, raw []byte, now time.Time) (*macStatus, error) {
	p, err := refmodel.Parse(raw)
	if err != nil {
		return nil, err
	}
	if !p.HasSCION {
		return nil, fmt.Errorf("no scion path")
	}
	st := &macStatus{Parsed: p}
	h := p.CurrHF
	st.CurValid, st.CurFull = p.HopValidFor(a.RefKey, h, effBeta(p, h, in.Kind == InExt))
	st.CurExpired = p.HopExpiry(h).Before(now)
	dstLocal := p.DstIA == uint64(a.IA)
	if p.IsLastHopOfSeg(h) && h != p.NumHops-1 && !isPeerHop(p, h) && !dstLocal {
		st.Xover = true
		st.NextValid, st.NextFull = p.HopValidFor(a.RefKey, h+1, p.Infos[p.SegOfHop(h+1)].SegID)
		st.NextExpired = p.HopExpiry(h + 1).Before(now)
	}
	return st, nil
}

// checkC01 is the per-traversal invariant of C01.
func (w *World) checkC01(r *core.Run, rec *HopRec, now time.Time) {
	if rec.Panic != "" {
		return
	}
	a := rec.Router.AS
	st, err := w.macStatusOf(a, rec.In, rec.InRaw, now)
	if err != nil {
		return // not a SCION/EPIC path packet the reference can judge
	}
	p := st.Parsed
	ok := st.CurValid && !st.CurExpired && (!st.Xover || (st.NextValid && !st.NextExpired))
	forwarded := rec.Res.Disposition == router.VerifForward && !rec.Res.SlowPath
	switch {
	case forwarded:
		r.Probe("c01-forwarded-valid-hop")
		if st.Xover {
			r.Probe("c01-forwarded-at-xover")
		}
	case st.CurExpired || (st.Xover && st.NextExpired):
		r.Probe("c01-rejected-expired")
		if st.Xover && st.NextExpired && !st.CurExpired {
			r.Probe("c01-rejected-expired-next-segment-only")
		}
	case !st.CurValid || (st.Xover && !st.NextValid):
		r.Probe("c01-rejected-bad-mac")
		if st.Xover && !st.NextValid && st.CurValid {
			r.Probe("c01-rejected-bad-mac-next-segment-only")
		}
	}
	if forwarded && !ok {
		r.Fail("c01-forwarded-invalid", "forwarded-invalid-hop",
			"%s %s forwarded a packet whose hop fields do not validate: cur valid=%v expired=%v xover=%v next valid=%v expired=%v (currHF=%d in=%v)",
			a.IA, rec.Router.Name, st.CurValid, st.CurExpired, st.Xover, st.NextValid, st.NextExpired, p.CurrHF, rec.In)
		return
	}
	if rec.Res.SlowPath && rec.Res.SPType == scmpParamProblem {
		code := int(rec.Res.SPCode)
		if code == codePathExpiredV || code == codeInvalidMACV {
			// pointer must designate a hop field that really fails that check
			off := int(rec.Res.SPPointer)
			hit := -1
			for i, hf := range p.Hops {
				if hf.Off == off {
					hit = i
				}
			}
			if hit != p.CurrHF && !(st.Xover && hit == p.CurrHF+1) {
				r.Fail("c01-scmp-pointer", "scmp-pointer", "%s %s: SCMP code %d pointer %d does not designate the current hop field (off %d) or the next segment's first",
					a.IA, rec.Router.Name, code, off, p.Hops[p.CurrHF].Off)
				return
			}
			var fails bool
			if hit == p.CurrHF {
				fails = (code == codePathExpiredV && st.CurExpired) || (code == codeInvalidMACV && !st.CurValid)
			} else {
				fails = (code == codePathExpiredV && st.NextExpired) || (code == codeInvalidMACV && !st.NextValid)
			}
			if !fails {
				r.Fail("c01-scmp-cause", "scmp-cause", "%s %s: SCMP code %d for hop %d, but the reference model finds that check passing", a.IA, rec.Router.Name, code, hit)
			}
		}
	}
}

// checkC07: a forwarded packet differs from the received one only in mutable path state.
func (w *World) checkC07(r *core.Run, rec *HopRec) {
	if rec.Panic != "" || rec.Res.Disposition != router.VerifForward || rec.Res.SlowPath {
		return
	}
	in, out := rec.InRaw, rec.OutRaw
	if len(in) != len(out) {
		r.Fail("c07-length", "length-changed", "%s %s: forwarded packet length %d != received %d", rec.Router.AS.IA, rec.Router.Name, len(out), len(in))
		return
	}
	p, err := refmodel.Parse(in)
	if err != nil {
		return
	}
	q, err := refmodel.Parse(out)
	if err != nil {
		r.Fail("c08-output-malformed", "output-malformed", "%s %s forwarded a packet that does not parse: %v", rec.Router.AS.IA, rec.Router.Name, err)
		return
	}
	allowed := map[int]byte{} // offset -> mask of bits that may change
	switch {
	case p.HasSCION:
		allowed[p.MetaOff] = 0xff // CurrINF(2) CurrHF(6)
		for _, s := range []int{p.CurrINF, q.CurrINF} {
			if s < len(p.Infos) {
				allowed[p.Infos[s].Off+2] = 0xff
				allowed[p.Infos[s].Off+3] = 0xff
			}
		}
		// router-alert flags change only when the router consumes the alert, and then the packet
		// is answered, not forwarded: in a forwarded packet they must be untouched
	case p.PathType == refmodel.PathOneHop:
		allowed[p.OHInfo.Off+2], allowed[p.OHInfo.Off+3] = 0xff, 0xff
		for i := 0; i < 12; i++ {
			allowed[p.OHSecond.Off+i] = 0xff
		}
	}
	for i := range in {
		if d := in[i] ^ out[i]; d != 0 {
			if d&^allowed[i] != 0 {
				r.Fail("c07-modified", fmt.Sprintf("modified:%s", regionOf(p, i)), "%s %s changed byte %d (%s) from %02x to %02x", rec.Router.AS.IA, rec.Router.Name, i, regionOf(p, i), in[i], out[i])
				return
			}
			// router alert flags may only be cleared
			if p.HasSCION {
				for _, hf := range p.Hops {
					if hf.Off == i && out[i]&^in[i] != 0 {
						r.Fail("c07-modified", "modified:alert-set", "%s %s set a router-alert flag", rec.Router.AS.IA, rec.Router.Name)
						return
					}
				}
			}
		}
	}
}

func regionOf(p *refmodel.Packet, i int) string {
	switch {
	case i < 12:
		return "common-header"
	case i < 12+p.AddrLen:
		return "address-header"
	case i < p.HdrLen:
		if p.HasSCION {
			if i >= p.MetaOff && i < p.MetaOff+4 {
				return "path-meta"
			}
			for k, inf := range p.Infos {
				if i >= inf.Off && i < inf.Off+8 {
					return fmt.Sprintf("info%d+%d", k, i-inf.Off)
				}
			}
			for k, hf := range p.Hops {
				if i >= hf.Off && i < hf.Off+12 {
					return fmt.Sprintf("hop%d+%d", k, i-hf.Off)
				}
			}
		}
		return "path"
	case i < p.L4Off:
		return "extension-headers"
	}
	return "upper-layer"
}

// checkC08Output: whatever the router emits must be a well-formed SCION packet.
func (w *World) checkC08Output(r *core.Run, rec *HopRec) {
	if rec.Panic != "" {
		r.Fail("no-panic", "panic:"+rec.PanicSite, "%s %s panicked at %s processing %x (ingress %v): %s", rec.Router.AS.IA, rec.Router.Name, rec.PanicSite, rec.InRaw, rec.In, rec.Panic)
		return
	}
	if rec.Res.Disposition != router.VerifForward {
		return
	}
	if _, err := refmodel.Parse(rec.OutRaw); err != nil {
		r.Fail("c08-output-malformed", "output-malformed", "%s %s emitted a packet that does not parse: %v (%x)", rec.Router.AS.IA, rec.Router.Name, err, rec.OutRaw)
	}
}
