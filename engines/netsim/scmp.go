//go:build verif

package netsim

import (
	"bytes"
	"encoding/binary"
	"fmt"
	"testing"
	"time"

	"github.com/gopacket/gopacket"

	"github.com/scionproto/scion/pkg/slayers"
	"github.com/scionproto/scion/pkg/slayers/path/scion"
	"verif/sim/core"
	"verif/sim/refmodel"
)

// buildL4 serialises a SCION packet with arbitrary upper layers (real slayers serialisers).
func buildL4(f *Flow, nh slayers.L4ProtocolType, tc uint8, flowID uint32, ext []gopacket.SerializableLayer, upper ...gopacket.SerializableLayer) []byte {
	sc := &slayers.SCION{TrafficClass: tc, FlowID: flowID, SrcIA: f.Src.IA, DstIA: f.Dst.IA}
	if err := sc.SetSrcAddr(hostAddr(f.SH)); err != nil {
		panic(core.InfraError{Msg: err.Error()})
	}
	if err := sc.SetDstAddr(hostAddr(f.DH)); err != nil {
		panic(core.InfraError{Msg: err.Error()})
	}
	rp := &scion.Raw{}
	if err := rp.DecodeFromBytes(f.Path.SCIONPath.Raw); err != nil {
		panic(core.InfraError{Msg: err.Error()})
	}
	sc.Path, sc.PathType = rp, scion.PathType
	layers := []gopacket.SerializableLayer{sc}
	nexts := []slayers.L4ProtocolType{}
	for _, e := range ext {
		switch e.(type) {
		case *slayers.HopByHopExtn:
			nexts = append(nexts, slayers.HopByHopClass)
		case *slayers.EndToEndExtn:
			nexts = append(nexts, slayers.End2EndClass)
		}
	}
	nexts = append(nexts, nh)
	sc.NextHdr = nexts[0]
	for i, e := range ext {
		switch x := e.(type) {
		case *slayers.HopByHopExtn:
			x.NextHdr = nexts[i+1]
		case *slayers.EndToEndExtn:
			x.NextHdr = nexts[i+1]
		}
		layers = append(layers, e)
	}
	for _, u := range upper {
		switch x := u.(type) {
		case *slayers.SCMP:
			x.SetNetworkLayerForChecksum(sc)
		case *slayers.UDP:
			x.SetNetworkLayerForChecksum(sc)
		}
		layers = append(layers, u)
	}
	buf := gopacket.NewSerializeBuffer()
	if err := gopacket.SerializeLayers(buf, gopacket.SerializeOptions{FixLengths: true, ComputeChecksums: true}, layers...); err != nil {
		panic(core.InfraError{Msg: "serialize: " + err.Error()})
	}
	return append([]byte(nil), buf.Bytes()...)
}

func padOpt(n int) *slayers.HopByHopOption {
	return &slayers.HopByHopOption{OptType: slayers.OptTypePadN, OptData: make([]byte, n)}
}

// drawExt draws 0..2 extension headers.
func drawExt(r *core.Run) []gopacket.SerializableLayer {
	var ext []gopacket.SerializableLayer
	if r.Chance("ext.hbh", 1, 4) {
		ext = append(ext, &slayers.HopByHopExtn{Options: []*slayers.HopByHopOption{padOpt(2 + 4*r.Choice("ext.hbh.len", 4))}})
	}
	if r.Chance("ext.e2e", 1, 4) {
		ext = append(ext, &slayers.EndToEndExtn{Options: []*slayers.EndToEndOption{{OptType: slayers.OptTypePadN, OptData: make([]byte, 2+4*r.Choice("ext.e2e.len", 4))}}})
	}
	return ext
}

// scmpView is the reference model's reading of an SCMP message.
type scmpView struct {
	Type, Code uint8
	SumOK      bool
	Info       []byte // info block
	Quote      []byte
	Ident, Seq uint16
	IA         uint64
	Iface      uint64
	Pointer    uint16
	Ingress    uint64
}

func viewSCMP(p *refmodel.Packet) (*scmpView, error) {
	if p.L4Type != refmodel.L4SCMP {
		return nil, fmt.Errorf("not SCMP: l4 %d", p.L4Type)
	}
	b := p.Raw[p.L4Off:]
	if len(b) < 4 {
		return nil, fmt.Errorf("short SCMP")
	}
	v := &scmpView{Type: b[0], Code: b[1]}
	v.SumOK = p.UpperLayerSum(refmodel.L4SCMP) == 0xffff
	need := map[uint8]int{scmpDestUnreach: 4, scmpPktTooBig: 4, scmpParamProblem: 4, scmpExtIfDown: 16, scmpIntConnDown: 24,
		scmpEchoReq: 4, scmpEchoRep: 4, scmpTraceReq: 20, scmpTraceRep: 20}[v.Type]
	if len(b) < 4+need {
		return nil, fmt.Errorf("short SCMP type %d", v.Type)
	}
	v.Info = b[4 : 4+need]
	v.Quote = b[4+need:]
	switch v.Type {
	case scmpParamProblem:
		v.Pointer = binary.BigEndian.Uint16(v.Info[2:])
	case scmpExtIfDown:
		v.IA = binary.BigEndian.Uint64(v.Info)
		v.Iface = binary.BigEndian.Uint64(v.Info[8:])
	case scmpIntConnDown:
		v.IA = binary.BigEndian.Uint64(v.Info)
		v.Ingress = binary.BigEndian.Uint64(v.Info[8:])
		v.Iface = binary.BigEndian.Uint64(v.Info[16:])
	case scmpEchoReq, scmpEchoRep:
		v.Ident, v.Seq = binary.BigEndian.Uint16(v.Info), binary.BigEndian.Uint16(v.Info[2:])
	case scmpTraceReq, scmpTraceRep:
		v.Ident, v.Seq = binary.BigEndian.Uint16(v.Info), binary.BigEndian.Uint16(v.Info[2:])
		v.IA = binary.BigEndian.Uint64(v.Info[4:])
		v.Iface = binary.BigEndian.Uint64(v.Info[12:])
	}
	return v, nil
}

// sameUpToMutable: b is a prefix of a up to the mutable path state of a (a: the whole offending
// packet as received).
func sameUpToMutable(a, b []byte) bool {
	p, err := refmodel.Parse(a)
	if err != nil || !p.HasSCION {
		return len(b) <= len(a) && bytes.Equal(a[:len(b)], b)
	}
	mut := map[int]byte{p.MetaOff: 0xff}
	for _, inf := range p.Infos {
		mut[inf.Off+2], mut[inf.Off+3] = 0xff, 0xff
	}
	for _, hf := range p.Hops {
		mut[hf.Off] = 0x03
	}
	for i := range b {
		if i >= len(a) {
			return false
		}
		if d := a[i] ^ b[i]; d&^mut[i] != 0 {
			return false
		}
	}
	return true
}

// checkC09 judges one SCMP message a router generated (rec: the traversal that generated it).
func (w *World) checkC09(r *core.Run, rec *HopRec) {
	if !rec.Res.SlowPath || rec.Panic != "" {
		return
	}
	off, err := refmodel.Parse(rec.InRaw)
	if err != nil {
		return
	}
	rt := rec.Router
	// offender is itself an SCMP error => nothing may be generated
	if off.L4Type == refmodel.L4SCMP && len(off.Raw) > off.L4Off && off.Raw[off.L4Off] < 128 && rec.Res.SPType >= 0 {
		r.Probe("c09-error-for-error-attempt")
		if rec.Res.Disposition != 0 {
			r.Fail("c09-error-for-error", "scmp-error-for-scmp-error", "%s %s generated an SCMP error (type %d) in response to an SCMP error message (type %d)",
				rt.AS.IA, rt.Name, rec.Res.SPType, off.Raw[off.L4Off])
		}
		return
	}
	if rec.Res.Disposition == 0 {
		return
	}
	out, err := refmodel.Parse(rec.OutRaw)
	if err != nil {
		r.Fail("c09-malformed", "scmp-malformed", "%s %s emitted an SCMP packet that does not parse: %v", rt.AS.IA, rt.Name, err)
		return
	}
	v, err := viewSCMP(out)
	if err != nil {
		r.Fail("c09-malformed", "scmp-malformed", "%s %s: %v", rt.AS.IA, rt.Name, err)
		return
	}
	r.Covered(fmt.Sprintf("scmp%d/%d", v.Type, v.Code))
	if out.DstIA != off.SrcIA || !bytes.Equal(out.DstHost, off.SrcHost) || out.DT != off.ST || out.DL != off.SL {
		r.Fail("c09-destination", "scmp-destination", "%s %s: SCMP addressed to %x/%x, offender source %x/%x", rt.AS.IA, rt.Name, out.DstIA, out.DstHost, off.SrcIA, off.SrcHost)
		return
	}
	wantSrc := rt.Internal.Addr().AsSlice()
	if out.SrcIA != uint64(rt.AS.IA) || !bytes.Equal(out.SrcHost, wantSrc) {
		r.Fail("c09-source", "scmp-source", "%s %s: SCMP source %x/%x, want local IA and router address %x", rt.AS.IA, rt.Name, out.SrcIA, out.SrcHost, wantSrc)
		return
	}
	if !v.SumOK {
		r.Fail("c09-checksum", "scmp-checksum", "%s %s: SCMP type %d checksum does not verify", rt.AS.IA, rt.Name, v.Type)
		return
	}
	if len(rec.OutRaw) > 1232 && v.Type < 128 {
		r.Fail("c09-size", "scmp-size", "%s %s: SCMP error message of %d bytes", rt.AS.IA, rt.Name, len(rec.OutRaw))
		return
	}
	if v.Type < 128 {
		// type, code and pointer are those of the problem the fast path detected
		if int(v.Type) != rec.Res.SPType || v.Code != rec.Res.SPCode {
			r.Fail("c09-typecode", "scmp-typecode", "%s %s: SCMP type/code %d/%d, detected problem %d/%d", rt.AS.IA, rt.Name, v.Type, v.Code, rec.Res.SPType, rec.Res.SPCode)
			return
		}
		if v.Type == scmpParamProblem && v.Pointer != rec.Res.SPPointer {
			r.Fail("c09-pointer", "scmp-pointer", "%s %s: pointer %d, detected at %d", rt.AS.IA, rt.Name, v.Pointer, rec.Res.SPPointer)
			return
		}
		if (v.Type == scmpExtIfDown || v.Type == scmpIntConnDown) && v.IA != uint64(rt.AS.IA) {
			r.Fail("c09-ia", "scmp-ia", "%s %s: interface-down message names IA %x", rt.AS.IA, rt.Name, v.IA)
			return
		}
		// quote: a prefix of the offending packet (mutable path state as the router saw it)
		q := v.Quote
		if len(q) > len(rec.InRaw) || !sameUpToMutable(rec.InRaw, q) {
			r.Fail("c09-quote", "scmp-quote", "%s %s: quoted %d bytes are not a prefix of the offending packet (%d bytes)", rt.AS.IA, rt.Name, len(q), len(rec.InRaw))
			return
		}
		if len(q) < len(rec.InRaw) {
			r.Probe("c09-quote-truncated")
			if len(rec.OutRaw) < 1232-8 {
				r.Fail("c09-quote", "scmp-quote-short", "%s %s: quote truncated to %d of %d bytes although the message has only %d bytes", rt.AS.IA, rt.Name, len(q), len(rec.InRaw), len(rec.OutRaw))
				return
			}
		}
	}
}

// runSCMP serves C09 (well-formed errors), C10 (replies travel back, traceroute answered by the
// right router) and the router-alert side of C07.
func runSCMP(r *core.Run) {
	core.Bubble(r, func(t *testing.T) { scmpCampaign(r) })
}

func setAlert(raw []byte, hop int, ingressFlag bool) []byte {
	p, err := refmodel.Parse(raw)
	if err != nil {
		panic(core.InfraError{Msg: err.Error()})
	}
	out := append([]byte(nil), raw...)
	if ingressFlag {
		out[p.Hops[hop].Off] |= 0x02
	} else {
		out[p.Hops[hop].Off] |= 0x01
	}
	return out
}

func scmpCampaign(r *core.Run) {
	w, segs := setup(r, defaultKnobs(r), time.Duration(r.Choice("segage.s", 3600))*time.Second)
	prev := w.OnHop
	w.OnHop = func(rec *HopRec) {
		prev(rec)
		if r.Prop == "C09" {
			w.checkC09(r, rec)
		}
	}
	flows := w.sampleFlows(r, segs, 4, 4)
	n := 0
	for _, f := range flows {
		if r.Failed() {
			break
		}
		base, err := refmodel.Parse(f.Raw)
		if err != nil {
			panic(core.InfraError{Msg: err.Error()})
		}
		ident := uint16(int(f.Src.PortStart) + r.Choice("ident", int(f.Src.PortEnd-f.Src.PortStart)+1))
		kind := r.Choice("scmp.kind", 6)
		ext := drawExt(r)
		tc, fid := uint8(r.Choice("tc", 256)), uint32(r.Choice("flowid", 1<<20))
		switch kind {
		case 0, 1: // traceroute with one router-alert flag
			hop := r.Choice("alert.hop", base.NumHops)
			ingFlag := r.Chance("alert.ingressflag", 1, 2)
			raw := buildL4(f, slayers.L4SCMP, tc, fid, ext, &slayers.SCMP{TypeCode: slayers.CreateSCMPTypeCode(slayers.SCMPTypeTracerouteRequest, 0)},
				&slayers.SCMPTraceroute{Identifier: ident, Sequence: uint16(r.Choice("seq", 1<<16))})
			raw = setAlert(raw, hop, ingFlag)
			flagged := base.Hops[hop].ConsEgress
			if ingFlag {
				flagged = base.Hops[hop].ConsIngress
			}
			r.Logf("traceroute %s -> %s hop %d flag ingress=%v interface %d via %s [%s]", f.Src.IA, f.Dst.IA, hop, ingFlag, flagged, describePath(f.Path), dumpPath(raw))
			j := w.Send(f.First, Ingress{Kind: InHost, Src: f.SH.UDPAddr(int(ident))}, raw, nil) // a dispatcher-less host: underlay port = SCMP identifier
			n++
			if r.Failed() || r.Prop != "C10" {
				continue
			}
			r.Covered(fmt.Sprintf("traceroute/ing%v/zero%v", ingFlag, flagged == 0))
			// the flag must name an interface the path really crosses (at a segment end or at the
			// start of a shortcut the hop field also names an interface that is not traversed; the
			// statement is silent about those)
			crossed := false
			for _, pi := range f.Path.Metadata.Interfaces {
				if uint64(pi.ID) == uint64(flagged) && flagged != 0 {
					for _, rec := range j.Hops {
						if rec.Router.AS.IA == pi.IA {
							if pp, err := refmodel.Parse(rec.InRaw); err == nil && pp.HasSCION && (pp.CurrHF == hop || (pp.CurrHF+1 == hop && pp.IsLastHopOfSeg(pp.CurrHF))) {
								crossed = true
							}
						}
					}
				}
			}
			if !crossed {
				r.Probe("c10-alert-on-untraversed-interface")
				continue
			}
			// who must answer: the router of the AS of that hop which owns the flagged interface
			var answer *HopRec
			for i := range j.Hops {
				if j.Hops[i].Res.SlowPath && !j.Hops[i].Reply {
					answer = &j.Hops[i]
					break
				}
			}
			if answer == nil {
				r.Fail("c10-traceroute-unanswered", "traceroute-unanswered", "traceroute with alert on interface %d (hop %d) was not answered by any router: %s", flagged, hop, lastHop(j))
				break
			}
			owner := answer.Router.AS.Intfs[flagged]
			if owner == nil || owner.Router != answer.Router {
				r.Fail("c10-traceroute-wrong-router", "traceroute-wrong-router", "traceroute alert for interface %d answered by %s %s which does not own it", flagged, answer.Router.AS.IA, answer.Router.Name)
				break
			}
			if !j.Delivered || j.DstAS != f.Src || j.Dst.Addr() != f.SH.Addr || j.Dst.Port() != ident {
				r.Fail("c10-reply-delivery", "reply-not-delivered", "traceroute reply not delivered to the source host %v:%d: delivered=%v %v; %s", f.SH.Addr, ident, j.Delivered, j.Dst, lastHop(j))
				break
			}
			fin, err := refmodel.Parse(j.Final)
			if err != nil {
				r.Fail("c10-reply-malformed", "reply-malformed", "traceroute reply does not parse: %v", err)
				break
			}
			v, err := viewSCMP(fin)
			if err != nil || v.Type != scmpTraceRep || v.IA != uint64(answer.Router.AS.IA) || v.Iface != uint64(flagged) || v.Ident != ident {
				r.Fail("c10-traceroute-content", "traceroute-content", "traceroute reply %+v err=%v, want type 131 IA %x interface %d ident %d", v, err, uint64(answer.Router.AS.IA), flagged, ident)
				break
			}
		default: // an error is provoked at a later hop; the SCMP error must travel back
			offKind := r.Choice("offender", 4) // 0 udp 1 echo request 2 scmp error 3 big udp
			var raw []byte
			sport := ident
			switch offKind {
			case 0:
				raw = buildL4(f, slayers.L4UDP, tc, fid, ext, &slayers.UDP{SrcPort: sport, DstPort: f.DPort}, gopacket.Payload(r.Tape.Bytes("pld", r.Choice("pldlen", 200))))
			case 3:
				raw = buildL4(f, slayers.L4UDP, tc, fid, ext, &slayers.UDP{SrcPort: sport, DstPort: f.DPort}, gopacket.Payload(r.Tape.Bytes("pld", 900+r.Choice("pldlen.big", 500))))
			case 1:
				raw = buildL4(f, slayers.L4SCMP, tc, fid, ext, &slayers.SCMP{TypeCode: slayers.CreateSCMPTypeCode(slayers.SCMPTypeEchoRequest, 0)},
					&slayers.SCMPEcho{Identifier: ident, SeqNumber: 7}, gopacket.Payload(r.Tape.Bytes("pld", r.Choice("pldlen", 100))))
			case 2:
				raw = buildL4(f, slayers.L4SCMP, tc, fid, ext, &slayers.SCMP{TypeCode: slayers.CreateSCMPTypeCode(slayers.SCMPTypeParameterProblem, slayers.SCMPCodeInvalidPath)},
					&slayers.SCMPParameterProblem{Pointer: 12}, gopacket.Payload(r.Tape.Bytes("pld", 40)))
			}
			// provoke: flip one MAC bit of a seed-chosen hop
			hop := r.Choice("bad.hop", base.NumHops)
			bit := r.Choice("bad.bit", 48)
			pp, _ := refmodel.Parse(raw)
			raw[pp.Hops[hop].Off+6+bit/8] ^= 0x80 >> (bit % 8)
			r.Fault("pkt.tamper.mac")
			r.Logf("offender kind %d bad hop %d via %s", offKind, hop, describePath(f.Path))
			j := w.Send(f.First, Ingress{Kind: InHost, Src: f.SH.UDPAddr(int(sport))}, raw, nil)
			n++
			if r.Failed() || r.Prop != "C10" {
				continue
			}
			if !j.SCMP {
				continue // dropped without reply (e.g. error for error): C09's business
			}
			r.Covered(fmt.Sprintf("error-reply/offender%d/hop%d", offKind, min(hop, 3)))
			if !j.Delivered || j.DstAS != f.Src || j.Dst.Addr() != f.SH.Addr {
				r.Fail("c10-reply-delivery", "reply-not-delivered", "SCMP error generated at %s not delivered to the source host %v: delivered=%v %v; %s", j.Hops[len(j.Hops)-1].Router.AS.IA, f.SH.Addr, j.Delivered, j.Dst, lastHop(j))
				break
			}
			if j.Dst.Port() != sport {
				r.Fail("c10-reply-port", "reply-port", "SCMP error delivered to port %d, offender's source port / identifier %d", j.Dst.Port(), sport)
				break
			}
		}
	}
	r.Nontrivial = n > 0
	r.Sample = map[string]any{"ases": len(w.ASes), "flows": len(flows), "packets": n}
}

// scmpSeed builds one SCMP packet of a seed-chosen kind on the flow's path.
func scmpSeed(r *core.Run, f *Flow, ext []gopacket.SerializableLayer) []byte {
	ident := uint16(int(f.Src.PortStart) + r.Choice("ident", int(f.Src.PortEnd-f.Src.PortStart)+1))
	switch r.Choice("scmpseed.kind", 4) {
	case 0:
		return buildL4(f, slayers.L4SCMP, 0, 1, ext, &slayers.SCMP{TypeCode: slayers.CreateSCMPTypeCode(slayers.SCMPTypeEchoRequest, 0)},
			&slayers.SCMPEcho{Identifier: ident, SeqNumber: 1}, gopacket.Payload([]byte("ping")))
	case 1:
		raw := buildL4(f, slayers.L4SCMP, 0, 1, ext, &slayers.SCMP{TypeCode: slayers.CreateSCMPTypeCode(slayers.SCMPTypeTracerouteRequest, 0)},
			&slayers.SCMPTraceroute{Identifier: ident, Sequence: 2})
		p, err := refmodel.Parse(raw)
		if err == nil && p.HasSCION {
			raw = setAlert(raw, r.Choice("alert.hop", p.NumHops), r.Chance("alert.ingressflag", 1, 2))
		}
		return raw
	case 2:
		q := buildL4(f, slayers.L4UDP, 0, 1, nil, &slayers.UDP{SrcPort: ident, DstPort: 4000}, gopacket.Payload([]byte("quoted")))
		return buildL4(f, slayers.L4SCMP, 0, 1, ext, &slayers.SCMP{TypeCode: slayers.CreateSCMPTypeCode(slayers.SCMPTypeDestinationUnreachable, 0)},
			&slayers.SCMPDestinationUnreachable{}, gopacket.Payload(q))
	default:
		return buildL4(f, slayers.L4SCMP, 0, 1, ext, &slayers.SCMP{TypeCode: slayers.CreateSCMPTypeCode(slayers.SCMPTypeEchoReply, 0)},
			&slayers.SCMPEcho{Identifier: ident, SeqNumber: 1}, gopacket.Payload([]byte("pong")))
	}
}
