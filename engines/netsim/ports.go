//go:build verif

package netsim

import (
	"encoding/binary"
	"fmt"
	"net/netip"
	"sort"
	"testing"
	"time"

	"github.com/gopacket/gopacket"

	"github.com/scionproto/scion/pkg/addr"
	"github.com/scionproto/scion/pkg/segment/iface"
	"github.com/scionproto/scion/pkg/slayers"
	"github.com/scionproto/scion/router/control"
	"verif/sim/core"
)

// directConfig issues the public configuration calls of control.ConfigDataplane itself, in a
// seed-chosen order (only orderings the API permits: identity and key first, internal interface
// before the links that may share its socket).
func (w *World) directConfig(rt *Router, cfg *control.Config) error {
	r := w.R
	dp := rt.Conn
	if err := dp.CreateIACtx(cfg.IA); err != nil {
		return err
	}
	if err := dp.SetKey(cfg.IA, 0, control.DeriveHFMacKey(cfg.MasterKeys.Key0)); err != nil {
		return err
	}
	type step struct {
		name string
		f    func() error
	}
	start, end := cfg.Topo.PortRange()
	portStep := step{"SetPortRange", func() error { dp.SetPortRange(start, end); return nil }}
	internal := step{"AddInternalInterface", func() error {
		return dp.AddInternalInterface(cfg.IA, addr.HostIP(cfg.BR.InternalAddr.Addr()), "udpip", cfg.BR.InternalAddr.String())
	}}
	var rest []step
	infoMap := cfg.Topo.IFInfoMap()
	var ids []iface.ID
	for id := range infoMap {
		ids = append(ids, id)
	}
	sort.Slice(ids, func(i, j int) bool { return ids[i] < ids[j] })
	for _, id := range ids {
		ifc := infoMap[id]
		li := control.LinkInfo{Provider: ifc.Provider, Local: control.LinkEnd{IA: cfg.IA, Addr: ifc.Local, IfID: ifc.ID},
			Remote: control.LinkEnd{IA: ifc.IA, Addr: ifc.Remote, IfID: ifc.RemoteIfID}, Instance: ifc.BRName, BFD: control.BFD(ifc.BFD),
			LinkTo: ifc.LinkType, MTU: ifc.MTU}
		la, err := netip.ParseAddrPort(li.Local.Addr)
		if err != nil {
			return err
		}
		ra, err := netip.ParseAddrPort(li.Remote.Addr)
		if err != nil {
			return err
		}
		lh, rh := addr.HostIP(la.Addr()), addr.HostIP(ra.Addr())
		_, owned := cfg.BR.IFs[id]
		if !owned {
			li.Provider = "udpip"
			li.Local.Addr = cfg.BR.InternalAddr.String()
			li.Remote.Addr = ifc.InternalAddr.String()
			lh, rh = addr.HostIP(cfg.BR.InternalAddr.Addr()), addr.HostIP(ifc.InternalAddr.Addr())
			li.BFD = control.BFD{}
		}
		id := id
		rest = append(rest, step{fmt.Sprintf("AddExternalInterface(%d)", id), func() error {
			return dp.AddExternalInterface(id, li, lh, rh, owned)
		}})
	}
	csAddrs, _ := cfg.Topo.Multicast(addr.SvcCS)
	for _, a := range csAddrs {
		ap := a.AddrPort()
		rest = append(rest, step{"AddSvc(CS)", func() error { return dp.AddSvc(cfg.IA, addr.SvcCS, addr.HostIP(ap.Addr()), ap.Port()) }})
	}
	// order: the port-range call goes to a drawn position among all the others
	seq := append([]step{internal}, rest...)
	pos := r.Choice("cfgorder.portrange.pos", len(seq)+1)
	seq = append(seq[:pos:pos], append([]step{portStep}, seq[pos:]...)...)
	// and the links/services after the internal interface are rotated
	names := ""
	for _, s := range seq {
		names += s.name + " "
		if err := s.f(); err != nil {
			return fmt.Errorf("%s: %w", s.name, err)
		}
	}
	r.Logf("config order %s: %s", rt.Name, names)
	r.Covered(fmt.Sprintf("portrange-call-pos-%d", min(pos, 2)))
	return nil
}

func drawPortRange(r *core.Run, a *AS) {
	switch r.Choice("portrange.kind", 7) {
	case 0:
		// default of the generator
	case 1:
		a.PortRange, a.PortStart, a.PortEnd = "-", 0, 0
	case 2:
		a.PortRange, a.PortStart, a.PortEnd = "all", 1, 65535
	case 3:
		p := uint16(1 + r.Choice("portrange.single", 65535))
		a.PortRange, a.PortStart, a.PortEnd = fmt.Sprintf("%d-%d", p, p), p, p
	case 4:
		a.PortRange, a.PortStart, a.PortEnd = "1-1", 1, 1
	case 5:
		a.PortRange, a.PortStart, a.PortEnd = "65535-65535", 65535, 65535
	case 6:
		x := uint16(1 + r.Choice("portrange.a", 65535))
		y := uint16(1 + r.Choice("portrange.b", 65535))
		if x > y {
			x, y = y, x
		}
		a.PortRange, a.PortStart, a.PortEnd = fmt.Sprintf("%d-%d", x, y), x, y
	}
}

// effective range after the router-configuration override
func (a *AS) effRange() (uint16, uint16) {
	s, e := a.PortStart, a.PortEnd
	if a.OvStart != nil {
		s = uint16(*a.OvStart)
	}
	if a.OvEnd != nil {
		e = uint16(*a.OvEnd)
	}
	return s, e
}

func interestingPort(r *core.Run, s, e uint16) uint16 {
	c := []int{int(s), int(e), int(s) - 1, int(e) + 1, 30041, 1, 65535, int(s) + (int(e)-int(s))/2, 1 + r.Choice("port.any", 65535)}
	p := c[r.Choice("port.pick", len(c))]
	if p < 1 {
		p = 1
	}
	if p > 65535 {
		p = 65535
	}
	return uint16(p)
}

func runPorts(r *core.Run) {
	core.Bubble(r, func(t *testing.T) { ports(r) })
}

// ports serves C11: the underlay destination of local deliveries, for every kind of layer-4
// content, port range, override and configuration order.
func ports(r *core.Run) {
	k := defaultKnobs(r)
	k.DirectConfigOrder = r.Chance("cfg.direct", 1, 2)
	w := GenWorld(r, k)
	for _, a := range w.ASes {
		drawPortRange(r, a)
		if r.Chance("portrange.override", 1, 4) {
			s, e := a.PortStart, a.PortEnd
			ns := int(1 + r.Choice("ov.start", 65535))
			ne := int(1 + r.Choice("ov.end", 65535))
			if ns > ne {
				ns, ne = ne, ns
			}
			switch r.Choice("ov.which", 3) {
			case 0:
				a.OvStart, a.OvEnd = &ns, &ne
			case 1:
				if ns <= int(e) || e == 0 {
					a.OvStart = &ns
				}
			case 2:
				if ne >= int(s) {
					a.OvEnd = &ne
				}
			}
		}
	}
	w.Build()
	w.OnHop = func(rec *HopRec) { w.judgeRec(r, rec) }
	r.Logf("world: %s", w.Describe())
	segs, err := w.GenSegments(r, time.Now().Add(-time.Minute), 6)
	if err != nil {
		panic(core.InfraError{Msg: "segments: " + err.Error()})
	}
	flows := w.sampleFlows(r, segs, 5, 3)
	n := 0
	for _, f := range flows {
		for rep := 0; rep < 4 && !r.Failed(); rep++ {
			s, e := f.Dst.effRange()
			port := interestingPort(r, s, e)
			kind := r.Choice("l4.kind", 7)
			tc, fid := uint8(0), uint32(r.Choice("flowid", 1<<20))
			var raw []byte
			want := port
			dst := f.DH.Addr
			desc := ""
			ext := drawExt(r)
			quoteUDP := func(srcPort uint16) []byte {
				// the quoted offending packet: a SCION/UDP packet this host once sent (reverse direction flow)
				q := buildL4(&Flow{Src: f.Dst, Dst: f.Src, SH: f.DH, DH: f.SH, Path: f.Path}, slayers.L4UDP, 0, 1, nil,
					&slayers.UDP{SrcPort: srcPort, DstPort: 4242}, gopacket.Payload([]byte("offending")))
				return q
			}
			switch kind {
			case 0:
				desc = "udp"
				raw = buildL4(f, slayers.L4UDP, tc, fid, ext, &slayers.UDP{SrcPort: f.SPort, DstPort: port}, gopacket.Payload(r.Tape.Bytes("pld", r.Choice("pldlen", 40))))
			case 1:
				desc = "tcp"
				tcp := make([]byte, 20+r.Choice("pldlen", 20))
				binary.BigEndian.PutUint16(tcp[0:], f.SPort)
				binary.BigEndian.PutUint16(tcp[2:], port)
				raw = buildL4(f, slayers.L4TCP, tc, fid, ext, gopacket.Payload(tcp))
			case 2:
				desc = "scmp-echo-reply"
				raw = buildL4(f, slayers.L4SCMP, tc, fid, ext, &slayers.SCMP{TypeCode: slayers.CreateSCMPTypeCode(slayers.SCMPTypeEchoReply, 0)},
					&slayers.SCMPEcho{Identifier: port, SeqNumber: 3}, gopacket.Payload([]byte("pong")))
			case 3:
				desc = "scmp-traceroute-reply"
				raw = buildL4(f, slayers.L4SCMP, tc, fid, ext, &slayers.SCMP{TypeCode: slayers.CreateSCMPTypeCode(slayers.SCMPTypeTracerouteReply, 0)},
					&slayers.SCMPTraceroute{Identifier: port, Sequence: 3, IA: f.Src.IA, Interface: 5})
			case 4:
				desc = "scmp-error-quoting-udp"
				raw = buildL4(f, slayers.L4SCMP, tc, fid, ext, &slayers.SCMP{TypeCode: slayers.CreateSCMPTypeCode(slayers.SCMPTypeDestinationUnreachable, 0)},
					&slayers.SCMPDestinationUnreachable{}, gopacket.Payload(quoteUDP(port)))
			case 5:
				desc = "scmp-error-quoting-echo-request"
				q := buildL4(&Flow{Src: f.Dst, Dst: f.Src, SH: f.DH, DH: f.SH, Path: f.Path}, slayers.L4SCMP, 0, 1, nil,
					&slayers.SCMP{TypeCode: slayers.CreateSCMPTypeCode(slayers.SCMPTypeEchoRequest, 0)}, &slayers.SCMPEcho{Identifier: port, SeqNumber: 1}, gopacket.Payload([]byte("ping")))
				raw = buildL4(f, slayers.L4SCMP, tc, fid, ext, &slayers.SCMP{TypeCode: slayers.CreateSCMPTypeCode(slayers.SCMPTypeParameterProblem, slayers.SCMPCodeInvalidPath)},
					&slayers.SCMPParameterProblem{Pointer: 4}, gopacket.Payload(q))
			case 6:
				desc = "service-cs"
				g := *f
				raw = buildSvc(&g, ext, port)
				dst, want = f.Dst.CSAddr.Addr(), f.Dst.CSAddr.Port()
			}
			if kind != 6 && (want < s || want > e) {
				want = 30041
			}
			r.Logf("deliver %s port %d to %s (range %d-%d => expect %v:%d)", desc, port, f.Dst.IA, s, e, dst, want)
			j := w.Send(f.First, Ingress{Kind: InHost, Src: f.SH.UDPAddr(int(f.SPort))}, raw, nil)
			n++
			if r.Failed() {
				break
			}
			r.Covered(fmt.Sprintf("%s/inrange%v", desc, want == port))
			if !j.Delivered || j.SCMP || j.DstAS != f.Dst {
				r.Fail("c11-delivered", "not-delivered:"+desc, "%s packet for %s not delivered locally: %s", desc, f.Dst.IA, lastHop(j))
				break
			}
			if j.Dst.Addr() != dst || j.Dst.Port() != want {
				sig := "port-not-redirected"
				if want == port {
					sig = "port-wrongly-redirected"
				}
				if kind == 6 {
					sig = "service-address"
				}
				r.Fail("c11-underlay-destination", sig, "%s with layer-4 port %d in %s (dispatched range %d-%d) sent to %v, want %v:%d", desc, port, f.Dst.IA, s, e, j.Dst, dst, want)
				break
			}
		}
	}
	r.Nontrivial = n > 0
	r.Sample = map[string]any{"ases": len(w.ASes), "deliveries": n, "direct_config_order": k.DirectConfigOrder}
}

func buildSvc(f *Flow, ext []gopacket.SerializableLayer, port uint16) []byte {
	raw := buildL4(f, slayers.L4UDP, 0, 7, ext, &slayers.UDP{SrcPort: f.SPort, DstPort: port}, gopacket.Payload([]byte("svc")))
	// rewrite the destination host to the control-service anycast address: same length (4 bytes) only for IPv4 hosts,
	// so rebuild through slayers with a service destination
	sc := &slayers.SCION{}
	sc.RecyclePaths()
	if err := sc.DecodeFromBytes(raw, gopacket.NilDecodeFeedback); err != nil {
		panic(core.InfraError{Msg: err.Error()})
	}
	if err := sc.SetDstAddr(addr.HostSVC(addr.SvcCS)); err != nil {
		panic(core.InfraError{Msg: err.Error()})
	}
	udp := &slayers.UDP{SrcPort: f.SPort, DstPort: port}
	udp.SetNetworkLayerForChecksum(sc)
	layers := []gopacket.SerializableLayer{sc}
	// extension headers are dropped for the service variant (kept simple)
	sc.NextHdr = slayers.L4UDP
	layers = append(layers, udp, gopacket.Payload([]byte("svc")))
	buf := gopacket.NewSerializeBuffer()
	if err := gopacket.SerializeLayers(buf, gopacket.SerializeOptions{FixLengths: true, ComputeChecksums: true}, layers...); err != nil {
		panic(core.InfraError{Msg: err.Error()})
	}
	return append([]byte(nil), buf.Bytes()...)
}

// runConfig serves C17: every socket the router opens gets the configured buffer sizes.
func runConfig(r *core.Run) {
	core.Bubble(r, func(t *testing.T) { configCampaign(r) })
}

func configCampaign(r *core.Run) {
	k := defaultKnobs(r)
	k.MaxISD, k.MaxNonCore = 1, 3
	k.DirectConfigOrder = r.Chance("cfg.direct", 1, 2)
	w := GenWorld(r, k)
	w.Build()
	n := 0
	for _, a := range w.ASes {
		for _, rt := range a.Routers {
			for _, o := range rt.Opener.Opens {
				n++
				kind := "external"
				if !o.Remote.IsValid() {
					kind = "internal"
				} else if o.Local == rt.Internal || o.Local.Addr() == rt.Internal.Addr() {
					kind = "sibling"
				}
				r.Covered(fmt.Sprintf("%s/reuse%v", kind, k.ReuseLocal))
				if o.Cfg.ReceiveBufferSize != k.RcvBuf || o.Cfg.SendBufferSize != k.SndBuf {
					r.Fail("c17-buffer-sizes", "buffer-sizes-swapped-or-wrong:"+kind, "%s %s opened its %s socket (%v -> %v) with receive buffer %d and send buffer %d; configured receive %d, send %d",
						a.IA, rt.Name, kind, o.Local, o.Remote, o.Cfg.ReceiveBufferSize, o.Cfg.SendBufferSize, k.RcvBuf, k.SndBuf)
					return
				}
			}
		}
	}
	r.Nontrivial = n > 1
	r.Sample = map[string]any{"ases": len(w.ASes), "sockets_opened": n, "receive_buffer": k.RcvBuf, "send_buffer": k.SndBuf,
		"udp_can_reuse_local": k.ReuseLocal, "direct_config_order": k.DirectConfigOrder}
}
