//go:build verif

package netsim

import (
	"fmt"
	"net"
	"net/netip"

	"github.com/gopacket/gopacket"

	"github.com/scionproto/scion/pkg/addr"
	"github.com/scionproto/scion/pkg/slayers"
	spath "github.com/scionproto/scion/pkg/slayers/path"
	"github.com/scionproto/scion/pkg/slayers/path/scion"
	"github.com/scionproto/scion/router"
	"verif/sim/core"
)

// Ingress describes how a datagram reaches a router.
type Ingress struct {
	Kind    int // 0 external, 1 sibling, 2 internal (host)
	IfID    uint16  // external: local interface
	Sibling *Router // sibling: the sending router
	Src     *net.UDPAddr // internal: source underlay address
}

const (
	InExt = iota
	InSibling
	InHost
)

func (i Ingress) String() string {
	switch i.Kind {
	case InExt:
		return fmt.Sprintf("ext#%d", i.IfID)
	case InSibling:
		return fmt.Sprintf("sib:r%d", i.Sibling.Idx)
	}
	return fmt.Sprintf("host:%v", i.Src)
}

// HopRec is one router traversal.
type HopRec struct {
	Router  *Router
	In      Ingress
	InRaw   []byte
	Res     router.VerifResult
	OutRaw  []byte
	Panic   string
}

// Journey is the complete trip of one datagram (and of the replies routers generated).
type Journey struct {
	Hops      []HopRec
	Delivered bool
	DstAS     *AS
	Dst       netip.AddrPort // underlay destination of the final delivery
	Final     []byte
	// Crossings are the (AS, ifid) pairs at which the datagram left/entered ASes, in order.
	Crossings []Crossing
	SCMP      bool // a router turned the packet into an SCMP reply somewhere
	Dropped   bool
	DropAt    *Router
}

type Crossing struct {
	IA   addr.IA
	IfID uint16
}

// Hook lets campaigns tamper with or observe a datagram between two routers.
type Hook func(next *Router, in Ingress, raw []byte) []byte

// process runs one datagram through one real router.
func (w *World) process(rt *Router, in Ingress, raw []byte) (rec HopRec) {
	rec = HopRec{Router: rt, In: in, InRaw: append([]byte(nil), raw...)}
	var link router.Link
	var src *net.UDPAddr
	switch in.Kind {
	case InExt:
		link = rt.Conn.VerifLink(in.IfID)
	case InSibling:
		link = rt.Conn.VerifLink(in.Sibling.Intfs[0].ID)
		src = net.UDPAddrFromAddrPort(in.Sibling.Internal)
	case InHost:
		link = rt.Conn.VerifLink(0)
		src = in.Src
	}
	if link == nil {
		panic(core.InfraError{Msg: fmt.Sprintf("no link for ingress %v at %s", in, rt.Name)})
	}
	pkt := rt.Conn.VerifNewPacket(raw, link, src)
	func() {
		defer func() {
			if x := recover(); x != nil {
				rec.Panic = fmt.Sprint(x)
			}
		}()
		rec.Res = rt.Proc.Process(pkt)
	}()
	if rec.Panic == "" && rec.Res.Disposition == router.VerifForward {
		rec.OutRaw = append([]byte(nil), pkt.RawPacket...)
	}
	if rec.Panic != "" {
		// the processor may be in an inconsistent state: replace it, leave the buffer out of the pool
		rt.Proc = rt.Conn.VerifNewProcessor()
		return rec
	}
	rt.Conn.VerifRelease(pkt)
	return rec
}

// Send carries a datagram from its first router until it is delivered to a host or dropped.
func (w *World) Send(first *Router, in Ingress, raw []byte, hook Hook) *Journey {
	j := &Journey{}
	rt := first
	for n := 0; n < 80; n++ {
		if hook != nil {
			raw = hook(rt, in, raw)
			if raw == nil {
				j.Dropped = true
				return j
			}
		}
		rec := w.process(rt, in, raw)
		j.Hops = append(j.Hops, rec)
		w.R.Logf("  %s %s in=%v disp=%d slow=%v egress=%d len=%d", rt.AS.IA, rt.Name, in, rec.Res.Disposition, rec.Res.SlowPath, rec.Res.Egress, len(rec.OutRaw))
		if rec.Panic != "" {
			j.Dropped, j.DropAt = true, rt
			return j
		}
		if rec.Res.Disposition != router.VerifForward {
			j.Dropped, j.DropAt = true, rt
			return j
		}
		if rec.Res.SlowPath {
			j.SCMP = true
		}
		raw = rec.OutRaw
		l := rec.Res.EgressLink
		switch l.Scope() {
		case router.Internal:
			j.Delivered = true
			j.DstAS = rt.AS
			if rec.Res.Dst != nil {
				j.Dst = rec.Res.Dst.AddrPort()
				j.Dst = netip.AddrPortFrom(j.Dst.Addr().Unmap(), j.Dst.Port())
			}
			j.Final = raw
			return j
		case router.External:
			out := rt.AS.Intfs[l.IfID()]
			if out == nil || out.Router != rt {
				panic(core.InfraError{Msg: fmt.Sprintf("router %s forwards over external link %d it does not own", rt.Name, l.IfID())})
			}
			j.Crossings = append(j.Crossings, Crossing{rt.AS.IA, out.ID}, Crossing{out.Remote.AS.IA, out.Remote.ID})
			rt = out.Remote.Router
			in = Ingress{Kind: InExt, IfID: out.Remote.ID}
		case router.Sibling:
			sib := rt.linkToSibling[l]
			if sib == nil {
				panic(core.InfraError{Msg: "unknown sibling link at " + rt.Name})
			}
			in = Ingress{Kind: InSibling, Sibling: rt}
			rt = sib
		}
	}
	j.Dropped = true
	return j
}

// UDPPacket builds a SCION/UDP datagram with the real slayers serialisers.
type PktSpec struct {
	SrcIA, DstIA addr.IA
	Src, Dst     addr.Host
	RawPath      []byte
	PathType     spath.Type
	Path         spath.Path
	SrcPort      uint16
	DstPort      uint16
	Payload      []byte
	TC           uint8
	FlowID       uint32
	L4           gopacket.SerializableLayer // overrides UDP
	NextHdr      slayers.L4ProtocolType
	Ext          []gopacket.SerializableLayer // HBH / E2E
}

func BuildPacket(s PktSpec) ([]byte, error) {
	sc := &slayers.SCION{Version: 0, TrafficClass: s.TC, FlowID: s.FlowID, NextHdr: slayers.L4UDP,
		SrcIA: s.SrcIA, DstIA: s.DstIA}
	if err := sc.SetSrcAddr(s.Src); err != nil {
		return nil, err
	}
	if err := sc.SetDstAddr(s.Dst); err != nil {
		return nil, err
	}
	if s.Path != nil {
		sc.Path, sc.PathType = s.Path, s.PathType
	} else {
		rp := &scion.Raw{}
		if err := rp.DecodeFromBytes(s.RawPath); err != nil {
			return nil, err
		}
		sc.Path, sc.PathType = rp, scion.PathType
	}
	layers := []gopacket.SerializableLayer{sc}
	first := slayers.L4UDP
	if s.L4 != nil {
		first = s.NextHdr
	}
	// chain next headers through extensions
	nexts := make([]slayers.L4ProtocolType, len(s.Ext)+1)
	for i, e := range s.Ext {
		switch e.(type) {
		case *slayers.HopByHopExtn:
			nexts[i] = slayers.HopByHopClass
		case *slayers.EndToEndExtn:
			nexts[i] = slayers.End2EndClass
		}
	}
	nexts[len(s.Ext)] = first
	sc.NextHdr = nexts[0]
	for i, e := range s.Ext {
		switch x := e.(type) {
		case *slayers.HopByHopExtn:
			x.NextHdr = nexts[i+1]
		case *slayers.EndToEndExtn:
			x.NextHdr = nexts[i+1]
		}
		layers = append(layers, e)
	}
	if s.L4 != nil {
		if scmp, ok := s.L4.(*slayers.SCMP); ok {
			scmp.SetNetworkLayerForChecksum(sc)
		}
		layers = append(layers, s.L4)
	} else {
		udp := &slayers.UDP{SrcPort: s.SrcPort, DstPort: s.DstPort}
		udp.SetNetworkLayerForChecksum(sc)
		layers = append(layers, udp)
	}
	layers = append(layers, gopacket.Payload(s.Payload))
	buf := gopacket.NewSerializeBuffer()
	if err := gopacket.SerializeLayers(buf, gopacket.SerializeOptions{FixLengths: true, ComputeChecksums: true}, layers...); err != nil {
		return nil, err
	}
	return append([]byte(nil), buf.Bytes()...), nil
}
