//go:build verif

package netsim

import (
	"bytes"
	"fmt"
	"testing"
	"time"

	"github.com/gopacket/gopacket"

	"github.com/scionproto/scion/pkg/addr"
	"github.com/scionproto/scion/pkg/slayers"
	spath "github.com/scionproto/scion/pkg/slayers/path"
	"github.com/scionproto/scion/pkg/slayers/path/onehop"
	"github.com/scionproto/scion/router"
	"verif/sim/core"
	"verif/sim/refmodel"
)

type ohpSpec struct {
	SrcIA, DstIA addr.IA
	Src          addr.Host
	Egress       uint16
	SegID        uint16
	TS           uint32
	Exp          uint8
	Key          []byte // key the first hop is MACed with
	ConsDir      bool
	Second       spath.HopField // what the sender pre-loads into the second hop slot
	BadMAC       bool
}

func buildOHP(s ohpSpec) []byte {
	full := refmodel.HopMACFull(s.Key, s.SegID, s.TS, s.Exp, 0, s.Egress)
	op := &onehop.Path{Info: spath.InfoField{ConsDir: s.ConsDir, SegID: s.SegID, Timestamp: s.TS},
		FirstHop: spath.HopField{ConsEgress: s.Egress, ExpTime: s.Exp}, SecondHop: s.Second}
	copy(op.FirstHop.Mac[:], full[:6])
	if s.BadMAC {
		op.FirstHop.Mac[3] ^= 0x10
	}
	sc := &slayers.SCION{NextHdr: slayers.L4UDP, SrcIA: s.SrcIA, DstIA: s.DstIA, PathType: onehop.PathType, Path: op, FlowID: 1}
	if err := sc.SetSrcAddr(s.Src); err != nil {
		panic(core.InfraError{Msg: err.Error()})
	}
	if err := sc.SetDstAddr(addr.HostSVC(addr.SvcCS)); err != nil {
		panic(core.InfraError{Msg: err.Error()})
	}
	udp := &slayers.UDP{SrcPort: 30252, DstPort: 30252}
	udp.SetNetworkLayerForChecksum(sc)
	buf := gopacket.NewSerializeBuffer()
	if err := gopacket.SerializeLayers(buf, gopacket.SerializeOptions{FixLengths: true, ComputeChecksums: true}, sc, udp, gopacket.Payload([]byte("beacon"))); err != nil {
		panic(core.InfraError{Msg: err.Error()})
	}
	return append([]byte(nil), buf.Bytes()...)
}

func runOHP(r *core.Run) {
	core.Bubble(r, func(t *testing.T) { ohp(r) })
}

// ohp serves C12: one-hop-path packets as the beaconing control services send them, and
// adversarial variants.
func ohp(r *core.Run) {
	w, _ := setup(r, defaultKnobs(r), time.Minute)
	n := 0
	for _, a := range w.ASes {
		for _, id := range a.SortedIfIDs() {
			if r.Failed() {
				break
			}
			out := a.Intfs[id]
			b := out.Remote.AS
			variant := r.Choice("ohp.variant", 9)
			spec := ohpSpec{SrcIA: a.IA, DstIA: b.IA, Src: addr.HostIP(a.CSAddr.Addr()), Egress: id, SegID: uint16(r.Choice("segid", 1<<16)),
				TS: uint32(time.Now().Unix() - 5), Exp: uint8(r.Choice("exp", 256)), Key: a.RefKey, ConsDir: true}
			mustLeave, mustEnter := true, true
			desc := "honest"
			third := w.ASes[r.Choice("third", len(w.ASes))]
			switch variant {
			case 1:
				if third != a {
					spec.SrcIA, mustLeave, desc = third.IA, false, "source not local"
				}
			case 2:
				if third != b {
					spec.DstIA, mustLeave, desc = third.IA, false, "destination not the neighbour behind the egress interface"
				}
			case 3:
				spec.BadMAC, mustLeave, desc = true, false, "first hop MAC invalid"
			case 4:
				spec.ConsDir, mustLeave, desc = false, false, "construction-direction flag off"
			case 5:
				spec.Key, mustLeave, desc = b.RefKey, false, "first hop MACed with another AS's key"
			case 6:
				spec.Second = spath.HopField{ConsEgress: uint16(1 + r.Choice("preload.eg", 50)), EgressRouterAlert: r.Chance("preload.alert", 1, 2)}
				desc = "second hop slot pre-loaded by the sender"
			}
			raw := buildOHP(spec)
			first := out.Router
			r.Logf("ohp %s#%d -> %s#%d variant %d (%s)", a.IA, id, b.IA, out.Remote.ID, variant, desc)
			prevHook := w.OnHop
			w.OnHop = nil
			rec := w.process(first, Ingress{Kind: InHost, Src: udpPtr(a.CSAddr)}, raw)
			w.OnHop = prevHook
			n++
			if rec.Panic != "" {
				panic(core.InfraError{Msg: "router panic (C08): " + rec.Panic})
			}
			left := rec.Res.Disposition == router.VerifForward && !rec.Res.SlowPath && rec.Res.EgressLink.Scope() == router.External
			r.Covered(fmt.Sprintf("leave/v%d/left%v", variant, left))
			if !mustLeave && rec.Res.Disposition == router.VerifForward && !rec.Res.SlowPath {
				r.Fail("c12-left", "ohp-left:"+desc, "%s %s sent out a one-hop packet that must not leave (%s)", a.IA, first.Name, desc)
				break
			}
			if mustLeave && !left {
				r.Fail("c12-not-left", "ohp-honest-rejected", "%s %s did not send out an honest one-hop packet (%s): disp=%d", a.IA, first.Name, desc, rec.Res.Disposition)
				break
			}
			if !left {
				continue
			}
			if rec.Res.Egress != id {
				r.Fail("c12-egress", "ohp-egress", "%s %s sent the one-hop packet out of %d, first hop says %d", a.IA, first.Name, rec.Res.Egress, id)
				break
			}
			// arrival at the neighbour, or (adversarial) at some other AS's interface / with rewritten addresses
			inRaw := rec.OutRaw
			recvIf := out.Remote
			enterDesc := "honest"
			switch r.Choice("ohp.enter", 5) {
			case 1:
				inRaw, mustEnter, enterDesc = setIAs(inRaw, third.IA, a.IA), third == b, "destination rewritten to another AS"
			case 2:
				inRaw, mustEnter, enterDesc = setIAs(inRaw, b.IA, third.IA), third == a, "source rewritten to another AS"
			case 3:
				// delivered on another interface of b whose neighbour is not a
				for _, oid := range b.SortedIfIDs() {
					if b.Intfs[oid].Remote.AS != a {
						recvIf, mustEnter, enterDesc = b.Intfs[oid], false, "arrives on an interface whose neighbour is not the source"
						break
					}
				}
			}
			got := func() HopRec {
				w.OnHop = nil
				defer func() { w.OnHop = prevHook }()
				return w.process(recvIf.Router, Ingress{Kind: InExt, IfID: recvIf.ID}, inRaw)
			}()
			n++
			if got.Panic != "" {
				panic(core.InfraError{Msg: "router panic (C08): " + got.Panic})
			}
			entered := got.Res.Disposition == router.VerifForward && !got.Res.SlowPath
			r.Covered(fmt.Sprintf("enter/%s/entered%v", enterDesc[:6], entered))
			if !mustEnter && entered {
				r.Fail("c12-entered", "ohp-entered:"+enterDesc, "%s %s accepted a one-hop packet it must not accept (%s)", recvIf.AS.IA, recvIf.Router.Name, enterDesc)
				break
			}
			if mustEnter && !entered {
				r.Fail("c12-not-entered", "ohp-honest-not-accepted", "%s %s did not accept an honest one-hop packet (%s)", recvIf.AS.IA, recvIf.Router.Name, enterDesc)
				break
			}
			if !entered || enterDesc != "honest" {
				continue
			}
			// the completed second hop: exactly (receiving interface, 0, first hop's expiry) and a MAC that
			// verifies under b's key with the updated accumulator
			q, err := refmodel.Parse(got.OutRaw)
			if err != nil || q.PathType != refmodel.PathOneHop {
				r.Fail("c12-malformed", "ohp-malformed", "completed one-hop packet does not parse: %v", err)
				break
			}
			p0, _ := refmodel.Parse(raw)
			beta1 := spec.SegID ^ (uint16(p0.OHFirst.MAC[0])<<8 | uint16(p0.OHFirst.MAC[1]))
			want := refmodel.HopMACFull(b.RefKey, beta1, spec.TS, spec.Exp, recvIf.ID, 0)
			sh := q.OHSecond
			if q.OHInfo.SegID != beta1 || sh.ConsIngress != recvIf.ID || sh.ConsEgress != 0 || sh.ExpTime != spec.Exp || sh.IngressAlert || sh.EgressAlert || !bytes.Equal(sh.MAC[:], want[:6]) {
				r.Fail("c12-second-hop", "ohp-second-hop", "%s %s completed the second hop as in=%d eg=%d exp=%d alerts=%v/%v mac=%x segid=%#x; want in=%d eg=0 exp=%d mac=%x segid=%#x",
					b.IA, recvIf.Router.Name, sh.ConsIngress, sh.ConsEgress, sh.ExpTime, sh.IngressAlert, sh.EgressAlert, sh.MAC, q.OHInfo.SegID, recvIf.ID, spec.Exp, want[:6], beta1)
				break
			}
			if r.Prop == "C07" {
				w.checkC07(r, &got)
			}
			if got.Res.EgressLink.Scope() != router.Internal || got.Res.Dst == nil || got.Res.Dst.AddrPort().Addr().Unmap() != b.CSAddr.Addr() || got.Res.Dst.Port != int(b.CSAddr.Port()) {
				r.Fail("c12-delivery", "ohp-delivery", "%s %s delivered the one-hop packet to %v, want the control service %v", b.IA, recvIf.Router.Name, got.Res.Dst, b.CSAddr)
				break
			}
			// round trip: the receiver answers on the reversed (completed) one-hop path
			if ExpiredAt(spec.TS, spec.Exp, time.Now()) {
				continue
			}
			self := addr.HostIP(b.CSAddr.Addr())
			reply, err := reverseUDPFrom(got.OutRaw, &self)
			if err != nil {
				panic(core.InfraError{Msg: "reversing one-hop packet: " + err.Error()})
			}
			// the reply is addressed to the sender's host address (the request came from the CS address)
			j := w.Send(recvIf.Router, Ingress{Kind: InHost, Src: udpPtr(b.CSAddr)}, reply, nil)
			n++
			if r.Failed() {
				break
			}
			if !j.Delivered || j.SCMP || j.DstAS != a || j.Dst.Addr() != a.CSAddr.Addr() {
				r.Fail("c12-roundtrip", "ohp-reply-not-delivered", "reply on the reversed one-hop path %s#%d <- %s#%d not delivered to the sender: %s", a.IA, id, b.IA, recvIf.ID, lastHop(j))
				break
			}
			if len(j.Crossings) != 2 || j.Crossings[0].IfID != recvIf.ID || j.Crossings[1].IfID != id {
				r.Fail("c12-roundtrip", "ohp-reply-interfaces", "reply crossed %v, want %s#%d then %s#%d", j.Crossings, b.IA, recvIf.ID, a.IA, id)
				break
			}
		}
	}
	r.Nontrivial = n > 0
	r.Sample = map[string]any{"ases": len(w.ASes), "one_hop_packets": n}
}

// ExpiredAt tells whether a hop field has expired.
func ExpiredAt(ts uint32, exp uint8, now time.Time) bool {
	return refmodel.ExpiryOf(ts, exp).Before(now)
}
