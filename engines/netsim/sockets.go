//go:build verif

package netsim

import (
	"fmt"
	"net"
	"net/netip"
	"reflect"
	"syscall"
	"unsafe"

	"github.com/scionproto/scion/private/underlay/conn"
	"github.com/scionproto/scion/private/underlay/sockctrl"
	"verif/sim/core"
)

// Campaign C17/sockets: the last step of "configured buffer sizes reach the matching socket
// option" lies below the router's connection-opener seam, in private/underlay/conn. Here the real
// conn.New opens real UDP sockets on the loopback interface (no traffic is sent, nothing blocks, so
// this campaign runs outside a bubble) with seed-drawn configurations, and the options the kernel
// reports for them are compared with those of a reference socket set up directly with the syscall
// wrappers of package net.

func udpConnOf(c conn.Conn) *net.UDPConn {
	v := reflect.ValueOf(c)
	for v.Kind() == reflect.Pointer || v.Kind() == reflect.Interface {
		v = v.Elem()
	}
	var find func(v reflect.Value) *net.UDPConn
	find = func(v reflect.Value) *net.UDPConn {
		if v.Kind() != reflect.Struct {
			return nil
		}
		for i := 0; i < v.NumField(); i++ {
			f := v.Field(i)
			if f.Type() == reflect.TypeOf((*net.UDPConn)(nil)) {
				return *(**net.UDPConn)(unsafe.Pointer(f.UnsafeAddr()))
			}
			if f.Kind() == reflect.Struct {
				if u := find(f); u != nil {
					return u
				}
			}
		}
		return nil
	}
	// the value must be addressable for UnsafeAddr
	pv := reflect.ValueOf(c)
	for pv.Kind() == reflect.Interface {
		pv = pv.Elem()
	}
	if pv.Kind() == reflect.Pointer {
		return find(pv.Elem())
	}
	return nil
}

func sockBuf(u *net.UDPConn, opt int) int {
	v, err := sockctrl.GetsockoptInt(u, syscall.SOL_SOCKET, opt)
	if err != nil {
		panic(core.InfraError{Msg: "getsockopt: " + err.Error()})
	}
	return v
}

func runSockets(r *core.Run) {
	sizes := []int{0, 0, 2048, 4096, 16384, 65536, 100000, 212992, 1 << 20, 1<<20 + 12345}
	n := 0
	for i := 0; i < 6 && !r.Failed(); i++ {
		rcv := sizes[r.Choice("sock.rcv", len(sizes))]
		snd := sizes[r.Choice("sock.snd", len(sizes))]
		connected := r.Chance("sock.connected", 1, 2)
		listen := netip.MustParseAddrPort("127.0.0.1:0")
		var remote netip.AddrPort
		if connected {
			remote = netip.MustParseAddrPort("127.0.0.1:30041")
		}
		// reference socket: what the kernel reports for a socket on which exactly the configured
		// non-zero sizes were requested (a zero size means: leave the default)
		ref, err := net.ListenUDP("udp4", net.UDPAddrFromAddrPort(listen))
		if err != nil {
			panic(core.InfraError{Msg: "reference socket: " + err.Error()})
		}
		if rcv != 0 {
			if err := ref.SetReadBuffer(rcv); err != nil {
				panic(core.InfraError{Msg: err.Error()})
			}
		}
		if snd != 0 {
			if err := ref.SetWriteBuffer(snd); err != nil {
				panic(core.InfraError{Msg: err.Error()})
			}
		}
		wantR, wantS := sockBuf(ref, syscall.SO_RCVBUF), sockBuf(ref, syscall.SO_SNDBUF)
		ref.Close()

		c, err := conn.New(listen, remote, &conn.Config{ReceiveBufferSize: rcv, SendBufferSize: snd})
		if err != nil {
			// the code under test refuses when the kernel grants less than requested: nothing to compare
			r.Logf("conn.New rcv=%d snd=%d connected=%v: %v", rcv, snd, connected, err != nil)
			r.Probe("c17-socket-refused")
			continue
		}
		u := udpConnOf(c)
		if u == nil {
			c.Close()
			panic(core.InfraError{Msg: "no *net.UDPConn found inside the conn.Conn implementation"})
		}
		gotR, gotS := sockBuf(u, syscall.SO_RCVBUF), sockBuf(u, syscall.SO_SNDBUF)
		c.Close()
		n++
		r.Logf("socket rcv=%d snd=%d connected=%v: kernel reports rcv=%d snd=%d, reference rcv=%d snd=%d", rcv, snd, connected, gotR, gotS, wantR, wantS)
		r.Covered(fmt.Sprintf("rcvzero%v/sndzero%v/connected%v", rcv == 0, snd == 0, connected))
		if gotR != wantR || gotS != wantS {
			r.Fail("c17-socket-option", fmt.Sprintf("socket-option:rcvzero%v:sndzero%v", rcv == 0, snd == 0),
				"socket opened with ReceiveBufferSize=%d SendBufferSize=%d (connected=%v): the kernel reports SO_RCVBUF=%d SO_SNDBUF=%d, a socket on which exactly these sizes were requested reports %d / %d",
				rcv, snd, connected, gotR, gotS, wantR, wantS)
		}
	}
	r.Nontrivial = n > 0
	r.Sample = map[string]any{"sockets_opened": n}
}
