//go:build verif

package netsim

import (
	"fmt"
	"verif/sim/refmodel"
)

func dumpPath(raw []byte) string {
	p, err := refmodel.Parse(raw)
	if err != nil {
		return err.Error()
	}
	s := fmt.Sprintf("cur inf %d hf %d seglen %v;", p.CurrINF, p.CurrHF, p.SegLen)
	for _, i := range p.Infos {
		s += fmt.Sprintf(" I(c=%v p=%v seg=%04x)", i.ConsDir, i.Peer, i.SegID)
	}
	for _, h := range p.Hops {
		s += fmt.Sprintf(" H(in=%d eg=%d exp=%d)", h.ConsIngress, h.ConsEgress, h.ExpTime)
	}
	return s
}
