//go:build verif

package netsim

import (
	"encoding/binary"
	"fmt"
	"testing"
	"time"

	"github.com/gopacket/gopacket"

	"github.com/scionproto/scion/pkg/slayers"
	snetpath "github.com/scionproto/scion/pkg/snet/path"
	"github.com/scionproto/scion/router"
	"verif/sim/core"
	"verif/sim/refmodel"
)

func runEPIC(r *core.Run) {
	core.Bubble(r, func(t *testing.T) { epicCampaign(r) })
}

// buildEPIC builds an EPIC packet with the real snet EPIC path (host library).
func buildEPIC(f *Flow, payload []byte) ([]byte, error) {
	sc := &slayers.SCION{FlowID: 3, NextHdr: slayers.L4UDP, SrcIA: f.Src.IA, DstIA: f.Dst.IA}
	if err := sc.SetSrcAddr(hostAddr(f.SH)); err != nil {
		return nil, err
	}
	if err := sc.SetDstAddr(hostAddr(f.DH)); err != nil {
		return nil, err
	}
	udp := &slayers.UDP{SrcPort: f.SPort, DstPort: f.DPort}
	udp.SetNetworkLayerForChecksum(sc)
	// the payload length must be known before the hop validation fields are computed
	sc.PayloadLen = uint16(8 + len(payload))
	ep, err := snetpath.NewEPICDataplanePath(f.Path.SCIONPath, f.Path.Metadata.EpicAuths)
	if err != nil {
		return nil, err
	}
	if err := ep.SetPath(sc); err != nil {
		return nil, err
	}
	buf := gopacket.NewSerializeBuffer()
	if err := gopacket.SerializeLayers(buf, gopacket.SerializeOptions{FixLengths: true, ComputeChecksums: true}, sc, udp, gopacket.Payload(payload)); err != nil {
		return nil, err
	}
	return append([]byte(nil), buf.Bytes()...), nil
}

// epicStatus: reference-model verdict on freshness and on the PHVF / LHVF of an EPIC packet.
type epicStatus struct {
	Fresh, NearBound bool
	PHVFok, LHVFok   bool
}

func epicCheck(p *refmodel.Packet, sigmaPH, sigmaLH [16]byte, now time.Time) epicStatus {
	var st epicStatus
	ts := p.Infos[0].Timestamp
	sent := refmodel.EpicSenderTime(ts, p.EpicTS)
	// accepted iff not more than 1 s in the future and not older than 2 s + 1 s
	st.Fresh = !sent.After(now.Add(time.Second)) && !now.After(sent.Add(3*time.Second))
	for _, b := range []time.Time{sent.Add(-time.Second), sent.Add(3 * time.Second)} {
		if d := now.Sub(b); d > -time.Millisecond && d < time.Millisecond {
			st.NearBound = true
		}
	}
	ph := refmodel.EpicHVF(sigmaPH, p.SL, ts, p.EpicTS, p.EpicCounter, p.SrcIA, p.SrcHost, uint16(p.PayloadLen))
	lh := refmodel.EpicHVF(sigmaLH, p.SL, ts, p.EpicTS, p.EpicCounter, p.SrcIA, p.SrcHost, uint16(p.PayloadLen))
	st.PHVFok, st.LHVFok = ph == p.PHVF, lh == p.LHVF
	return st
}

// epicCampaign serves C13.
func epicCampaign(r *core.Run) {
	k := defaultKnobs(r)
	w := GenWorld(r, k)
	w.EPIC = true
	w.Build()
	r.Logf("world: %s", w.Describe())
	age := time.Duration(60+r.Choice("segage.s", 3000)) * time.Second
	if r.Chance("segage.fresh", 1, 3) {
		age = time.Duration(r.Choice("segage.ms", 3000)) * time.Millisecond // beacons just originated
	}
	segs, err := w.GenSegments(r, time.Now().Add(-age), 6)
	if err != nil {
		panic(core.InfraError{Msg: "segments: " + err.Error()})
	}
	flows := w.sampleFlows(r, segs, 5, 4)
	n := 0
	for _, f := range flows {
		if r.Failed() {
			break
		}
		if !f.Path.Metadata.EpicAuths.SupportsEpic() {
			r.Probe("c13-path-without-epic-auths")
			continue
		}
		payload := r.Tape.Bytes("payload", r.Choice("pldlen", 64))
		raw, err := buildEPIC(f, payload)
		if err != nil {
			panic(core.InfraError{Msg: "building EPIC packet: " + err.Error()})
		}
		p0, err := refmodel.Parse(raw)
		if err != nil || p0.PathType != refmodel.PathEPIC {
			panic(core.InfraError{Msg: fmt.Sprintf("EPIC packet does not parse: %v", err)})
		}
		// ground truth sigmas: the full MACs of the penultimate and last hop fields, from the reference model
		var sigmaPH, sigmaLH [16]byte
		copy(sigmaPH[:], f.Path.Metadata.EpicAuths.AuthPHVF)
		copy(sigmaLH[:], f.Path.Metadata.EpicAuths.AuthLHVF)
		// variant: what is wrong with the packet
		variant := r.Choice("epic.variant", 8)
		desc := "honest"
		switch variant {
		case 1, 2: // host clock offset: EpicTS shifted, HVFs recomputed by an authorised (skewed) host
			shiftMS := r.Choice("epic.shift.ms", 9000) - 4500
			delta := int64(shiftMS) * 1000 / 21
			nts := int64(p0.EpicTS) + delta
			if nts < 0 {
				nts = 0
			}
			off := p0.PathOff
			binary.BigEndian.PutUint32(raw[off:], uint32(nts))
			ph := refmodel.EpicHVF(sigmaPH, p0.SL, p0.Infos[0].Timestamp, uint32(nts), p0.EpicCounter, p0.SrcIA, p0.SrcHost, uint16(p0.PayloadLen))
			lh := refmodel.EpicHVF(sigmaLH, p0.SL, p0.Infos[0].Timestamp, uint32(nts), p0.EpicCounter, p0.SrcIA, p0.SrcHost, uint16(p0.PayloadLen))
			copy(raw[off+8:], ph[:])
			copy(raw[off+12:], lh[:])
			desc = fmt.Sprintf("host clock off by %d ms", shiftMS)
			r.Fault("clock.skew")
		case 3:
			raw[p0.PathOff+8+r.Choice("epic.byte", 4)] ^= byte(1 << r.Choice("epic.bit", 8))
			desc = "PHVF tampered"
			r.Fault("pkt.tamper.phvf")
		case 4:
			raw[p0.PathOff+12+r.Choice("epic.byte", 4)] ^= byte(1 << r.Choice("epic.bit", 8))
			desc = "LHVF tampered"
			r.Fault("pkt.tamper.lhvf")
		case 5:
			raw[p0.PathOff+4+r.Choice("epic.byte", 4)] ^= byte(1 << r.Choice("epic.bit", 8))
			desc = "packet counter tampered"
			r.Fault("pkt.tamper.pktid")
		case 6:
			desc = "delayed in flight"
		case 7: // extreme packet timestamps from an authorised host
			nts := []uint32{0, 1, 0xffffffff, 0xfffffffe, 0x80000000, 0x7fffffff}[r.Choice("epic.extreme", 6)]
			off := p0.PathOff
			binary.BigEndian.PutUint32(raw[off:], nts)
			ph := refmodel.EpicHVF(sigmaPH, p0.SL, p0.Infos[0].Timestamp, nts, p0.EpicCounter, p0.SrcIA, p0.SrcHost, uint16(p0.PayloadLen))
			lh := refmodel.EpicHVF(sigmaLH, p0.SL, p0.Infos[0].Timestamp, nts, p0.EpicCounter, p0.SrcIA, p0.SrcHost, uint16(p0.PayloadLen))
			copy(raw[off+8:], ph[:])
			copy(raw[off+12:], lh[:])
			desc = fmt.Sprintf("extreme EpicTS %#x", nts)
			r.Fault("clock.skew")
		}
		delayAt, delay := -1, time.Duration(0)
		if variant == 6 || r.Chance("epic.delay", 1, 4) {
			delayAt = r.Choice("epic.delay.at", 8)
			delay = time.Duration(r.Choice("epic.delay.ms", 4000)) * time.Millisecond
		}
		r.Logf("epic flow %s -> %s via %s: %s", f.Src.IA, f.Dst.IA, describePath(f.Path), desc)
		// the same packet as a plain SCION-path packet, for the differential at the other hops
		plain, err := BuildPacket(PktSpec{SrcIA: f.Src.IA, DstIA: f.Dst.IA, Src: hostAddr(f.SH), Dst: hostAddr(f.DH), RawPath: f.Path.SCIONPath.Raw,
			SrcPort: f.SPort, DstPort: f.DPort, Payload: payload, FlowID: 3})
		if err != nil {
			panic(core.InfraError{Msg: err.Error()})
		}
		plainJ := w.Send(f.First, Ingress{Kind: InHost, Src: f.SH.UDPAddr(int(f.SPort))}, plain, nil)
		kk := 0
		w.OnHop = func(rec *HopRec) {
			if rec.Panic != "" {
				panic(core.InfraError{Msg: "router panic (C08): " + rec.Panic})
			}
			if r.Prop == "C07" {
				w.checkC07(r, rec) // EPIC packets in transit: only the mutable state of the embedded path changes
				if !rec.Reply && rec.Res.Disposition == router.VerifForward && !rec.Res.SlowPath {
					r.Probe("c07-epic-traversal")
				}
				return
			}
			p, err := refmodel.Parse(rec.InRaw)
			if err != nil || p.PathType != refmodel.PathEPIC || rec.Reply {
				return
			}
			st := epicCheck(p, sigmaPH, sigmaLH, rec.At)
			// which hop fields does this router validate for this input?
			validates := map[int]bool{p.CurrHF: true}
			if p.IsLastHopOfSeg(p.CurrHF) && p.CurrHF+1 < p.NumHops && !isPeerHop(p, p.CurrHF) && p.DstIA != uint64(rec.Router.AS.IA) {
				validates[p.CurrHF+1] = true
			}
			pen, last := validates[p.NumHops-2], validates[p.NumHops-1]
			forwarded := rec.Res.Disposition == router.VerifForward && !rec.Res.SlowPath
			// the AS accepts the packet when it leaves the AS or is delivered; a hand-over to the sibling
			// router that owns the egress interface is not yet an acceptance (that router checks again)
			accepted := forwarded && rec.Res.EgressLink.Scope() != router.Sibling
			if pen {
				r.Covered(fmt.Sprintf("penultimate/xover%v/fresh%v/phvf%v", len(validates) == 2, st.Fresh, st.PHVFok))
			}
			if last {
				r.Covered(fmt.Sprintf("last/fresh%v/lhvf%v", st.Fresh, st.LHVFok))
			}
			if st.NearBound {
				return // instants at a bound are don't-care
			}
			if accepted && pen && (!st.Fresh || !st.PHVFok) {
				sig := "penultimate-unchecked"
				if len(validates) == 2 {
					sig = "penultimate-unchecked-at-crossover"
				}
				r.Fail("c13-penultimate", sig, "%s %s validated the penultimate hop field (hop %d of %d, current %d) and forwarded although fresh=%v PHVF ok=%v (%s)",
					rec.Router.AS.IA, rec.Router.Name, p.NumHops-2, p.NumHops, p.CurrHF, st.Fresh, st.PHVFok, desc)
				return
			}
			if accepted && last && (!st.Fresh || !st.LHVFok) {
				r.Fail("c13-last", "last-unchecked", "%s %s delivered at the last hop although fresh=%v LHVF ok=%v (%s)", rec.Router.AS.IA, rec.Router.Name, st.Fresh, st.LHVFok, desc)
				return
			}
			// completeness and differential: where EPIC demands nothing more (or everything is in
			// order), the packet is treated exactly like its embedded SCION path
			// (only where the statement says so: at hops other than the penultimate and the last; an
			// honest packet dropped at those two - seen on peering paths - is counted, not judged)
			if (pen || last) && !forwarded && st.Fresh && st.PHVFok && st.LHVFok {
				r.Probe("c13-valid-epic-dropped-at-penultimate-or-last")
			}
			epicOK := !pen && !last
			if epicOK && delay == 0 && kk-1 < len(plainJ.Hops) {
				ref := plainJ.Hops[kk-1]
				if ref.Router == rec.Router {
					refFwd := ref.Res.Disposition == router.VerifForward && !ref.Res.SlowPath
					if refFwd != forwarded || ref.Res.Egress != rec.Res.Egress {
						r.Fail("c13-differential", "differs-from-scion-path", "%s %s treats the EPIC packet differently from the same packet with a plain SCION path: forwarded %v vs %v, egress %d vs %d (%s)",
							rec.Router.AS.IA, rec.Router.Name, forwarded, refFwd, rec.Res.Egress, ref.Res.Egress, desc)
					}
				}
			}
		}
		hook := func(next *Router, in Ingress, b []byte) []byte {
			if kk == delayAt && delay > 0 {
				time.Sleep(delay)
				r.Fault("pkt.delay")
			}
			kk++
			return b
		}
		j := w.Send(f.First, Ingress{Kind: InHost, Src: f.SH.UDPAddr(int(f.SPort))}, raw, hook)
		w.OnHop = nil
		n++
		if r.Failed() {
			break
		}
		// C03 leg: an EPIC request is answered by reversing its embedded SCION path
		if j.Delivered && !j.SCMP && r.Prop == "C03" {
			reply, err := reverseUDP(j.Final)
			if err != nil {
				panic(core.InfraError{Msg: "reversing EPIC packet: " + err.Error()})
			}
			jr := w.Send(j.Hops[len(j.Hops)-1].Router, Ingress{Kind: InHost, Src: f.DH.UDPAddr(int(f.DPort))}, reply, nil)
			if !jr.Delivered || jr.SCMP || jr.DstAS != f.Src || jr.Dst.Addr() != f.SH.Addr || !sameCrossings(jr.Crossings, f.Path.Metadata.Interfaces, true) {
				r.Fail("c03-reply-accepted", "epic-reply-not-accepted", "reply to an EPIC request on %s not delivered back: %s", describePath(f.Path), lastHop(jr))
				break
			}
		}
	}
	r.Nontrivial = n > 0
	r.Sample = map[string]any{"ases": len(w.ASes), "epic_packets": n}
}
