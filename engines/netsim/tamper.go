//go:build verif

package netsim

import (
	"encoding/binary"
	"fmt"
	"testing"
	"time"

	"verif/sim/core"
	"verif/sim/refmodel"
)

// tamperPlan: alter exactly one MAC-protected value ahead of the packet's current position, at a
// seed-chosen point of its journey.
type tamperPlan struct {
	at      int // router traversal index before which the alteration is applied
	field   int // 0 consIngress 1 consEgress 2 expTime 3 mac 4 timestamp 5 segID
	rel     int // which hop (relative to the current one) / which segment (relative to the current)
	bit     int
	applied bool
	desc    string
	depHop  int // first hop (absolute index) whose MAC input depends on the altered value
}

var tamperFields = []string{"consingress", "consegress", "exptime", "mac", "timestamp", "segid"}

func (tp *tamperPlan) apply(r *core.Run, raw []byte) []byte {
	p, err := refmodel.Parse(raw)
	if err != nil || !p.HasSCION {
		return raw
	}
	out := append([]byte(nil), raw...)
	cur := p.CurrHF
	switch tp.field {
	case 0, 1, 2, 3:
		t := cur + tp.rel%(p.NumHops-cur)
		hf := p.Hops[t]
		var off, width int
		switch tp.field {
		case 0:
			off, width = hf.Off+2, 16
		case 1:
			off, width = hf.Off+4, 16
		case 2:
			off, width = hf.Off+1, 8
		case 3:
			off, width = hf.Off+6, 48
		}
		b := tp.bit % width
		out[off+b/8] ^= 0x80 >> (b % 8)
		tp.depHop = t
		tp.desc = fmt.Sprintf("hop %d %s bit %d (current hop %d)", t, tamperFields[tp.field], b, cur)
	case 4, 5:
		s := p.CurrINF + tp.rel%(p.NumINF-p.CurrINF)
		inf := p.Infos[s]
		off, width := inf.Off+4, 32
		if tp.field == 5 {
			off, width = inf.Off+2, 16
		}
		b := tp.bit % width
		out[off+b/8] ^= 0x80 >> (b % 8)
		// first hop of that segment that is still to be validated
		tp.depHop = max(cur, p.SegStart(s))
		tp.desc = fmt.Sprintf("info %d %s bit %d (current hop %d)", s, tamperFields[tp.field], b, cur)
	}
	tp.applied = true
	r.Fault("pkt.tamper." + tamperFields[tp.field])
	r.Logf("  tamper: %s", tp.desc)
	_ = binary.BigEndian
	return out
}

// runTamper serves C04 (single protected value altered => never delivered, stopped in time) and
// the invalid-traffic side of C01 (per-traversal reference-model invariant).
func runTamper(r *core.Run) {
	core.Bubble(r, func(t *testing.T) { tamper(r) })
}

func tamper(r *core.Run) {
	w, segs := setup(r, defaultKnobs(r), time.Duration(r.Choice("segage.s", 3600))*time.Second)
	flows := w.sampleFlows(r, segs, 4, 4)
	n := 0
	for _, f := range flows {
		if r.Failed() {
			break
		}
		// dry run: the untampered journey tells which AS validates which hop field
		dry := w.Send(f.First, Ingress{Kind: InHost, Src: f.SH.UDPAddr(int(f.SPort))}, f.Raw, nil)
		if !dry.Delivered || dry.SCMP {
			continue // C02's business
		}
		hopAS := map[int]*AS{} // hop index -> AS that validates it
		order := map[*AS]int{}
		for _, rec := range dry.Hops {
			if p, err := refmodel.Parse(rec.InRaw); err == nil && p.HasSCION {
				if _, ok := hopAS[p.CurrHF]; !ok {
					hopAS[p.CurrHF] = rec.Router.AS
				}
				if p.IsLastHopOfSeg(p.CurrHF) && p.CurrHF+1 < p.NumHops && !isPeerHop(p, p.CurrHF) {
					if _, ok := hopAS[p.CurrHF+1]; !ok {
						hopAS[p.CurrHF+1] = rec.Router.AS
					}
				}
			}
			if _, ok := order[rec.Router.AS]; !ok {
				order[rec.Router.AS] = len(order)
			}
		}
		for rep := 0; rep < 3 && !r.Failed(); rep++ {
			tp := &tamperPlan{at: r.Choice("tamper.at", len(dry.Hops)), field: r.Choice("tamper.field", 6),
				rel: r.Choice("tamper.rel", 64), bit: r.Choice("tamper.bit", 48)}
			k := 0
			hook := func(next *Router, in Ingress, raw []byte) []byte {
				if k == tp.at && !tp.applied {
					raw = tp.apply(r, raw)
				}
				k++
				return raw
			}
			r.Logf("flow %s -> %s via %s (tamper at traversal %d)", f.Src.IA, f.Dst.IA, describePath(f.Path), tp.at)
			j := w.Send(f.First, Ingress{Kind: InHost, Src: f.SH.UDPAddr(int(f.SPort))}, f.Raw, hook)
			n++
			w.judgeHops(r, j)
			if r.Failed() || !tp.applied || r.Prop != "C04" {
				continue
			}
			r.Covered(fmt.Sprintf("%s/rel%d", tamperFields[tp.field], min(tp.rel%4, 3)))
			if j.Delivered && !j.SCMP && j.DstAS == f.Dst && j.Dst.Addr() == f.DH.Addr {
				r.Fail("c04-delivered", "tampered-delivered:"+tamperFields[tp.field], "packet with altered %s was delivered to the destination host (path %s)", tp.desc, describePath(f.Path))
				break
			}
			// stopped no later than at the AS validating the first dependent hop field
			depAS := hopAS[tp.depHop]
			if depAS == nil {
				continue
			}
			for _, rec := range j.Hops {
				if rec.Reply {
					break
				}
				if order[rec.Router.AS] > order[depAS] {
					r.Fail("c04-late", "tampered-passed:"+tamperFields[tp.field], "packet with altered %s travelled past %s (which validates hop %d) into %s", tp.desc, depAS.IA, tp.depHop, rec.Router.AS.IA)
					break
				}
			}
		}
	}
	r.Nontrivial = n > 0
	r.Sample = map[string]any{"ases": len(w.ASes), "flows": len(flows), "tampered_packets": n}
}

// runExpiry serves C01: hop fields of different lifetimes, traffic sent around their expiry
// instants, clock advancing while packets are in flight.
func runExpiry(r *core.Run) {
	core.Bubble(r, func(t *testing.T) { expiry(r) })
}

func expiry(r *core.Run) {
	k := defaultKnobs(r)
	k.RandomMaxExp = true
	w := GenWorld(r, k)
	w.Build()
	w.OnHop = func(rec *HopRec) { w.judgeRec(r, rec) }
	w.SegJitter = time.Duration(r.Choice("segjitter.s", 4)) * 30 * time.Second
	minExp := uint8(255)
	for _, a := range w.ASes {
		minExp = min(minExp, a.MaxExp)
	}
	// the segment timestamp is placed so that "now" is within +-40 s of the expiry of the
	// shortest-lived hop fields; later hops expire as the clock advances
	life := time.Duration(int(minExp)+1) * (24 * time.Hour / 256)
	age := life + time.Duration(r.Choice("age.delta.s", 81)-40)*time.Second
	if age < 0 {
		age = 0
	}
	segs, err := w.GenSegments(r, time.Now().Add(-age), 6)
	if err != nil {
		panic(core.InfraError{Msg: "segments: " + err.Error()})
	}
	flows := w.sampleFlows(r, segs, 5, 6)
	n := 0
	for _, f := range flows {
		if r.Failed() {
			break
		}
		delayAt := r.Choice("delay.at", 6)
		k := 0
		hook := func(next *Router, in Ingress, raw []byte) []byte {
			if k == delayAt && r.FaultChance("pkt.delay", 1, 2) {
				d := time.Duration(1+r.Choice("delay.s", 400)) * time.Second
				time.Sleep(d) // the fake clock jumps
				r.Logf("  in flight for %v", d)
			}
			k++
			return raw
		}
		j := w.Send(f.First, Ingress{Kind: InHost, Src: f.SH.UDPAddr(int(f.SPort))}, f.Raw, hook)
		n++
		if r.Prop == "C10" && j.SCMP && !r.Failed() {
			// some router answered (path expired): the answer must reach the source host unless a
			// hop field on the way back has itself expired in the meantime
			var gen *HopRec
			for i := range j.Hops {
				if j.Hops[i].Res.SlowPath && !j.Hops[i].Reply {
					gen = &j.Hops[i]
					break
				}
			}
			last := j.Hops[len(j.Hops)-1]
			if gen != nil {
				r.Covered(fmt.Sprintf("expired-reply/ingress%d/code%d", gen.In.Kind, gen.Res.SPCode))
			}
			if j.Delivered && j.DstAS == f.Src && j.Dst.Addr() == f.SH.Addr {
				r.Probe("c10-expiry-reply-delivered")
			} else if last.Res.SlowPath && int(last.Res.SPCode) == codePathExpiredV {
				r.Probe("c10-expiry-reply-expired-on-the-way-back")
			} else if gen != nil {
				r.Fail("c10-reply-delivery", fmt.Sprintf("reply-not-delivered:code%d:ingress%d", gen.Res.SPCode, gen.In.Kind),
					"SCMP error (type %d code %d) generated by %s %s for a packet that arrived over %v was not delivered to the source host: %s",
					gen.Res.SPType, gen.Res.SPCode, gen.Router.AS.IA, gen.Router.Name, gen.In, lastHop(j))
			}
		}
		if r.Chance("clock.jump", 1, 4) {
			d := time.Duration(1+r.Choice("jump.s", 600)) * time.Second
			time.Sleep(d)
			r.Fault("clock.jump")
		}
	}
	r.Nontrivial = n > 0
	r.Sample = map[string]any{"ases": len(w.ASes), "flows": n, "min_exptime": minExp, "segment_age": age.String()}
}
