//go:build verif

package netsim

import (
	"context"
	"crypto"
	"crypto/ecdsa"
	"fmt"
	"hash"
	"io"
	"sync"
	"time"

	"github.com/scionproto/scion/control/beaconing"
	cryptopb "github.com/scionproto/scion/pkg/proto/crypto"
	"github.com/scionproto/scion/pkg/scrypto/cppki"
	"github.com/scionproto/scion/pkg/scrypto/signed"
	seg "github.com/scionproto/scion/pkg/segment"
	"github.com/scionproto/scion/pkg/segment/extensions/discovery"
	"github.com/scionproto/scion/private/topology"
	"verif/sim/core"
)

// rfc6979Key signs deterministically (rand == nil), so signatures do not depend on which
// goroutine or which run position signs first.
type rfc6979Key struct{ k *ecdsa.PrivateKey }

func (k rfc6979Key) Public() crypto.PublicKey { return k.k.Public() }
func (k rfc6979Key) Sign(_ io.Reader, digest []byte, opts crypto.SignerOpts) ([]byte, error) {
	return k.k.Sign(nil, digest, opts)
}

// lightSigner signs AS entries with the AS key through the real signed.Sign (no certificates:
// layer-1 worlds do not verify segment signatures; the PKI-backed signer is in simpki).
type lightSigner struct {
	a        *AS
	notAfter time.Time
}

func (s lightSigner) Sign(ctx context.Context, msg []byte, ad ...[]byte) (*cryptopb.SignedMessage, error) {
	l := 0
	for _, d := range ad {
		l += len(d)
	}
	hdr := signed.Header{SignatureAlgorithm: signed.ECDSAWithSHA256, Timestamp: time.Now(), AssociatedDataLength: l,
		VerificationKeyID: []byte(s.a.IA.String())}
	return signed.Sign(hdr, msg, rfc6979Key{s.a.SignKey}, ad...)
}

func (s lightSigner) Validity() cppki.Validity {
	return cppki.Validity{NotBefore: time.Unix(0, 0), NotAfter: s.notAfter}
}

// beaconState is the per-world state of beacon construction: one long-lived extender per AS (as in
// a control service, where originator and propagator share it) and, while several beacons are
// extended at the same time, the scheduler that interleaves them.
type beaconState struct {
	mu    sync.Mutex
	exts  map[*AS]*beaconing.DefaultExtender
	sched *core.Sched
}

var beaconStates sync.Map // *World -> *beaconState (worlds are per run; entries die with the world)

func (w *World) bstate() *beaconState {
	if v, ok := beaconStates.Load(w); ok {
		return v.(*beaconState)
	}
	bs := &beaconState{exts: map[*AS]*beaconing.DefaultExtender{}}
	beaconStates.Store(w, bs)
	return bs
}

// yieldHash wraps the hop-field MAC so that every operation on it is a scheduling point.
type yieldHash struct {
	hash.Hash
	bs *beaconState
}

func (y *yieldHash) yield(site string) {
	y.bs.mu.Lock()
	s := y.bs.sched
	y.bs.mu.Unlock()
	if s != nil {
		s.Yield(site)
	}
}
func (y *yieldHash) Write(b []byte) (int, error) { y.yield("mac.write"); return y.Hash.Write(b) }
func (y *yieldHash) Sum(b []byte) []byte         { y.yield("mac.sum"); return y.Hash.Sum(b) }
func (y *yieldHash) Reset()                      { y.yield("mac.reset"); y.Hash.Reset() }

// extenderOf returns the AS's long-lived real extender.
func (w *World) extenderOf(a *AS) *beaconing.DefaultExtender {
	bs := w.bstate()
	bs.mu.Lock()
	defer bs.mu.Unlock()
	if e := bs.exts[a]; e != nil {
		return e
	}
	e := a.Extender(a.MaxExp, time.Date(2100, 1, 1, 0, 0, 0, 0, time.UTC))
	inner := a.MacFac
	e.MAC = func() hash.Hash { return &yieldHash{Hash: inner(), bs: bs} }
	e.EPIC = w.EPIC
	bs.exts[a] = e
	return e
}

// Extender returns a fresh real beacon extender of the AS.
func (a *AS) Extender(maxExp uint8, signerNotAfter time.Time) *beaconing.DefaultExtender {
	return &beaconing.DefaultExtender{
		IA: a.IA,
		SignerGen: beaconing.SignerGenFunc(func(ctx context.Context) ([]beaconing.Signer, error) {
			return []beaconing.Signer{lightSigner{a, signerNotAfter}}, nil
		}),
		MAC:                  a.MacFac,
		Intfs:                a.IfState,
		MTU:                  uint16(a.MTU),
		MaxExpTime:           func() uint8 { return maxExp },
		Task:                 "sim",
		StaticInfo:           func() *beaconing.StaticInfoCfg { return nil },
		DiscoveryInformation: func() *discovery.Extension { return nil },
		EPIC:                 false,
	}
}

// Seg is a registered segment with simulator-side ground truth.
type Seg struct {
	PS     *seg.PathSegment
	ASes   []*AS    // in construction direction
	In, Eg []uint16 // cons ingress/egress per entry
	Core   bool
	// Betas[i] is the accumulator value the i-th AS used when it created its hop field
	// (recorded by the simulator from the beacon at that moment; see C22).
	Betas []uint16
}

func (a *AS) peerIfIDs() []uint16 {
	var out []uint16
	for _, id := range a.SortedIfIDs() {
		if a.Intfs[id].Type == topology.Peer {
			out = append(out, id)
		}
	}
	return out
}

// Segments holds everything registered in a world.
type Segments struct {
	Core []*Seg
	Down []*Seg // from a core AS down to ASes[len-1]; also usable as up segments of that AS
}

// walkSeg extends a fresh beacon along the given interface walk with each AS's real extender.
func (w *World) walkSeg(ts time.Time, segID uint16, ases []*AS, in, eg []uint16, coreSeg bool) (*Seg, error) {
	ps, err := seg.CreateSegment(ts, segID)
	if err != nil {
		return nil, err
	}
	s := &Seg{PS: ps, ASes: ases, In: in, Eg: eg, Core: coreSeg}
	ctx := context.Background()
	for i, a := range ases {
		var peers []uint16
		if !coreSeg {
			peers = a.peerIfIDs()
		}
		ext := w.extenderOf(a)
		// the accumulator value at this moment, derived by the simulator from the beacon as it is
		// (documented chaining rule: initial value, then XOR of the first two MAC bytes per entry)
		beta := ps.Info.SegmentID
		for _, e := range ps.ASEntries {
			beta ^= uint16(e.HopEntry.HopField.MAC[0])<<8 | uint16(e.HopEntry.HopField.MAC[1])
		}
		if err := ext.Extend(ctx, ps, in[i], eg[i], peers); err != nil {
			return nil, fmt.Errorf("extend at %s (in %d eg %d): %w", a.IA, in[i], eg[i], err)
		}
		e := ps.ASEntries[len(ps.ASEntries)-1]
		hf := e.HopEntry.HopField
		tsu := uint32(ps.Info.Timestamp.Unix())
		bs := w.bstate()
		bs.mu.Lock()
		w.consBeta[consKey(a, hf.MAC[:], hf.ConsIngress, hf.ConsEgress, tsu)] = beta
		s.Betas = append(s.Betas, beta)
		peerBeta := beta ^ (uint16(hf.MAC[0])<<8 | uint16(hf.MAC[1]))
		for _, pe := range e.PeerEntries {
			w.consBeta[consKey(a, pe.HopField.MAC[:], pe.HopField.ConsIngress, pe.HopField.ConsEgress, tsu)] = peerBeta
		}
		bs.mu.Unlock()
	}
	return s, nil
}

func consKey(a *AS, mac []byte, in, eg uint16, ts uint32) string {
	return fmt.Sprintf("%s/%x/%d/%d/%d", a.IA, mac, in, eg, ts)
}

// GenSegments produces core and down segments by beacon walks: origination at every core AS,
// propagation along seed-chosen simple walks, termination (registration) at every AS reached.
func (w *World) GenSegments(r *core.Run, ts time.Time, maxPerOrigin int) (*Segments, error) {
	out := &Segments{}
	defer beaconStates.Delete(w)
	type job struct {
		ts     time.Time
		segID  uint16
		ases   []*AS
		in, eg []uint16
		core   bool
	}
	var jobs []job
	for _, o := range w.ASes {
		if !o.Core {
			continue
		}
		// enumerate walks by DFS with a budget; the order of interfaces tried is a tape decision
		type frame struct {
			ases   []*AS
			in, eg []uint16
		}
		for _, coreWalk := range []bool{true, false} {
			count := 0
			var dfs func(f frame, depth int) error
			dfs = func(f frame, depth int) error {
				cur := f.ases[len(f.ases)-1]
				if len(f.ases) > 1 {
					// terminate here: a registered segment
					in := append([]uint16(nil), f.in...)
					eg := append(append([]uint16(nil), f.eg...), 0)
					segID := uint16(r.Choice("segid", 1<<16))
					sts := ts
					if w.SegJitter > 0 {
						// beacons are originated at different times: per-segment timestamps
						sts = ts.Add(-time.Duration(r.Choice("segts.jitter.s", int(w.SegJitter/time.Second)+1)) * time.Second)
					}
					jobs = append(jobs, job{sts, segID, append([]*AS(nil), f.ases...), in, eg, coreWalk})
					count++
				}
				if depth >= 4 || count >= maxPerOrigin {
					return nil
				}
				ids := cur.SortedIfIDs()
				// rotate the order by a tape decision so that which walks fit the budget varies
				if len(ids) > 1 {
					k := r.Choice("walk.rot", len(ids))
					ids = append(ids[k:], ids[:k]...)
				}
				for _, id := range ids {
					in := cur.Intfs[id]
					if coreWalk && in.Type != topology.Core {
						continue
					}
					if !coreWalk && in.Type != topology.Child {
						continue
					}
					nxt := in.Remote.AS
					seen := false
					for _, a := range f.ases {
						if a == nxt {
							seen = true
						}
					}
					if seen {
						continue
					}
					nf := frame{append(append([]*AS(nil), f.ases...), nxt),
						append(append([]uint16(nil), f.in...), in.Remote.ID),
						append(append([]uint16(nil), f.eg...), id)}
					if err := dfs(nf, depth+1); err != nil {
						return err
					}
					if count >= maxPerOrigin {
						return nil
					}
				}
				return nil
			}
			if err := dfs(frame{[]*AS{o}, []uint16{0}, nil}, 0); err != nil {
				return nil, err
			}
		}
	}
	// construction: one beacon at a time, or (ConcBeacon) a few at a time as real goroutines that the
	// seeded scheduler interleaves at every MAC operation of the ASes' shared extenders
	res := make([]*Seg, len(jobs))
	errs := make([]error, len(jobs))
	if !w.Knobs.ConcBeacon {
		for i, j := range jobs {
			if res[i], errs[i] = w.walkSeg(j.ts, j.segID, j.ases, j.in, j.eg, j.core); errs[i] != nil {
				return nil, errs[i]
			}
		}
	} else {
		bs := w.bstate()
		for start := 0; start < len(jobs); {
			n := min(2+r.Choice("beacon.batch", 3), len(jobs)-start)
			sched := core.NewSched()
			bs.mu.Lock()
			bs.sched = sched
			bs.mu.Unlock()
			for k := start; k < start+n; k++ {
				go func(k int) {
					sched.Register(fmt.Sprintf("walk:%d", k))
					defer sched.Done()
					sched.Yield("start")
					j := jobs[k]
					res[k], errs[k] = w.walkSeg(j.ts, j.segID, j.ases, j.in, j.eg, j.core)
				}(k)
			}
			for steps := 0; ; steps++ {
				if sched.Step(r, nil) == nil {
					if bl := sched.Blocked(); len(bl) > 0 {
						panic(core.InfraError{Msg: "beacon walk blocked outside a yield point: " + bl[0].Name})
					}
					break
				}
				if steps > 200000 {
					panic(core.InfraError{Msg: "beacon construction does not end"})
				}
			}
			bs.mu.Lock()
			bs.sched = nil
			bs.mu.Unlock()
			r.Probe("beacons-extended-concurrently")
			for k := start; k < start+n; k++ {
				if errs[k] != nil {
					return nil, errs[k]
				}
			}
			start += n
		}
	}
	for i, j := range jobs {
		if j.core {
			out.Core = append(out.Core, res[i])
		} else {
			out.Down = append(out.Down, res[i])
		}
	}
	return out, nil
}

// SegsFor returns the segment sets a path lookup from src to dst would be given.
func (s *Segments) SegsFor(src, dst *AS) (ups, cores, downs []*seg.PathSegment) {
	for _, d := range s.Down {
		last := d.ASes[len(d.ASes)-1]
		if last == src && !src.Core {
			ups = append(ups, d.PS)
		}
		if last == dst && !dst.Core {
			downs = append(downs, d.PS)
		}
	}
	for _, c := range s.Core {
		cores = append(cores, c.PS)
	}
	return
}
