//go:build verif

package chainsim

import (
	"context"
	"crypto/x509"
	"errors"
	"fmt"
	"net"
	"sync/atomic"
	"testing/synctest"
	"time"

	"github.com/scionproto/scion/pkg/addr"
	"github.com/scionproto/scion/pkg/scrypto/cppki"
	"github.com/scionproto/scion/pkg/snet"
	"github.com/scionproto/scion/private/storage/db"
	"github.com/scionproto/scion/private/storage/trust/sqlite"
	"github.com/scionproto/scion/private/trust"
	"verif/sim/core"
)

var dbSeq atomic.Int64

// newTrustDB opens a fresh real sqlite trust database in memory (unique name per process).
func newTrustDB() sqlite.DB {
	d, err := sqlite.New(fmt.Sprintf("chainsim-%d", dbSeq.Add(1)), &db.SqliteConfig{InMemory: true,
		MaxOpenReadConns: 1})
	if err != nil {
		infra("opening trust db: %v", err)
	}
	return d
}

var (
	ia111 = addr.MustParseIA("1-ff00:0:111")
	ia112 = addr.MustParseIA("1-ff00:0:112")
)

// populate draws the CA pool and the chain pool. misIssue enables mis-issued material.
func (w *world) populate(nCA, nChains, keysPerAS int, misIssue bool) {
	w.populateOpt(nCA, nChains, keysPerAS, misIssue, misIssue)
}

// populateOpt: misIssue enables certificate-level defects, shapes enables chain-shape defects.
func (w *world) populateOpt(nCA, nChains, keysPerAS int, misIssue, shapes bool) {
	r := w.r
	if w.ias == nil {
		w.ias = []addr.IA{ia111, ia112}
	}
	for _, ia := range w.ias {
		for k := 0; k < keysPerAS && len(w.asKeys[ia.String()]) < keysPerAS; k++ {
			w.asKeys[ia.String()] = append(w.asKeys[ia.String()], newKey(fmt.Sprintf("%s/k%d", ia, k)))
		}
	}
	for i := 0; i < nCA; i++ {
		// mostly a root of some TRC of the history, sometimes any root of the pool
		tr := w.trcs[r.Choice("ca.trc", len(w.trcs))]
		root := tr.roots[r.Choice("ca.trcroot", len(tr.roots))]
		if r.Chance("ca.anyroot", 1, 5) {
			root = w.roots[r.Choice("ca.root", len(w.roots))]
		}
		defect := ""
		if misIssue && i > 0 {
			switch d := r.Choice("ca.defect", 20); {
			case d == 1:
				root = w.rogue
			case d == 2:
				defect = "forged-ca-sig"
			case d >= 3 && d < 3+len(caDefects):
				defect = caDefects[d-3]
			}
		}
		nb := -24 * r.Choice("ca.age", 10)
		na := nb + 24*[]int{90, 25, 40, 15}[r.Choice("ca.len", 4)]
		ca := w.newCA(fmt.Sprintf("ca%d", i), root, window{nb, na}, defect)
		w.cas = append(w.cas, ca)
		r.Logf("CA %s root=%s valid %v defect=%q genuine=%v", ca.name, root.name, ca.win, ca.defect, ca.genuine)
	}
	for i := 0; i < nChains; i++ {
		w.drawChain(fmt.Sprintf("ch%d", i), misIssue, shapes)
	}
}

func (w *world) drawChain(name string, misIssue, shapes bool) *chainEnt {
	r := w.r
	ia := w.ias[r.Choice("chain.ia", len(w.ias))]
	keys := w.asKeys[ia.String()]
	key := keys[r.Choice("chain.key", len(keys))]
	if w.shareKeys && !ia.Equal(ia111) {
		k111 := w.asKeys[ia111.String()]
		key = k111[r.Choice("chain.sharedkey", len(k111))]
	}
	ca := w.cas[r.Choice("chain.ca", len(w.cas))]
	nb := max(ca.win.nb, 24*(r.Choice("chain.start", 30)-4))
	na := nb + 24*[]int{30, 3, 8, 15, 1}[r.Choice("chain.len", 5)]
	na = min(na, ca.win.na)
	if nb >= na {
		nb = max(ca.win.nb, na-48)
	}
	defect := ""
	if misIssue {
		switch d := r.Choice("chain.defect", 3*(len(asDefects)+len(shapeDefects))); {
		case d == 0:
		case d <= len(asDefects):
			defect = asDefects[d-1]
		case d <= len(asDefects)+len(shapeDefects) && shapes:
			defect = shapeDefects[d-1-len(asDefects)]
		}
	}
	ch := w.newChain(name, ia, key, ca, window{nb, na}, defect)
	w.chains = append(w.chains, ch)
	r.Logf("chain %s ia=%s key=%s ca=%s valid %v defect=%q fp=%s", ch.name, ia, key.name, ca.name, ch.asWin, ch.defect, fp(ch.certs))
	w.sample.CAs = len(w.cas)
	if len(w.sample.Chains) >= 6 {
		return ch
	}
	w.sample.Chains = append(w.sample.Chains, fmt.Sprintf("%s %s ca=%s(%s) valid %v defect=%q", ch.name, ia, ca.name, ca.root.name, ch.asWin, ch.defect))
	return ch
}

// byFP identifies chains handed out by the code under test.
func (w *world) byFP() map[string]*chainEnt {
	m := map[string]*chainEnt{}
	for _, c := range w.chains {
		m[fp(c.certs)] = c
	}
	return m
}

// sleepUntil advances the simulated clock.
func sleepUntil(t time.Time) {
	if d := time.Until(t); d > 0 {
		time.Sleep(d)
	}
	synctest.Wait()
}

// insertDueTRCs makes the TRCs that have arrived by now known to a trust database, in order.
func (w *world) insertDueTRCs(ctx context.Context, d trust.DB, have *int, now time.Time) {
	for *have < len(w.trcs) && now.After(h(w.trcs[*have].arrival)) {
		t := w.trcs[*have]
		if _, err := d.InsertTRC(ctx, t.signed); err != nil {
			infra("inserting TRC: %v", err)
		}
		w.r.Logf("  TRC S%d arrives", t.serial)
		*have++
	}
}

// ---- seams of the fetching provider, played by the simulator ----

type recurserStub struct{ deny bool }

func (s *recurserStub) AllowRecursion(net.Addr) error {
	if s.deny {
		return errors.New("sim: recursion denied")
	}
	return nil
}

type routerStub struct{ fail bool }

func (s *routerStub) ChooseServer(context.Context, addr.ISD) (net.Addr, error) {
	if s.fail {
		return nil, errors.New("sim: no path to authoritative server")
	}
	return &snet.SVCAddr{IA: addr.MustParseIA("1-ff00:0:110"), SVC: addr.SvcCS}, nil
}

// fetcherStub is the remote trust-material server plus the transport to it.
type fetcherStub struct {
	r *core.Run
	w *world
	// remote: chains the remote server holds. The honest server answers with those matching the query.
	remote []*chainEnt
	// per-call fault plan, set by the campaign before the call
	fail   bool
	extra  []*chainEnt // forged / wrong chains added to the answer
	calls  int
	answer []*chainEnt
}

func matches(c *chainEnt, q trust.ChainQuery) bool {
	if len(c.certs) != 2 || c.certs[0] != c.as {
		return false
	}
	if c.defect == "as-no-ia" || !c.ia.Equal(q.IA) {
		return false
	}
	if len(q.SubjectKeyID) != 0 && string(q.SubjectKeyID) != string(c.key.skid) {
		return false
	}
	if !q.Validity.IsZero() && (q.Validity.NotBefore.Before(c.asNB) || q.Validity.NotAfter.After(c.asNA)) {
		return false
	}
	return true
}

func (f *fetcherStub) Chains(_ context.Context, q trust.ChainQuery, _ net.Addr) ([][]*x509.Certificate, error) {
	f.calls++
	f.answer = nil
	if f.fail {
		f.r.Logf("    fetch chains: transport failure")
		return nil, errors.New("sim: fetch failed")
	}
	var out [][]*x509.Certificate
	for _, c := range f.remote {
		if matches(c, q) {
			out = append(out, c.certs)
			f.answer = append(f.answer, c)
		}
	}
	for _, c := range f.extra {
		out = append(out, c.certs)
		f.answer = append(f.answer, c)
	}
	f.r.Logf("    fetch chains: %d in answer", len(out))
	return out, nil
}

func (f *fetcherStub) TRC(_ context.Context, id cppki.TRCID, _ net.Addr) (cppki.SignedTRC, error) {
	if f.fail {
		return cppki.SignedTRC{}, errors.New("sim: fetch failed")
	}
	for _, t := range f.w.trcs {
		if t.signed.TRC.ID == id {
			return t.signed, nil
		}
	}
	return cppki.SignedTRC{}, errors.New("sim: no such TRC")
}
