//go:build verif

package chainsim

import (
	"context"
	"crypto/x509"
	"encoding/pem"
	"fmt"
	"os"
	"path/filepath"
	"sort"
	"strings"
	"testing"
	"time"

	"github.com/scionproto/scion/pkg/scrypto/cppki"
	"github.com/scionproto/scion/private/trust"
	"verif/sim/core"
)

// ---------------------------------------------------------------------------------------------
// C34/verify: cppki.ValidateChain / VerifyChain on pools of correct and mis-issued chains, against
// single TRCs and TRC pairs of the history, at explicit verification times and at the simulated clock.
// ---------------------------------------------------------------------------------------------

func runC34Verify(r *core.Run) {
	core.Bubble(r, func(t *testing.T) {
		w := newWorld(r, 1)
		w.populate(2+r.Choice("pool.cas", 4), 4+r.Choice("pool.chains", 10), 1, true)
		for _, c := range w.chains {
			err := cppki.ValidateChain(c.certs)
			want := !c.structural()
			r.Logf("validate %s defect=%q -> ok=%v", c.name, c.defect, err == nil)
			r.Covered("validate:" + c.defect)
			if (err == nil) != want {
				r.Fail("c34-validate-chain", "validate:"+c.defect,
					"ValidateChain(%s, defect %q) = %v, ground truth well-formed=%v", c.name, c.defect, err, want)
				return
			}
		}
		acc, rej := 0, 0
		for _, at := range w.instants(3+r.Choice("instants", 6), w.horizon()) {
			sleepUntil(at)
			now := time.Now()
			r.SimNS = int64(now.Sub(epoch))
			for q := 0; q < 4; q++ {
				c := w.chains[r.Choice("q.chain", len(w.chains))]
				// TRC selection: one TRC of the history, or a (latest, predecessor) pair
				var sel []*trcEnt
				i := r.Choice("q.trc", len(w.trcs))
				sel = append(sel, w.trcs[i])
				if i > 0 && r.Chance("q.pair", 1, 3) {
					sel = append(sel, w.trcs[i-1])
				}
				opts := cppki.VerifyOptions{}
				for _, s := range sel {
					opts.TRC = append(opts.TRC, &s.signed.TRC)
				}
				vt := now
				mode := "clock"
				if r.Chance("q.explicit", 1, 2) {
					// explicit verification time, anywhere (also in the past of the simulated clock)
					hs := w.boundaries()
					vt = h(hs[r.Choice("q.bound", len(hs))]).Add([]time.Duration{time.Second, -time.Second,
						3*hour + time.Minute, -26*hour - time.Second}[r.Choice("q.off", 4)])
					opts.CurrentTime = vt
					mode = "explicit"
				}
				want := false
				for _, s := range sel {
					want = want || c.verifies(s, vt)
				}
				err := cppki.VerifyChain(c.certs, opts)
				r.Logf("verify %s defect=%q trcs=%s at %s (%s) -> ok=%v want=%v", c.name, c.defect, serials(sel),
					vt.Format(time.RFC3339), mode, err == nil, want)
				r.Covered(fmt.Sprintf("verify:%s:%v:%d", c.defect, want, len(sel)))
				if err == nil {
					acc++
				} else {
					rej++
				}
				if (err == nil) != want {
					chk := "c34-verify-accepts-bad"
					if want {
						chk = "c34-verify-rejects-good"
					}
					r.Fail(chk, "verify:"+c.defect, "VerifyChain(%s defect=%q, TRCs %s, t=%s) = %v; ground truth %v "+
						"(as %v ca %v root %s %v rootInTRC=%v genuine=%v)", c.name, c.defect, serials(sel),
						vt.Format(time.RFC3339), err, want, c.asWin, c.ca.win, c.ca.root.name, c.ca.root.win,
						sel[0].hasRoot(c.ca.root), c.ca.genuine)
					return
				}
			}
		}
		w.sample.Accepted, w.sample.Refused = acc, rej
		if acc > 0 && rej > 0 {
			r.Nontrivial = true
		}
		if acc > 0 && len(w.trcs) > 1 {
			r.Probe("accept-with-trc-history")
		}
	})
}

func serials(ts []*trcEnt) string {
	var s []string
	for _, t := range ts {
		s = append(s, fmt.Sprintf("S%d", t.serial))
	}
	return strings.Join(s, "+")
}

// ---------------------------------------------------------------------------------------------
// C34/provider and C34/fetch: the real trust.FetchingProvider over a real sqlite trust DB.
// ---------------------------------------------------------------------------------------------

type providerSim struct {
	r       *core.Run
	w       *world
	db      trust.DB
	have    int
	local   []*chainEnt // model of the chains stored in the DB
	inLocal map[*chainEnt]bool
	fetch   *fetcherStub
	rec     *recurserStub
	rtr     *routerStub
	prov    trust.FetchingProvider
	byfp    map[string]*chainEnt
}

func (p *providerSim) addLocal(c *chainEnt) {
	if p.inLocal[c] {
		return
	}
	p.inLocal[c] = true
	for _, x := range p.local {
		if fp(x.certs) == fp(c.certs) {
			return // the same certificates (two "CA certificate as leaf" chains of one CA)
		}
	}
	p.local = append(p.local, c)
}

func runC34Provider(r *core.Run) { runC34GetChains(r, false) }
func runC34Fetch(r *core.Run)    { runC34GetChains(r, true) }

func runC34GetChains(r *core.Run, faults bool) {
	core.Bubble(r, func(t *testing.T) {
		ctx := context.Background()
		w := newWorld(r, 1)
		w.populate(2+r.Choice("pool.cas", 4), 5+r.Choice("pool.chains", 10), 2, true)
		sdb := newTrustDB()
		defer sdb.Close()
		p := &providerSim{r: r, w: w, db: sdb, inLocal: map[*chainEnt]bool{}, byfp: w.byFP(),
			fetch: &fetcherStub{r: r, w: w}, rec: &recurserStub{}, rtr: &routerStub{}}
		p.prov = trust.FetchingProvider{DB: sdb, Recurser: p.rec, Fetcher: p.fetch, Router: p.rtr}
		// distribute the pool: some chains are already in the local DB (however they got there),
		// the others are held by the remote server
		for _, c := range w.chains {
			if r.Chance("chain.local", 1, 2) {
				ok, err := sdb.InsertChain(ctx, c.certs)
				r.Logf("db insert %s defect=%q -> %v %v", c.name, c.defect, ok, err != nil)
				if err == nil {
					p.addLocal(c)
				}
			} else {
				p.fetch.remote = append(p.fetch.remote, c)
			}
		}
		handed, refused := 0, 0
		for _, at := range w.instants(3+r.Choice("instants", 6), w.horizon()) {
			sleepUntil(at)
			now := time.Now()
			r.SimNS = int64(now.Sub(epoch))
			r.Logf("t=%s", now.Format(time.RFC3339))
			// TRC updates reach the store through the real NotifyTRC (fetch, verification against the
			// predecessor, insert) or are found in the DB; updates may be announced before they are valid
			for p.have > 0 && p.have < len(w.trcs) && now.After(h(w.trcs[p.have].arrival)) && r.Chance("trc.via-notify", 1, 2) {
				tr := w.trcs[p.have]
				p.fetch.fail, p.rec.deny, p.rtr.fail = false, false, false
				if err := p.prov.NotifyTRC(ctx, tr.signed.TRC.ID); err != nil {
					infra("NotifyTRC %v: %v", tr.signed.TRC.ID, err)
				}
				r.Logf("  TRC S%d arrives through NotifyTRC", tr.serial)
				r.Probe("trc-via-notify")
				p.have++
			}
			w.insertDueTRCs(ctx, sdb, &p.have, now)
			if l, _ := w.latestKnown(now); l != nil && now.Before(h(l.win.nb)) {
				r.Probe("announced-trc-not-yet-valid")
			}
			nq := 1 + r.Choice("queries", 3)
			for q := 0; q < nq; q++ {
				if r.Chance("op.load", 1, 6) {
					if !p.loadDir(ctx, now) {
						return
					}
					continue
				}
				h1, ok := p.query(ctx, now, faults)
				if !ok {
					return
				}
				if h1 > 0 {
					handed++
				} else {
					refused++
				}
			}
		}
		w.sample.Accepted, w.sample.Refused = handed, refused
		if handed > 0 && refused > 0 {
			r.Nontrivial = true
		}
	})
}

// query performs one GetChains call and judges it. Returns the number of chains handed out.
func (p *providerSim) query(ctx context.Context, now time.Time, faults bool) (int, bool) {
	r, w := p.r, p.w
	ia := w.ias[r.Choice("q.ia", len(w.ias))]
	q := trust.ChainQuery{IA: ia}
	keys := w.asKeys[ia.String()]
	kname := "*"
	if k := r.Choice("q.key", len(keys)+1); k > 0 {
		q.SubjectKeyID = keys[k-1].skid
		kname = keys[k-1].name
	}
	switch r.Choice("q.validity", 3) {
	case 1:
		q.Validity = cppki.Validity{NotBefore: now, NotAfter: now}
	case 2:
		q.Validity = cppki.Validity{NotBefore: now.Add(-hour), NotAfter: now.Add(30 * hour)}
	}
	// fault plan for this call
	p.fetch.fail, p.fetch.extra, p.rec.deny, p.rtr.fail = false, nil, false, false
	faulted := false
	if faults {
		if r.FaultChance("fetch.fail", 1, 8) {
			p.fetch.fail, faulted = true, true
		}
		if r.FaultChance("recurse.deny", 1, 12) {
			p.rec.deny, faulted = true, true
		}
		if r.FaultChance("router.fail", 1, 12) {
			p.rtr.fail, faulted = true, true
		}
		if r.Chance("fault.fetch.forged", 1, 3) {
			// the remote answers with additional material that was not asked for or is mis-issued
			n := 1 + r.Choice("forged.n", 2)
			for i := 0; i < n; i++ {
				c := w.chains[r.Choice("forged.chain", len(w.chains))]
				kind := "fetch.wrong"
				if c.defect != "" {
					kind = "fetch.forged." + c.defect
				}
				p.fetch.extra = append(p.fetch.extra, c)
				r.Fault(kind)
			}
			faulted = true
		}
	}
	calls := p.fetch.calls
	latest, pred := w.latestKnown(now)
	// expected answer from the local store
	var expLocal []*chainEnt
	for _, c := range p.local {
		if ok, _ := w.active(c, now); ok && matches(c, q) {
			expLocal = append(expLocal, c)
		}
	}
	got, err := p.prov.GetChains(ctx, q)
	fetched := p.fetch.calls > calls
	r.Logf("  GetChains ia=%s key=%s val=%v -> %d chains err=%v fetched=%v (latest %s)", ia, kname,
		!q.Validity.IsZero(), len(got), err != nil, fetched, trcName(latest))
	// soundness: everything handed out verifies against the active TRC(s) now
	var gotEnts []*chainEnt
	for _, g := range got {
		c := p.byfp[fp(g)]
		if c == nil {
			r.Fail("c34-unknown-chain", "unknown", "GetChains handed out a chain nobody issued: %s", fp(g))
			return 0, false
		}
		ok, how := w.active(c, now)
		r.Covered(fmt.Sprintf("handout:%s:%s:%v", c.defect, how, fetched))
		if how == "grace" {
			r.Probe("grace-period-chain")
		}
		if !ok {
			r.Fail("c34-handed-out-unverifiable", "handout:"+c.defect+":"+how,
				"GetChains at %s handed out chain %s (defect %q, as %v, ca %s %v, root %s) although it does not verify: %s; latest %s pred %s",
				now.Format(time.RFC3339), c.name, c.defect, c.asWin, c.ca.name, c.ca.win, c.ca.root.name, how,
				trcName(latest), trcName(pred))
			return 0, false
		}
		gotEnts = append(gotEnts, c)
	}
	// what the answer should have been
	var exp []*chainEnt
	viaFetch := false
	if len(expLocal) > 0 {
		exp = expLocal
	} else if latest != nil && latest.win.contains(now) && !p.rec.deny && !p.rtr.fail && !p.fetch.fail {
		viaFetch = true
		for _, c := range p.fetch.answer {
			if ok, _ := w.active(c, now); ok {
				exp = append(exp, c)
			}
		}
	}
	if len(expLocal) > 0 && fetched {
		r.Fail("c34-needless-fetch", "needless-fetch", "verifiable chains were available locally but the provider fetched")
		return 0, false
	}
	if !sameChainSet(gotEnts, exp) && !(faulted && len(gotEnts) == 0 && err != nil) {
		r.Fail("c34-missing-chain", fmt.Sprintf("missing:%v", viaFetch),
			"GetChains at %s (ia %s key %s) handed out {%s}, ground truth {%s} (via fetch: %v, err %v)",
			now.Format(time.RFC3339), ia, kname, names(gotEnts), names(exp), viaFetch, err)
		return 0, false
	}
	if viaFetch {
		// verified fetched chains are stored; mis-issued ones must never reach the store
		for _, c := range exp {
			p.addLocal(c)
		}
		r.Probe("fetched")
		if len(exp) > 0 {
			r.Probe("fetched-verified")
		}
	}
	all, derr := p.db.Chains(ctx, trust.ChainQuery{})
	if derr != nil {
		infra("db.Chains: %v", derr)
	}
	if len(all) != len(p.local) {
		r.Fail("c34-store-content", "store", "trust DB holds %d chains, model %d (after GetChains)", len(all), len(p.local))
		return 0, false
	}
	return len(got), true
}

// loadDir writes some chains as PEM files into a directory and lets trust.LoadChains load them.
func (p *providerSim) loadDir(ctx context.Context, now time.Time) bool {
	r, w := p.r, p.w
	dir, err := os.MkdirTemp("", "chainsim-load")
	if err != nil {
		infra("tempdir: %v", err)
	}
	defer os.RemoveAll(dir)
	n := 1 + r.Choice("load.n", 3)
	files := map[string]*chainEnt{}
	for i := 0; i < n; i++ {
		c := w.chains[r.Choice("load.chain", len(w.chains))]
		if r.Chance("load.prefer-active", 1, 2) {
			for _, x := range w.chains {
				if ok, _ := w.active(x, now); ok && !p.inLocal[x] {
					c = x
					break
				}
			}
		}
		var buf []byte
		for _, x := range c.certs {
			buf = append(buf, pem.EncodeToMemory(&pem.Block{Type: "CERTIFICATE", Bytes: x.Raw})...)
		}
		name := fmt.Sprintf("f%d-%s.pem", i, c.name)
		if err := os.WriteFile(filepath.Join(dir, name), buf, 0o644); err != nil {
			infra("write: %v", err)
		}
		files[name] = c
	}
	res, err := trust.LoadChains(ctx, dir, p.db)
	var loaded []string
	for _, f := range res.Loaded {
		loaded = append(loaded, filepath.Base(f))
	}
	sort.Strings(loaded)
	r.Logf("  LoadChains %d files -> loaded %v err=%v", n, loaded, err != nil)
	isLoaded := map[string]bool{}
	for _, f := range loaded {
		isLoaded[f] = true
	}
	seen := map[*chainEnt]bool{}
	for _, name := range core.SortedKeys(files) {
		c := files[name]
		ok, how := w.active(c, now)
		if isLoaded[name] && !ok {
			r.Fail("c34-loaded-unverifiable", "load:"+c.defect+":"+how,
				"LoadChains at %s stored chain %s (defect %q) although it does not verify: %s",
				now.Format(time.RFC3339), c.name, c.defect, how)
			return false
		}
		want := ok && !p.inLocal[c] && !seen[c]
		if want != isLoaded[name] {
			r.Fail("c34-load-mismatch", "load-mismatch:"+c.defect, "LoadChains at %s: file %s (chain %s defect %q, %s) loaded=%v, ground truth %v; ignored: %v",
				now.Format(time.RFC3339), name, c.name, c.defect, how, isLoaded[name], want,
				strings.ReplaceAll(fmt.Sprint(res.Ignored[filepath.Join(dir, name)]), dir, "<dir>"))
			return false
		}
		if isLoaded[name] {
			seen[c] = true
			r.Probe("dir-loaded")
		}
		r.Covered(fmt.Sprintf("load:%s:%s", c.defect, how))
	}
	for c := range seen {
		p.inLocal[c] = true
	}
	for _, name := range core.SortedKeys(files) {
		if c := files[name]; seen[c] {
			seen[c] = false
			p.local = append(p.local, c)
		}
	}
	return true
}

func trcName(t *trcEnt) string {
	if t == nil {
		return "none"
	}
	return fmt.Sprintf("S%d%v+%dh", t.serial, t.win, t.grace)
}

func names(cs []*chainEnt) string {
	var s []string
	for _, c := range cs {
		s = append(s, c.name)
	}
	sort.Strings(s)
	return strings.Join(s, ",")
}

func sameChainSet(a, b []*chainEnt) bool {
	return names(a) == names(b)
}

var _ = x509.ParseCertificate
