//go:build verif

package chainsim

import (
	"bytes"
	"context"
	"crypto"
	"crypto/x509"
	"errors"
	"fmt"
	"testing"
	"time"

	"google.golang.org/protobuf/proto"

	"github.com/scionproto/scion/pkg/addr"
	cryptopb "github.com/scionproto/scion/pkg/proto/crypto"
	"github.com/scionproto/scion/pkg/scrypto/cppki"
	"github.com/scionproto/scion/private/trust"
	"verif/sim/core"
)

// keyRingStub is the trust.KeyRing seam.
type keyRingStub struct {
	keys []crypto.Signer
	fail bool
}

func (k *keyRingStub) PrivateKeys(context.Context) ([]crypto.Signer, error) {
	if k.fail {
		return nil, errors.New("sim: key directory unreadable")
	}
	return k.keys, nil
}

// faultyDB wraps the real trust DB and fails single calls on demand.
type faultyDB struct {
	trust.DB
	failChains, failTRC bool
}

func (d *faultyDB) Chains(ctx context.Context, q trust.ChainQuery) ([][]*x509.Certificate, error) {
	if d.failChains {
		return nil, errors.New("sim: db read failed")
	}
	return d.DB.Chains(ctx, q)
}

func (d *faultyDB) SignedTRC(ctx context.Context, id cppki.TRCID) (cppki.SignedTRC, error) {
	if d.failTRC {
		return cppki.SignedTRC{}, errors.New("sim: db read failed")
	}
	return d.DB.SignedTRC(ctx, id)
}

type liveSigner struct {
	s     trust.Signer
	exp   time.Time
	key   string
	chain *chainEnt
}

func runC36Signer(r *core.Run) { runC36(r, false) }
func runC36Faulty(r *core.Run) { runC36(r, true) }

func runC36(r *core.Run, faults bool) {
	core.Bubble(r, func(t *testing.T) {
		ctx := context.Background()
		w := newWorld(r, 1)
		w.ias = []addr.IA{ia111, ia111, ia111, ia112} // most chains belong to the AS that generates signers
		w.shareKeys = r.Chance("pool.sharekeys", 1, 2)
		// chain pool: both ASes share the CA pool; mis-issued chains are present in the store as well
		w.populate(2+r.Choice("pool.cas", 3), 4+r.Choice("pool.chains", 9), 1+r.Choice("pool.keys", 3), r.Chance("pool.misissue", 1, 2))
		ia := ia111
		sdbReal := newTrustDB()
		defer sdbReal.Close()
		vdb := newTrustDB()
		defer vdb.Close()
		sdb := &faultyDB{DB: sdbReal}
		haveS, haveV := 0, 0
		var stored []*chainEnt
		for _, c := range w.chains {
			if _, err := sdbReal.InsertChain(ctx, c.certs); err == nil {
				stored = append(stored, c)
			}
		}
		byfp := w.byFP()
		ring := &keyRingStub{}
		keys := w.asKeys[ia.String()]
		nring := 1 + r.Choice("ring.size", len(keys))
		for _, k := range keys[:nring] {
			ring.keys = append(ring.keys, k.priv)
		}
		gen := trust.SignerGen{IA: ia, KeyRing: ring, DB: sdb}
		vfetch := &fetcherStub{r: r, w: w, remote: w.chains}
		vprov := trust.FetchingProvider{DB: vdb, Recurser: &recurserStub{}, Fetcher: vfetch, Router: &routerStub{}}
		verifier := trust.Verifier{BoundIA: ia, Engine: vprov}
		other := trust.Verifier{BoundIA: ia112, Engine: vprov}

		var live []liveSigner
		generated := 0
		insts := w.instants(3+r.Choice("instants", 6), w.horizon())
		for _, at := range insts {
			if !time.Now().Before(at) {
				continue // the clock already moved past this instant while a signer's expiry was observed
			}
			sleepUntil(at)
			now := time.Now()
			r.SimNS = int64(now.Sub(epoch))
			r.Logf("t=%s", now.Format(time.RFC3339))
			w.insertDueTRCs(ctx, sdbReal, &haveS, now)
			w.insertDueTRCs(ctx, vdb, &haveV, now)
			latest, pred := w.latestKnown(now)

			// signers generated earlier: signing works exactly until the expiry
			if len(live) > 0 {
				ls := live[r.Choice("old.signer", len(live))]
				_, err := ls.s.Sign(ctx, []byte("later"))
				r.Logf("  earlier signer key=%s exp=%s signs: %v", ls.key, ls.exp.Format(time.RFC3339), err == nil)
				if (err == nil) != now.Before(ls.exp) {
					r.Fail("c36-sign-vs-expiry", "sign-after-expiry", "signer (key %s, expiration %s) Sign at %s: err=%v",
						ls.key, ls.exp.Format(time.RFC3339), now.Format(time.RFC3339), err)
					return
				}
				if err != nil {
					r.Probe("sign-refused-after-expiry")
				}
			}

			// faults for this Generate call
			ring.fail, sdb.failChains, sdb.failTRC = false, false, false
			extraKey := false
			faulted := false
			if faults {
				if r.FaultChance("keyring.fail", 1, 10) {
					ring.fail, faulted = true, true
				}
				if r.FaultChance("db.fail.chains", 1, 10) {
					sdb.failChains, faulted = true, true
				}
				if r.FaultChance("db.fail.trc", 1, 10) {
					sdb.failTRC, faulted = true, true
				}
				if r.FaultChance("keyring.stranger", 1, 6) {
					extraKey = true
				}
			}
			ringKeys := ring.keys
			if extraKey {
				ring.keys = append([]crypto.Signer{newKey("stranger").priv}, ring.keys...)
			}
			signers, err := gen.Generate(ctx)
			ring.keys = ringKeys
			ring.fail, sdb.failChains, sdb.failTRC = false, false, false
			r.Logf("  Generate -> %d signers err=%v (latest %s, pred %s)", len(signers), err != nil, trcName(latest), trcName(pred))
			if err != nil && len(signers) > 0 {
				r.Fail("c36-error-with-signers", "err+signers", "Generate returned both signers and an error")
				return
			}

			// ground truth per key of the ring
			type want struct {
				elig  []*chainEnt
				grace bool
			}
			wants := map[string]*want{}
			anyWant := false
			latestValid := latest != nil && latest.win.contains(now)
			for _, k := range keys[:nring] {
				wt := &want{}
				if latestValid {
					for _, c := range stored {
						if matches(c, trust.ChainQuery{IA: ia, SubjectKeyID: k.skid}) && c.asValid(now) && c.verifies(latest, now) {
							wt.elig = append(wt.elig, c)
						}
					}
					if len(wt.elig) == 0 && latest.inGrace(now) && pred != nil {
						for _, c := range stored {
							if matches(c, trust.ChainQuery{IA: ia, SubjectKeyID: k.skid}) && c.asValid(now) && c.verifies(pred, now) {
								wt.elig = append(wt.elig, c)
								wt.grace = true
							}
						}
					}
				}
				wants[string(k.skid)] = wt
				anyWant = anyWant || len(wt.elig) > 0
			}
			seenKey := map[string]bool{}
			for _, s := range signers {
				kn := "?"
				for _, k := range keys {
					if bytes.Equal(k.skid, s.SubjectKeyID) {
						kn = k.name
					}
				}
				wt := wants[string(s.SubjectKeyID)]
				c := byfp[fp(s.Chain)]
				if wt == nil || c == nil || seenKey[kn] {
					r.Fail("c36-foreign-signer", "foreign", "Generate returned a signer for key %s / chain %s that is not in the key ring or store (or twice)", kn, fp(s.Chain))
					return
				}
				seenKey[kn] = true
				r.Logf("    signer key=%s chain=%s exp=%s grace=%v", kn, c.name, s.Expiration.Format(time.RFC3339), s.InGrace)
				pub, _ := s.PrivateKey.Public().(interface{ Equal(crypto.PublicKey) bool })
				if pub == nil || !pub.Equal(c.as.PublicKey) || !s.IA.Equal(ia) || !c.ia.Equal(ia) {
					r.Fail("c36-key-not-authenticated", "key-mismatch", "signer for %s uses chain %s (ia %s) which does not authenticate its private key for %s", kn, c.name, c.ia, ia)
					return
				}
				in := false
				var best time.Time
				for _, e := range wt.elig {
					in = in || e == c
					if e.asNA.After(best) {
						best = e.asNA
					}
				}
				if !in {
					ok, how := w.active(c, now)
					r.Fail("c36-chain-not-verifiable", fmt.Sprintf("chain:%s:%s", c.defect, how),
						"signer for %s at %s is backed by chain %s (defect %q, as %v, ca %v root %s), which is not eligible: verifies now=%v (%s), eligible {%s} grace=%v; latest %s pred %s",
						kn, now.Format(time.RFC3339), c.name, c.defect, c.asWin, c.ca.win, c.ca.root.name, ok, how, names(wt.elig), wt.grace, trcName(latest), trcName(pred))
					return
				}
				if !c.asNA.Equal(best) {
					r.Fail("c36-not-latest-expiring", "not-latest", "signer for %s uses chain %s expiring %s, but eligible chain(s) {%s} expire later (%s)",
						kn, c.name, c.asNA.Format(time.RFC3339), names(wt.elig), best.Format(time.RFC3339))
					return
				}
				// expiry: earliest of the chain's expiry and the TRC validity; in grace also the
				// grace-period end and the predecessor's validity
				exp := minT(c.asNA, h(latest.win.na))
				if wt.grace {
					exp = minT(minT(c.asNA, h(latest.win.nb+latest.grace)), h(pred.win.na))
					r.Probe("grace-period-signer")
				}
				if s.InGrace != wt.grace {
					r.Fail("c36-grace-flag", "grace-flag", "signer for %s: InGrace=%v, ground truth %v", kn, s.InGrace, wt.grace)
					return
				}
				if !s.Expiration.Equal(exp) {
					r.Fail("c36-expiration", fmt.Sprintf("expiration:grace=%v", wt.grace), "signer for %s (chain %s, grace %v) has Expiration %s, statement gives %s (chain %s, latest %s, pred %s)",
						kn, c.name, wt.grace, s.Expiration.Format(time.RFC3339), exp.Format(time.RFC3339),
						c.asNA.Format(time.RFC3339), trcName(latest), trcName(pred))
					return
				}
				r.Covered(fmt.Sprintf("signer:grace=%v:nelig=%d:expBy=%s", wt.grace, min(len(wt.elig), 3), expBy(exp, c, latest, pred, wt.grace)))
				generated++
				live = append(live, liveSigner{s: s, exp: exp, key: kn, chain: c})

				// sign and verify
				msg := r.Tape.Bytes("msg", 4+4*r.Choice("msg.len", 4))
				var assoc [][]byte
				if r.Chance("msg.assoc", 1, 3) {
					assoc = [][]byte{[]byte("associated"), []byte("data")}
				}
				sm, serr := s.Sign(ctx, msg, assoc...)
				if (serr == nil) != now.Before(exp) {
					r.Fail("c36-sign-vs-expiry", "sign-fresh", "fresh signer for %s (Expiration %s) Sign at %s: %v", kn,
						exp.Format(time.RFC3339), now.Format(time.RFC3339), serr)
					return
				}
				if serr != nil {
					r.Probe("born-expired")
					continue
				}
				if !c36Verify(r, ctx, verifier, other, vfetch, sm, msg, assoc, kn, faults) {
					return
				}
			}
			// completeness (not judged when a fault was injected into this call)
			if !faulted {
				for _, k := range keys[:nring] {
					if wt := wants[string(k.skid)]; len(wt.elig) > 0 && !seenKey[k.name] {
						r.Fail("c36-missing-signer", fmt.Sprintf("missing:grace=%v", wt.grace), "Generate at %s returned no signer for key %s although chain(s) {%s} are eligible (grace=%v); err=%v; latest %s pred %s",
							now.Format(time.RFC3339), k.name, names(wt.elig), wt.grace, err, trcName(latest), trcName(pred))
						return
					}
				}
				if !anyWant && err == nil {
					r.Fail("c36-no-error", "no-error", "Generate returned no error although no key has an eligible chain")
					return
				}
			} else if (ring.fail || sdb.failTRC) && err == nil {
				r.Fail("c36-fault-swallowed", "fault-swallowed", "Generate succeeded although the key ring / TRC lookup failed")
				return
			}

			// watch one fresh signer across its expiry (moves the clock)
			if n := len(live); n > 0 && r.Chance("watch.expiry", 1, 3) {
				ls := live[n-1]
				if ls.exp.Sub(now) < 400*day && now.Before(ls.exp.Add(-time.Second)) {
					sleepUntil(ls.exp.Add(-time.Second))
					_, e1 := ls.s.Sign(ctx, []byte("just before"))
					sleepUntil(ls.exp.Add(time.Second))
					_, e2 := ls.s.Sign(ctx, []byte("just after"))
					r.Logf("  watch expiry of %s at %s: before ok=%v after ok=%v", ls.key, ls.exp.Format(time.RFC3339), e1 == nil, e2 == nil)
					r.Probe("watched-expiry")
					if e1 != nil || e2 == nil {
						r.Fail("c36-sign-vs-expiry", "sign-across-expiry", "signer (key %s, Expiration %s): Sign 1s before: %v, 1s after: %v",
							ls.key, ls.exp.Format(time.RFC3339), e1, e2)
						return
					}
					r.SimNS = int64(time.Now().Sub(epoch))
				}
			}
		}
		w.sample.Accepted = generated
		r.Nontrivial = generated > 0
	})
}

func expBy(exp time.Time, c *chainEnt, latest, pred *trcEnt, grace bool) string {
	switch {
	case exp.Equal(c.asNA):
		return "chain"
	case grace && exp.Equal(h(latest.win.nb+latest.grace)):
		return "grace-end"
	case grace && exp.Equal(h(pred.win.na)):
		return "pred-validity"
	}
	return "trc-validity"
}

func minT(a, b time.Time) time.Time {
	if a.Before(b) {
		return a
	}
	return b
}

// c36Verify: a message signed by the generated signer verifies with a verifier bound to the
// signer's ISD-AS (another AS with its own trust store that fetches the chain), and only there.
func c36Verify(r *core.Run, ctx context.Context, verifier, other trust.Verifier, vfetch *fetcherStub,
	sm *cryptopb.SignedMessage, msg []byte, assoc [][]byte, kn string, faults bool) bool {

	vfetch.fail = false
	faulted := false
	if faults && r.FaultChance("fetch.fail", 1, 8) {
		vfetch.fail, faulted = true, true
	}
	m, err := verifier.Verify(ctx, sm, assoc...)
	vfetch.fail = false
	r.Logf("    verify(bound %s) -> ok=%v", verifier.BoundIA, err == nil)
	if err != nil && !faulted {
		r.Fail("c36-signed-message-rejected", "verify-rejected", "message signed by the fresh signer for %s does not verify with a verifier bound to its ISD-AS: %v", kn, err)
		return false
	}
	if err == nil && !bytes.Equal(m.Body, msg) {
		r.Fail("c36-verified-other-body", "verify-body", "verified body differs from the signed message")
		return false
	}
	if _, err := other.Verify(ctx, sm, assoc...); err == nil {
		r.Fail("c36-verified-for-other-ia", "verify-other-ia", "verifier bound to %s accepted a message signed by %s", other.BoundIA, verifier.BoundIA)
		return false
	}
	if faults {
		// message tampering on the way: the verifier must never accept
		t := proto.Clone(sm).(*cryptopb.SignedMessage)
		kind := []string{"tamper.body", "tamper.signature", "tamper.assoc"}[r.Choice("tamper.kind", 3)]
		as := assoc
		switch kind {
		case "tamper.body":
			t.HeaderAndBody = append([]byte(nil), t.HeaderAndBody...)
			t.HeaderAndBody[len(t.HeaderAndBody)-1] ^= 0x01
		case "tamper.signature":
			t.Signature = append([]byte(nil), t.Signature...)
			t.Signature[len(t.Signature)/2] ^= 0x10
		case "tamper.assoc":
			if len(assoc) == 0 {
				as = [][]byte{}
				t.HeaderAndBody = append([]byte(nil), t.HeaderAndBody...)
				t.HeaderAndBody[len(t.HeaderAndBody)-2] ^= 0x40
			} else {
				as = [][]byte{[]byte("associated"), []byte("dat4")}
			}
		}
		r.Fault(kind)
		if _, err := verifier.Verify(ctx, t, as...); err == nil {
			r.Fail("c36-tampered-accepted", kind, "verifier accepted a tampered message (%s)", kind)
			return false
		}
	}
	return true
}
