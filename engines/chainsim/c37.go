//go:build verif

package chainsim

import (
	"bytes"
	"context"
	"crypto"
	"crypto/ecdsa"
	"crypto/rand"
	"crypto/sha256"
	"crypto/x509"
	"crypto/x509/pkix"
	"encoding/asn1"
	"fmt"
	"sort"
	"testing"
	"time"

	"github.com/scionproto/scion/pkg/addr"
	"github.com/scionproto/scion/pkg/scrypto/cms/oid"
	"github.com/scionproto/scion/pkg/scrypto/cms/protocol"
	"github.com/scionproto/scion/pkg/scrypto/cppki"
	"github.com/scionproto/scion/pkg/scrypto/signed"
	"github.com/scionproto/scion/private/ca/renewal"
	"github.com/scionproto/scion/private/trust"
	"verif/sim/core"
)

var forgeRules = []string{"two-signers", "signer-is-ca", "signer-stranger", "tamper.payload", "tamper.signature",
	"csr-other-ia", "csr-no-ia", "csr-bad-selfsig", "certs-three", "certs-one", "tamper.truncate", "tamper.certs",
	"reencode", "signing-time", "signing-time"}

// benign tells whether the transport transformation leaves the request valid ("reencode": the message
// is parsed and re-serialised on the way, nothing else; it also validates the tamper machinery).
// "signing-time": the signingTime attribute is an unauthenticated claim of the requester; the statement
// judges the chain at the time of the request, so such a request is valid iff its chain is valid now.
func benign(rule string) bool { return rule == "" || rule == "reencode" || rule == "signing-time" }

func runC37Honest(r *core.Run) { runC37(r, false) }
func runC37Forged(r *core.Run) { runC37(r, true) }

func mkCSR(subject pkix.Name, key *keyEnt) []byte {
	der, err := x509.CreateCertificateRequest(rand.Reader, &x509.CertificateRequest{Subject: subject}, key.priv)
	if err != nil {
		infra("csr: %v", err)
	}
	return der
}

// resignCSR replaces the CSR's self-signature by a signature of another key (no proof of possession).
func resignCSR(der []byte, other *keyEnt) []byte {
	var csr struct {
		TBS asn1.RawValue
		Alg pkix.AlgorithmIdentifier
		Sig asn1.BitString
	}
	if _, err := asn1.Unmarshal(der, &csr); err != nil {
		infra("csr unmarshal: %v", err)
	}
	d := sha256.Sum256(csr.TBS.FullBytes)
	sig, err := ecdsa.SignASN1(rand.Reader, other.priv, d[:])
	if err != nil {
		infra("csr resign: %v", err)
	}
	csr.Sig = asn1.BitString{Bytes: sig, BitLength: 8 * len(sig)}
	out, err := asn1.Marshal(csr)
	if err != nil {
		infra("csr marshal: %v", err)
	}
	return out
}

// cms builds a CMS SignedData over pld the way a client does (used by the forging clients only; the
// honest client goes through renewal.NewChainRenewalRequest / trust.Signer.SignCMS).
func cms(pld []byte, certs []*x509.Certificate, key *ecdsa.PrivateKey) *protocol.SignedData {
	eci, err := protocol.NewDataEncapsulatedContentInfo(pld)
	if err != nil {
		infra("eci: %v", err)
	}
	sd, err := protocol.NewSignedData(eci)
	if err != nil {
		infra("sd: %v", err)
	}
	if err := sd.AddSignerInfo(certs, key); err != nil {
		infra("add signer info: %v", err)
	}
	return sd
}

// cmsAt builds the CMS message like cms, but with a signingTime attribute chosen by the client; the
// signature is recomputed over the altered signed attributes with the client's key.
func cmsAt(pld []byte, certs []*x509.Certificate, key *ecdsa.PrivateKey, at time.Time) *protocol.SignedData {
	sd := cms(pld, certs, key)
	si := &sd.SignerInfos[0]
	st, err := protocol.NewAttribute(oid.AttributeSigningTime, at.UTC())
	if err != nil {
		infra("signing time attribute: %v", err)
	}
	var attrs protocol.Attributes
	for _, a := range si.SignedAttrs {
		if a.Type.Equal(oid.AttributeSigningTime) {
			a = st
		}
		attrs = append(attrs, a)
	}
	sort.Slice(attrs, func(i, j int) bool {
		return bytes.Compare(attrs[i].RawValue.FullBytes, attrs[j].RawValue.FullBytes) < 0
	})
	si.SignedAttrs = attrs
	in, err := si.SignedAttrs.MarshaledForSigning()
	if err != nil {
		infra("marshal attrs: %v", err)
	}
	d := sha256.Sum256(in)
	if si.Signature, err = key.Sign(rand.Reader, d[:], crypto.SHA256); err != nil {
		infra("sign: %v", err)
	}
	return sd
}

func der(sd *protocol.SignedData) []byte {
	b, err := sd.ContentInfoDER()
	if err != nil {
		infra("cms der: %v", err)
	}
	return b
}

func runC37(r *core.Run, forged bool) {
	core.Bubble(r, func(t *testing.T) {
		ctx := context.Background()
		w := newWorld(r, 1)
		w.populateOpt(2+r.Choice("pool.cas", 3), 4+r.Choice("pool.chains", 8), 2, forged, false)
		// the CA that answers renewal requests
		var issuer *caEnt
		for _, c := range w.cas {
			if c.defect == "" && c.genuine && c.root != w.rogue {
				issuer = c
				break
			}
		}
		cadb := newTrustDB()
		defer cadb.Close()
		have := 0
		verifier := renewal.RequestVerifier{TRCFetcher: cadb}
		accepted, rejected, issued := 0, 0, 0
		for _, at := range w.instants(3+r.Choice("instants", 6), w.horizon()) {
			sleepUntil(at)
			now := time.Now()
			r.SimNS = int64(now.Sub(epoch))
			r.Logf("t=%s", now.Format(time.RFC3339))
			w.insertDueTRCs(ctx, cadb, &have, now)
			latest, pred := w.latestKnown(now)
			nreq := 1 + r.Choice("requests", 4)
			for q := 0; q < nreq; q++ {
				// the requesting client and the chain it holds
				var act []*chainEnt
				for _, c := range w.chains {
					if ok, _ := w.active(c, now); ok {
						act = append(act, c)
					}
				}
				c := w.chains[r.Choice("req.chain", len(w.chains))]
				rule := ""
				if forged && r.Chance("req.forge", 1, 2) {
					rule = forgeRules[r.Choice("req.rule", len(forgeRules))]
					if len(act) > 0 && r.Choice("req.forge.onvalid", 4) != 1 {
						c = act[r.Choice("req.actchain", len(act))]
					}
				}
				// "signing-time": the client hand-crafts the CMS signingTime attribute (signature computed
				// over it correctly). The attribute is the client's claim; what counts is the chain now.
				var claimed time.Time
				if rule == "signing-time" {
					// preferably the holder of an expired chain that was fine shortly before it expired
					var old []*chainEnt
					for _, x := range w.chains {
						t := x.asNA.Add(-30 * time.Minute)
						if ok, _ := w.active(x, now); ok || !t.Before(now) || latest == nil {
							continue
						}
						if x.verifies(latest, t) || (latest.inGrace(now) && pred != nil && x.verifies(pred, t)) {
							old = append(old, x)
						}
					}
					if len(old) > 0 && r.Choice("req.st.expired", 4) != 1 {
						c = old[r.Choice("req.st.chain", len(old))]
						claimed = c.asNA.Add(-30 * time.Minute)
						r.Probe("backdated-request-with-expired-chain")
					} else {
						claimed = []time.Time{now.Add(-hour), c.asNB.Add(hour), now.Add(-1000 * hour),
							now.Add(30 * time.Second)}[r.Choice("req.st.time", 4)]
					}
				}
				if c.asNB.Equal(now) || c.asNA.Equal(now) {
					continue // exactly on a boundary: not judged
				}
				issued++
				reqKey := newKey(fmt.Sprintf("req%d", issued))
				cn := fmt.Sprintf("%s renewed %d", c.ia, issued)
				csrIA := c.ia
				subject := iaName(cn, c.ia, true)
				switch rule {
				case "csr-other-ia":
					csrIA = ia111
					if c.ia.Equal(ia111) {
						csrIA = ia112
					}
					subject = iaName(cn, csrIA, true)
				case "csr-no-ia":
					subject = iaName(cn, c.ia, false)
				}
				csrDER := mkCSR(subject, reqKey)
				if rule == "csr-bad-selfsig" {
					csrDER = resignCSR(csrDER, newKey("not-the-requested-key"))
				}
				var raw []byte
				switch rule {
				case "", "reencode", "csr-other-ia", "csr-no-ia", "csr-bad-selfsig", "tamper.payload", "tamper.signature", "tamper.truncate", "tamper.certs":
					// the client side is the real request builder
					signer := trust.Signer{PrivateKey: c.key.priv, Algorithm: signed.ECDSAWithSHA256, IA: c.ia,
						Chain: c.certs, SubjectKeyID: c.key.skid, Expiration: now.Add(1000 * day)}
					req, err := renewal.NewChainRenewalRequest(ctx, csrDER, signer)
					if err != nil {
						infra("NewChainRenewalRequest: %v", err)
					}
					raw = req.CmsSignedRequest
				case "two-signers":
					sd := cms(csrDER, c.certs, c.key.priv)
					sd2 := cms(csrDER, c.certs, c.key.priv)
					sd.SignerInfos = append(sd.SignerInfos, sd2.SignerInfos[0])
					raw = der(sd)
				case "signer-is-ca":
					raw = der(cms(csrDER, c.certs, c.ca.key.priv))
				case "signer-stranger":
					st := newKey("stranger")
					sc := w.newChain("stranger-chain", c.ia, st, c.ca, c.asWin, "")
					sd := cms(csrDER, sc.certs, st.priv)
					sd.ClearCertificates()
					for _, x := range c.certs {
						if err := sd.AddCertificate(x); err != nil {
							infra("add cert: %v", err)
						}
					}
					raw = der(sd)
				case "certs-three":
					raw = der(cms(csrDER, []*x509.Certificate{c.as, c.ca.cert, c.ca.root.cert}, c.key.priv))
				case "certs-one":
					raw = der(cms(csrDER, []*x509.Certificate{c.as}, c.key.priv))
				case "signing-time":
					raw = der(cmsAt(csrDER, c.certs, c.key.priv, claimed))
				}
				// transport with tamper faults
				switch rule {
				case "tamper.payload", "tamper.signature", "tamper.certs", "reencode":
					ci, err := protocol.ParseContentInfo(raw)
					if err != nil {
						infra("parse own cms: %v", err)
					}
					sd, err := ci.SignedDataContent()
					if err != nil {
						infra("parse own cms: %v", err)
					}
					switch rule {
					case "tamper.payload":
						// an attacker on the path substitutes a request for his own key
						evil := mkCSR(subject, newKey("attacker"))
						sd.EncapContentInfo, _ = protocol.NewDataEncapsulatedContentInfo(evil)
					case "tamper.signature":
						s := sd.SignerInfos[0].Signature
						s[len(s)-3] ^= 0x04
					case "tamper.certs":
						// the included chain is replaced by another chain for the same AS and another key
						st := newKey("other-key")
						sc := w.newChain("other-chain", c.ia, st, c.ca, c.asWin, "")
						sd.ClearCertificates()
						for _, x := range sc.certs {
							if err := sd.AddCertificate(x); err != nil {
								infra("add cert: %v", err)
							}
						}
					}
					raw = der(sd)
				case "tamper.truncate":
					raw = raw[:len(raw)-1-r.Choice("truncate", 40)]
				}
				if rule != "" {
					r.Fault("fetch.forged." + rule)
				}

				// ground truth
				chainOK, how := w.active(c, now)
				valid := benign(rule) && chainOK
				dontCare := benign(rule) && how == "grace" && !pred.win.contains(now)
				got, err := verifier.VerifyCMSSignedRenewalRequest(ctx, raw)
				r.Logf("  request chain=%s (defect %q, %s) rule=%q -> accepted=%v want=%v", c.name, c.defect, how, rule, err == nil, valid)
				r.Covered(fmt.Sprintf("req:%s:%s:%s:%v", rule, c.defect, how, err == nil))
				if how == "grace" && err == nil {
					r.Probe("grace-period-renewal")
				}
				if err == nil && !valid {
					r.Fail("c37-accepted-invalid", fmt.Sprintf("accepted:%s:%s:%s", rule, c.defect, how),
						"renewal request accepted at %s although invalid: rule %q, chain %s (defect %q, as %v, ca %v, root %s): %s; latest %s pred %s",
						now.Format(time.RFC3339), rule, c.name, c.defect, c.asWin, c.ca.win, c.ca.root.name, how, trcName(latest), trcName(pred))
					return
				}
				if err != nil && valid && !dontCare {
					r.Fail("c37-rejected-valid", "rejected:"+how, "valid renewal request rejected at %s: chain %s (as %v, ca %v, root %s, %s); latest %s pred %s: %v",
						now.Format(time.RFC3339), c.name, c.asWin, c.ca.win, c.ca.root.name, how, trcName(latest), trcName(pred), err)
					return
				}
				if err != nil {
					rejected++
					continue
				}
				accepted++
				if !bytes.Equal(got.Raw, csrDER) {
					r.Fail("c37-csr-altered", "csr-altered", "the verifier returned a different CSR than the one the client signed")
					return
				}
				// the CA issues
				if issuer == nil {
					continue
				}
				valH := []int{72, 24, 24 * 30, 24 * 120, 24 * 500}[r.Choice("policy.validity", 5)]
				pol := cppki.CAPolicy{Validity: time.Duration(valH) * hour, Certificate: issuer.cert, Signer: issuer.key.priv}
				if r.Chance("policy.explicit-time", 1, 3) {
					pol.CurrentTime = now
				}
				chain, ierr := pol.CreateChain(got)
				fits := issuer.win.contains(now) && now.Add(pol.Validity).Before(h(issuer.win.na))
				r.Logf("    CreateChain validity=%dh issuer %s %v -> issued=%v fits=%v", valH, issuer.name, issuer.win, ierr == nil, fits)
				r.Covered(fmt.Sprintf("issue:%v:%v", ierr == nil, fits))
				if ierr != nil {
					if fits {
						r.Fail("c37-issue-refused", "issue-refused", "CreateChain refused although the requested validity fits into the CA certificate's: %v", ierr)
						return
					}
					r.Probe("issue-refused-outlives-ca")
					continue
				}
				if msg := checkIssued(chain, reqKey, csrIA, cn, issuer, now); msg != "" {
					r.Fail("c37-issued-chain", "issued:"+msg, "issued chain is wrong: %s (policy validity %dh at %s, CA %v)", msg, valH, now.Format(time.RFC3339), issuer.win)
					return
				}
				// the AS adopts the new chain and may renew with it later
				nc := &chainEnt{name: fmt.Sprintf("iss%d", issued), ia: csrIA, key: reqKey, as: chain[0], ca: issuer,
					asNB: chain[0].NotBefore, asNA: chain[0].NotAfter, certs: chain,
					asWin: window{int(chain[0].NotBefore.Sub(epoch) / hour), int(chain[0].NotAfter.Sub(epoch) / hour)}}
				w.chains = append(w.chains, nc)
				r.Probe("issued")
				if c.name[:3] == "iss" {
					r.Probe("renewed-with-renewed-chain")
				}
			}
		}
		w.sample.Accepted, w.sample.Refused = accepted, rejected
		r.Nontrivial = accepted > 0 && rejected > 0
	})
}

func nameIA(n pkix.Name) (string, int) {
	v, cnt := "", 0
	for _, a := range n.Names {
		if a.Type.Equal(asn1.ObjectIdentifier{1, 3, 6, 1, 4, 1, 55324, 1, 2, 1}) {
			v, _ = a.Value.(string)
			cnt++
		}
	}
	return v, cnt
}

// checkIssued judges an issued chain from the statement: requested key and subject, a valid chain
// (AS certificate followed by the issuing CA certificate, SCION key usages, ISD-AS attributes, CA
// validity covers AS validity), never outliving the CA certificate. Returns "" if fine.
func checkIssued(chain []*x509.Certificate, reqKey *keyEnt, ia addr.IA, cn string, issuer *caEnt, now time.Time) string {
	if len(chain) != 2 {
		return "length"
	}
	as, ca := chain[0], chain[1]
	if !bytes.Equal(ca.Raw, issuer.cert.Raw) {
		return "second-not-ca"
	}
	pub, ok := as.PublicKey.(*ecdsa.PublicKey)
	if !ok || !pub.Equal(&reqKey.priv.PublicKey) {
		return "key"
	}
	if v, n := nameIA(as.Subject); n != 1 || v != ia.String() || as.Subject.CommonName != cn {
		return "subject"
	}
	if _, n := nameIA(as.Issuer); n != 1 || !bytes.Equal(as.RawIssuer, ca.RawSubject) {
		return "issuer"
	}
	if as.NotAfter.After(ca.NotAfter) {
		return "outlives-ca"
	}
	if as.NotBefore.Before(ca.NotBefore) {
		return "starts-before-ca"
	}
	if !as.NotAfter.After(as.NotBefore) || as.NotBefore.After(now) || as.NotAfter.Before(now) {
		return "validity"
	}
	if as.KeyUsage&x509.KeyUsageDigitalSignature == 0 || as.KeyUsage&x509.KeyUsageCertSign != 0 || as.IsCA {
		return "key-usage"
	}
	ts := false
	for _, u := range as.ExtKeyUsage {
		ts = ts || u == x509.ExtKeyUsageTimeStamping
	}
	if !ts {
		return "ext-key-usage"
	}
	if !bytes.Equal(as.AuthorityKeyId, issuer.key.skid) || !bytes.Equal(as.SubjectKeyId, reqKey.skid) {
		return "key-ids"
	}
	if as.Version != 3 || as.CheckSignatureFrom(ca) != nil {
		return "signature"
	}
	return ""
}
