//go:build verif

// In-process PKI generator of the chainsim engine: the simulated ISD governance, CAs and ASes.
// Everything here is STUB (the parties the simulator plays). Certificates are produced directly with
// crypto/x509 from templates written after doc/cryptography/certificates.rst so that mis-issued
// certificates (each violating exactly one stated rule) can be produced with known ground truth.
package chainsim

import (
	"crypto/ecdsa"
	"crypto/elliptic"
	"crypto/rand"
	"crypto/sha1"
	"crypto/x509"
	"crypto/x509/pkix"
	"encoding/asn1"
	"fmt"
	"math/big"
	"sort"
	"time"

	"github.com/scionproto/scion/pkg/addr"
	"github.com/scionproto/scion/pkg/scrypto"
	"github.com/scionproto/scion/pkg/scrypto/cms/protocol"
	"github.com/scionproto/scion/pkg/scrypto/cppki"
	"verif/sim/core"
)

const (
	hour = time.Hour
	day  = 24 * time.Hour
)

// epoch is the start of the synctest fake clock.
var epoch = time.Date(2000, 1, 1, 0, 0, 0, 0, time.UTC)

// h returns epoch + n hours. All validity boundaries of the world are whole hours; all instants at
// which something is observed are NOT whole hours, so no observation is exactly on a boundary.
func h(n int) time.Time { return epoch.Add(time.Duration(n) * hour) }

func infra(format string, args ...any) { panic(core.InfraError{Msg: fmt.Sprintf(format, args...)}) }

type window struct{ nb, na int } // hours relative to epoch

func (w window) contains(t time.Time) bool { return t.After(h(w.nb)) && t.Before(h(w.na)) }
func (w window) covers(o window) bool      { return w.nb <= o.nb && o.na <= w.na }
func (w window) String() string            { return fmt.Sprintf("[%dh,%dh]", w.nb, w.na) }

type keyEnt struct {
	name string
	priv *ecdsa.PrivateKey
	skid []byte
}

func newKey(name string) *keyEnt {
	k, err := ecdsa.GenerateKey(elliptic.P256(), rand.Reader)
	if err != nil {
		infra("keygen: %v", err)
	}
	return &keyEnt{name: name, priv: k, skid: skidOf(&k.PublicKey)}
}

func skidOf(pub *ecdsa.PublicKey) []byte {
	e, err := pub.ECDH()
	if err != nil {
		infra("ecdh: %v", err)
	}
	s := sha1.Sum(e.Bytes())
	return s[:]
}

type rootEnt struct {
	name string
	key  *keyEnt
	cert *x509.Certificate
	win  window
}

type voterEnt struct {
	sensKey, regKey   *keyEnt
	sensCert, regCert *x509.Certificate
}

type trcEnt struct {
	serial  int
	win     window
	grace   int // hours
	roots   []*rootEnt
	signed  cppki.SignedTRC
	arrival int // hour at which the simulated AS learns this TRC
	kind    string
}

func (t *trcEnt) hasRoot(r *rootEnt) bool {
	for _, x := range t.roots {
		if x == r {
			return true
		}
	}
	return false
}
func (t *trcEnt) inGrace(now time.Time) bool {
	return t.serial > 1 && now.After(h(t.win.nb)) && now.Before(h(t.win.nb+t.grace))
}

type caEnt struct {
	name    string
	key     *keyEnt
	cert    *x509.Certificate
	root    *rootEnt // root named as issuer
	genuine bool     // really signed by that root's key
	win     window
	defect  string // "" = well-formed CA certificate
}

type chainEnt struct {
	name   string
	ia     addr.IA
	key    *keyEnt
	as     *x509.Certificate
	ca     *caEnt
	asWin  window // generated chains: whole hours; chains issued during a run: see asNB/asNA
	asNB   time.Time
	asNA   time.Time
	certs  []*x509.Certificate
	defect string // "" = well-formed; otherwise the single rule violated
}

// structural tells whether the chain's form alone (no TRC, no time) makes it unacceptable.
func (c *chainEnt) structural() bool {
	switch c.defect {
	case "", "rogue-root", "forged-ca-sig":
		return false
	}
	return true
}

// verifies is the ground truth of "chain verifies against this TRC at this time" by construction.
func (c *chainEnt) verifies(t *trcEnt, now time.Time) bool {
	if c.structural() || !c.ca.genuine || !t.hasRoot(c.ca.root) {
		return false
	}
	return c.asValid(now) && c.ca.win.contains(now) && c.ca.root.win.contains(now)
}

// asValid: the AS certificate's validity period contains now (strictly; boundaries are never observed).
func (c *chainEnt) asValid(now time.Time) bool { return now.After(c.asNB) && now.Before(c.asNA) }

func fp(certs []*x509.Certificate) string {
	hsh := sha1.New()
	for _, c := range certs {
		hsh.Write(c.Raw)
	}
	return fmt.Sprintf("%x", hsh.Sum(nil)[:6])
}

// world is one simulated ISD with its certificate pools and TRC history.
type world struct {
	r      *core.Run
	isd    addr.ISD
	serial int64
	caIA   addr.IA
	roots  []*rootEnt
	rogue  *rootEnt
	voters []*voterEnt
	trcs   []*trcEnt
	cas    []*caEnt
	chains []*chainEnt
	asKeys map[string][]*keyEnt
	// shareKeys: some chains certify a key of AS 1-ff00:0:111 for the other AS (an operator using one
	// key pair in two ASes); such a chain does not authenticate the key for 1-ff00:0:111.
	shareKeys bool
	sample    sample
	ias       []addr.IA
}

// sample is the small description of a run kept in the evidence.
type sample struct {
	TRCs     []string `json:"trcs"`
	CAs      int      `json:"cas"`
	Chains   []string `json:"chains"`
	Accepted int      `json:"accepted"`
	Refused  int      `json:"refused"`
}

func iaName(cn string, ia addr.IA, withIA bool) pkix.Name {
	n := pkix.Name{CommonName: cn}
	if withIA {
		n.ExtraNames = []pkix.AttributeTypeAndValue{{Type: cppki.OIDNameIA, Value: ia.String()}}
	}
	return n
}

type certSpec struct {
	subject  pkix.Name
	pub      *ecdsa.PublicKey
	win      window
	ku       x509.KeyUsage
	eku      []x509.ExtKeyUsage
	ueku     []asn1.ObjectIdentifier
	ca       bool
	pathLen  int
	bcValid  bool
	skid     []byte
}

func (w *world) issue(s certSpec, parent *x509.Certificate, parentKey *ecdsa.PrivateKey) *x509.Certificate {
	w.serial++
	tmpl := &x509.Certificate{
		Version:               3,
		SerialNumber:          big.NewInt(1000 + w.serial),
		Subject:               s.subject,
		NotBefore:             h(s.win.nb),
		NotAfter:              h(s.win.na),
		KeyUsage:              s.ku,
		ExtKeyUsage:           s.eku,
		UnknownExtKeyUsage:    s.ueku,
		BasicConstraintsValid: s.bcValid,
		IsCA:                  s.ca,
		SubjectKeyId:          s.skid,
	}
	if s.ca {
		tmpl.MaxPathLen = s.pathLen
		tmpl.MaxPathLenZero = s.pathLen == 0
	}
	if parent == nil {
		parent = tmpl
	}
	raw, err := x509.CreateCertificate(rand.Reader, tmpl, parent, s.pub, parentKey)
	if err != nil {
		infra("create certificate %v: %v", s.subject.CommonName, err)
	}
	c, err := x509.ParseCertificate(raw)
	if err != nil {
		infra("parse certificate: %v", err)
	}
	return c
}

func (w *world) newRoot(name string, win window) *rootEnt {
	k := newKey(name)
	c := w.issue(certSpec{subject: iaName(name, w.caIA, true), pub: &k.priv.PublicKey, win: win,
		ku: x509.KeyUsageCertSign, eku: []x509.ExtKeyUsage{x509.ExtKeyUsageTimeStamping},
		ueku: []asn1.ObjectIdentifier{cppki.OIDExtKeyUsageRoot}, ca: true, pathLen: 1, bcValid: true,
		skid: k.skid}, nil, k.priv)
	return &rootEnt{name: name, key: k, cert: c, win: win}
}

func (w *world) newVoter(i int, win window) *voterEnt {
	v := &voterEnt{sensKey: newKey(fmt.Sprintf("sens%d", i)), regKey: newKey(fmt.Sprintf("reg%d", i))}
	ia := addr.MustIAFrom(w.isd, addr.AS(0xff0000000110+uint64(i)))
	v.sensCert = w.issue(certSpec{subject: iaName(fmt.Sprintf("sensitive %d", i), ia, true),
		pub: &v.sensKey.priv.PublicKey, win: win, eku: []x509.ExtKeyUsage{x509.ExtKeyUsageTimeStamping},
		ueku: []asn1.ObjectIdentifier{cppki.OIDExtKeyUsageSensitive}, skid: v.sensKey.skid}, nil, v.sensKey.priv)
	v.regCert = w.issue(certSpec{subject: iaName(fmt.Sprintf("regular %d", i), ia, true),
		pub: &v.regKey.priv.PublicKey, win: win, eku: []x509.ExtKeyUsage{x509.ExtKeyUsageTimeStamping},
		ueku: []asn1.ObjectIdentifier{cppki.OIDExtKeyUsageRegular}, skid: v.regKey.skid}, nil, v.regKey.priv)
	return v
}

// CA defects (each violates exactly one rule of the statement about the CA certificate).
var caDefects = []string{"ca-ku-digsig", "ca-pathlen", "ca-eku-serverauth", "ca-no-ia"}

func (w *world) newCA(name string, root *rootEnt, win window, defect string) *caEnt {
	k := newKey(name)
	s := certSpec{subject: iaName(name, w.caIA, true), pub: &k.priv.PublicKey, win: win,
		ku: x509.KeyUsageCertSign, ca: true, pathLen: 0, bcValid: true, skid: k.skid}
	ca := &caEnt{name: name, key: k, root: root, genuine: true, win: win}
	parent, pkey := root.cert, root.key.priv
	switch defect {
	case "":
	case "ca-ku-digsig":
		s.ku |= x509.KeyUsageDigitalSignature
	case "ca-pathlen":
		s.pathLen = 1
	case "ca-eku-serverauth":
		s.eku = []x509.ExtKeyUsage{x509.ExtKeyUsageServerAuth}
	case "ca-no-ia":
		s.subject = iaName(name, w.caIA, false)
	case "forged-ca-sig":
		// names the TRC root as issuer but is signed with a key that root does not hold
		fake := *root.cert
		fk := newKey(name + "-forger")
		fake.PublicKey = &fk.priv.PublicKey
		parent, pkey = &fake, fk.priv
		ca.genuine = false
	default:
		infra("unknown CA defect %s", defect)
	}
	if defect != "forged-ca-sig" {
		ca.defect = defect
	}
	ca.cert = w.issue(s, parent, pkey)
	return ca
}

// AS-certificate / chain-shape defects.
var asDefects = []string{"as-ku-certsign", "as-ku-nodigsig", "as-eku-notimestamp", "as-isca", "as-no-ia",
	"ca-not-covering-end", "ca-not-covering-start"}
var shapeDefects = []string{"len1", "len3", "swapped", "ca-as-leaf", "as-as"}

// newChain issues an AS certificate for (ia, key) from ca. defect names the single violated rule.
func (w *world) newChain(name string, ia addr.IA, key *keyEnt, ca *caEnt, win window, defect string) *chainEnt {
	s := certSpec{subject: iaName(name, ia, true), pub: &key.priv.PublicKey, win: win,
		ku: x509.KeyUsageDigitalSignature,
		eku: []x509.ExtKeyUsage{x509.ExtKeyUsageServerAuth, x509.ExtKeyUsageClientAuth, x509.ExtKeyUsageTimeStamping},
		skid: key.skid}
	ch := &chainEnt{name: name, ia: ia, key: key, ca: ca, asWin: win, defect: defect}
	switch defect {
	case "", "len1", "len3", "swapped", "ca-as-leaf", "as-as":
	case "as-ku-certsign":
		s.ku |= x509.KeyUsageCertSign
	case "as-ku-nodigsig":
		s.ku = x509.KeyUsageKeyEncipherment
	case "as-eku-notimestamp":
		s.eku = []x509.ExtKeyUsage{x509.ExtKeyUsageServerAuth, x509.ExtKeyUsageClientAuth}
	case "as-isca":
		s.bcValid, s.ca, s.pathLen = true, true, 0
	case "as-no-ia":
		s.subject = iaName(name, ia, false)
	case "ca-not-covering-end":
		s.win.na = ca.win.na + 24
		ch.asWin = s.win
	case "ca-not-covering-start":
		s.win.nb = ca.win.nb - 24
		ch.asWin = s.win
	default:
		infra("unknown AS defect %s", defect)
	}
	ch.as = w.issue(s, ca.cert, ca.key.priv)
	ch.asNB, ch.asNA = h(ch.asWin.nb), h(ch.asWin.na)
	switch defect {
	case "len1":
		ch.certs = []*x509.Certificate{ch.as}
	case "len3":
		ch.certs = []*x509.Certificate{ch.as, ca.cert, ca.root.cert}
	case "swapped":
		ch.certs = []*x509.Certificate{ca.cert, ch.as}
	case "ca-as-leaf":
		ch.certs = []*x509.Certificate{ca.cert, ca.root.cert}
	case "as-as":
		ch.certs = []*x509.Certificate{ch.as, ch.as}
	default:
		ch.certs = []*x509.Certificate{ch.as, ca.cert}
	}
	if ca.defect != "" && defect == "" {
		ch.defect = ca.defect
	}
	if !ca.genuine && ch.defect == "" {
		ch.defect = "forged-ca-sig"
	}
	if ca.root == w.rogue && ch.defect == "" {
		ch.defect = "rogue-root"
	}
	return ch
}

// ---- TRCs ----

func (w *world) signTRC(pld cppki.TRC, signers []*x509.Certificate, keys []*ecdsa.PrivateKey,
	pred *cppki.TRC) cppki.SignedTRC {

	raw, err := pld.Encode()
	if err != nil {
		infra("encoding TRC payload: %v", err)
	}
	eci, err := protocol.NewDataEncapsulatedContentInfo(raw)
	if err != nil {
		infra("eci: %v", err)
	}
	sd, err := protocol.NewSignedData(eci)
	if err != nil {
		infra("signed data: %v", err)
	}
	for i, c := range signers {
		sd.Certificates = nil
		if err := sd.AddSignerInfo([]*x509.Certificate{c}, keys[i]); err != nil {
			infra("signing TRC: %v", err)
		}
	}
	sd.Certificates = []asn1.RawValue{}
	der, err := sd.ContentInfoDER()
	if err != nil {
		infra("packing TRC: %v", err)
	}
	signed, err := cppki.DecodeSignedTRC(der)
	if err != nil {
		infra("decoding own TRC: %v", err)
	}
	if err := signed.Verify(pred); err != nil {
		infra("generated TRC %v does not verify: %v", pld.ID, err)
	}
	return signed
}

func (w *world) trcCerts(roots []*rootEnt) []*x509.Certificate {
	var certs []*x509.Certificate
	for _, v := range w.voters {
		certs = append(certs, v.sensCert, v.regCert)
	}
	for _, r := range roots {
		certs = append(certs, r.cert)
	}
	return certs
}

// addTRC appends the next TRC of the history (base if none yet). sensitive selects the update type.
func (w *world) addTRC(win window, grace int, roots []*rootEnt, sensitive bool, arrival int) *trcEnt {
	serial := len(w.trcs) + 1
	pld := cppki.TRC{
		Version:           1,
		ID:                cppki.TRCID{ISD: w.isd, Base: 1, Serial: scrypto.Version(serial)},
		Validity:          cppki.Validity{NotBefore: h(win.nb), NotAfter: h(win.na)},
		Quorum:            1,
		CoreASes:          []addr.AS{w.caIA.AS()},
		AuthoritativeASes: []addr.AS{w.caIA.AS()},
		Description:       fmt.Sprintf("ISD %d serial %d", w.isd, serial),
		Certificates:      w.trcCerts(roots),
	}
	ent := &trcEnt{serial: serial, win: win, roots: roots, arrival: arrival, kind: "base"}
	var signers []*x509.Certificate
	var keys []*ecdsa.PrivateKey
	var pred *cppki.TRC
	if serial == 1 {
		for _, v := range w.voters {
			signers = append(signers, v.sensCert, v.regCert)
			keys = append(keys, v.sensKey.priv, v.regKey.priv)
		}
	} else {
		p := w.trcs[serial-2]
		pred = &p.signed.TRC
		pld.GracePeriod = time.Duration(grace) * hour
		ent.grace = grace
		// votes: the voting certificates keep their positions (2*i sensitive, 2*i+1 regular)
		for i, v := range w.voters {
			if sensitive {
				pld.Votes = append(pld.Votes, 2*i)
				signers, keys = append(signers, v.sensCert), append(keys, v.sensKey.priv)
			} else {
				pld.Votes = append(pld.Votes, 2*i+1)
				signers, keys = append(signers, v.regCert), append(keys, v.regKey.priv)
			}
		}
		ent.kind = "regular"
		if sensitive {
			ent.kind = "sensitive"
		}
	}
	ent.signed = w.signTRC(pld, signers, keys, pred)
	w.trcs = append(w.trcs, ent)
	return ent
}

func sameRoots(a, b []*rootEnt) bool {
	if len(a) != len(b) {
		return false
	}
	for i := range a {
		if a[i] != b[i] {
			return false
		}
	}
	return true
}

// newWorld draws an ISD: root pool, TRC history (1-3 TRCs with grace periods), nothing else yet.
// Tape value 0 everywhere gives: one root, one base TRC valid for a long time.
func newWorld(r *core.Run, minTRCs int) *world {
	w := &world{r: r, isd: 1, caIA: addr.MustParseIA("1-ff00:0:110"), asKeys: map[string][]*keyEnt{}}
	longWin := window{-24 * 400, 24 * 2000}
	nv := 1 + r.Choice("world.voters", 2)
	for i := 0; i < nv; i++ {
		w.voters = append(w.voters, w.newVoter(i, longWin))
	}
	// root pool: R0,R1,R2 in TRCs, plus a rogue root that is in no TRC. Root validity ends are drawn
	// so that a root of a predecessor TRC may expire while a successor is in its grace period.
	ntrc := minTRCs + r.Choice("world.ntrc", 4-minTRCs)
	// base TRC
	nb := -(1 + r.Choice("trc1.age", 5)*24*3)
	na := []int{24 * 60, 24 * 12, 24 * 25, 24 * 40}[r.Choice("trc1.len", 4)]
	root0Short := r.Chance("root0.short", 1, 3)
	for i := 0; i < 3; i++ {
		win := longWin
		if i == 0 && root0Short {
			win.na = na // expires together with the base TRC
		}
		w.roots = append(w.roots, w.newRoot(fmt.Sprintf("root%d", i), win))
	}
	w.rogue = w.newRoot("rogue-root", longWin)
	sets := [][]*rootEnt{{w.roots[0]}, {w.roots[0], w.roots[1]}, {w.roots[1]}, {w.roots[1], w.roots[2]},
		{w.roots[2]}, {w.roots[0], w.roots[2]}}
	cur := sets[r.Choice("trc1.roots", 2)]
	w.addTRC(window{nb, na}, 0, cur, false, nb)
	start := 0
	for s := 2; s <= ntrc; s++ {
		prev := w.trcs[s-2]
		// successor starts 2-16 days after the previous start (always after the simulation start)
		start = max(start, prev.win.nb) + 24*(2+r.Choice(fmt.Sprintf("trc%d.gap", s), 15))
		if start >= prev.win.na {
			start = prev.win.na - 24 // a successor must be issued while the predecessor is valid
		}
		if start <= max(0, prev.win.nb) {
			start = max(0, prev.win.nb) + 12
		}
		grace := []int{24, 1, 6, 72, 240}[r.Choice(fmt.Sprintf("trc%d.grace", s), 5)]
		length := []int{24 * 60, 24 * 10, 24 * 30}[r.Choice(fmt.Sprintf("trc%d.len", s), 3)]
		next := sets[r.Choice(fmt.Sprintf("trc%d.roots", s), len(sets))]
		if root0Short && next[0] == w.roots[0] {
			next = sets[2+len(next)-1] // a short-lived root0 cannot be carried into a longer TRC
		}
		sens := !sameRoots(next, prev.roots) || r.Chance(fmt.Sprintf("trc%d.sensitive", s), 1, 2)
		// negative delay: the update is announced (and stored) before its validity period starts
		delay := []int{0, 1, 24, 72, -24, -72, -7}[r.Choice(fmt.Sprintf("trc%d.delay", s), 7)]
		w.addTRC(window{start, start + length}, grace, next, sens, max(start+delay, prev.arrival))
	}
	for _, t := range w.trcs {
		names := ""
		for _, x := range t.roots {
			names += x.name + " "
		}
		r.Logf("TRC S%d %s valid %v grace %dh arrival %dh roots %s", t.serial, t.kind, t.win, t.grace, t.arrival, names)
		w.sample.TRCs = append(w.sample.TRCs, fmt.Sprintf("S%d %s valid %v grace %dh roots %s", t.serial, t.kind, t.win, t.grace, names))
	}
	r.Sample = &w.sample
	return w
}

// boundaries lists the hour marks at which some ground truth changes (plus the middle of every grace
// period). TRC-related marks appear several times: the list is used as a weighted choice.
func (w *world) boundaries() []int {
	var out []int
	add := func(weight int, marks ...int) {
		for _, m := range marks {
			for k := 0; k < weight && m >= 0; k++ {
				out = append(out, m)
			}
		}
	}
	for _, t := range w.trcs {
		add(2, t.win.nb, t.win.na, t.arrival)
		if t.serial > 1 {
			add(3, t.win.nb+t.grace, t.win.nb+(t.grace+1)/2)
		}
	}
	for _, c := range w.cas {
		add(1, c.win.nb, c.win.na)
	}
	for _, c := range w.chains {
		add(1, c.asWin.nb, c.asWin.na)
	}
	return out
}

// instants draws n observation instants (strictly increasing, never on a whole hour, all after the
// epoch): mostly a second or an hour before/after a boundary, otherwise anywhere up to the horizon.
func (w *world) instants(n int, horizon int) []time.Time {
	bs := w.boundaries()
	var ts []time.Time
	for i := 0; i < n; i++ {
		var t time.Time
		if len(bs) > 0 && w.r.Choice("instant.kind", 4) != 1 {
			b := bs[w.r.Choice("instant.boundary", len(bs))]
			off := []time.Duration{time.Second, -time.Second, hour + time.Minute, -hour - time.Minute,
				5*hour + time.Second, -7*hour - time.Second}[w.r.Choice("instant.offset", 6)]
			t = h(b).Add(off)
		} else {
			t = h(w.r.Choice("instant.hour", horizon)).Add(time.Duration(1+w.r.Choice("instant.sec", 3598)) * time.Second)
		}
		if !t.After(epoch) {
			t = epoch.Add(time.Duration(i+1) * time.Second)
		}
		ts = append(ts, t)
	}
	sort.Slice(ts, func(i, j int) bool { return ts[i].Before(ts[j]) })
	out := ts[:0]
	for i, t := range ts {
		if i > 0 && !t.After(out[len(out)-1]) {
			continue
		}
		out = append(out, t)
	}
	return out
}

func (w *world) horizon() int {
	m := 24 * 30
	for _, t := range w.trcs {
		m = max(m, t.win.na+48)
	}
	return m
}

// latestKnown returns the newest TRC that has arrived by now (nil if none) and its predecessor.
func (w *world) latestKnown(now time.Time) (latest, pred *trcEnt) {
	for _, t := range w.trcs {
		if now.After(h(t.arrival)) {
			pred, latest = latest, t
		}
	}
	return latest, pred
}

// active is the ground truth of the statement: the chain verifies against the ISD's latest TRC
// while that TRC is valid, or against the predecessor during the latest TRC's grace period.
func (w *world) active(c *chainEnt, now time.Time) (ok bool, how string) {
	latest, pred := w.latestKnown(now)
	if latest != nil && now.Before(h(latest.win.nb)) {
		// announced ahead of time: not valid yet, so nothing is trusted through it (nor, by the
		// statement, through its predecessor: the grace period has not begun)
		return false, "latest-not-yet-valid"
	}
	if latest == nil || !latest.win.contains(now) {
		return false, "no-valid-latest"
	}
	if c.verifies(latest, now) {
		return true, "latest"
	}
	if latest.inGrace(now) && pred != nil && c.verifies(pred, now) {
		return true, "grace"
	}
	return false, "unverifiable"
}
