//go:build verif

// Package chainsim: certificate chains, signers and renewal of one simulated ISD over simulated
// months. Properties C34 (only properly formed chains rooted in an active TRC are trusted), C36
// (signers are backed by a currently verifiable chain and expire in time), C37 (certificate renewal
// only for the certified AS itself).
//
// Real: cppki.ValidateChain/VerifyChain, trust.FetchingProvider (GetChains, NotifyTRC), trust.LoadChains,
// the sqlite trust DB, trust.SignerGen, trust.Signer, trust.Verifier, renewal.NewChainRenewalRequest,
// renewal.RequestVerifier, cppki.CAPolicy.CreateChain, SignedTRC.Verify (sanity of generated TRCs).
// Stub: the ISD governance, CAs and ASes (pki.go), the fetch transport/remote server, key ring.
package chainsim

import (
	"testing"

	"verif/sim/core"
)

func TestWorker(t *testing.T) {
	core.Main(t, core.Engine{Name: "chainsim", Campaigns: map[string]core.RunFunc{
		"C34/verify":   runC34Verify,
		"C34/provider": runC34Provider,
		"C34/fetch":    runC34Fetch,
		"C36/signer":   runC36Signer,
		"C36/faulty":   runC36Faulty,
		"C37/honest":   runC37Honest,
		"C37/forged":   runC37Forged,
	}})
}
