//go:build verif

package pathsim

import (
	"context"
	"errors"
	"fmt"
	"net"
	"sort"
	"sync"
	"testing"
	"time"

	"github.com/scionproto/scion/pkg/addr"
	"github.com/scionproto/scion/pkg/private/ctrl/path_mgmt"
	seg "github.com/scionproto/scion/pkg/segment"
	"github.com/scionproto/scion/pkg/segment/iface"
	"github.com/scionproto/scion/pkg/snet"
	"github.com/scionproto/scion/private/revcache"
	"github.com/scionproto/scion/private/revcache/memrevcache"
	"github.com/scionproto/scion/private/segment/segfetcher"
	"github.com/scionproto/scion/private/segment/seghandler"
	"github.com/scionproto/scion/private/segment/segverifier"
	"github.com/scionproto/scion/private/storage/db"
	pathsqlite "github.com/scionproto/scion/private/storage/path/sqlite"
	"github.com/scionproto/scion/private/trust"
	"verif/sim/core"
)

// ---- stubs at the seams ----

// inspector answers core-or-not from topology truth (trust.Inspector seam).
type inspector struct {
	tp   *topo
	fail bool
}

func (i *inspector) ByAttributes(ctx context.Context, isd addr.ISD, attrs trust.Attribute) ([]addr.IA, error) {
	if i.fail {
		return nil, errors.New("simulated trust store failure")
	}
	var out []addr.IA
	for _, a := range i.tp.cores[int(isd)] {
		out = append(out, a.ia)
	}
	return out, nil
}

func (i *inspector) HasAttributes(ctx context.Context, ia addr.IA, attrs trust.Attribute) (bool, error) {
	if i.fail {
		return false, errors.New("simulated trust store failure")
	}
	return i.tp.isCore(ia), nil
}

// acceptAll is the segment verification seam: every segment is accepted, results in input order.
type acceptAll struct{}

func (acceptAll) Verify(ctx context.Context, recs seghandler.Segments, _ net.Addr) (chan segverifier.UnitResult, int) {
	units := segverifier.BuildUnits(recs.Segs)
	ch := make(chan segverifier.UnitResult, len(units))
	for _, u := range units {
		ch <- segverifier.UnitResult{Unit: u, Errors: map[int]error{}}
	}
	return ch, len(units)
}

type nextHopper struct{ local *asys }

func (n nextHopper) UnderlayNextHop(id uint16) *net.UDPAddr {
	if n.local.intfs[id] == nil {
		return nil
	}
	return &net.UDPAddr{IP: net.IPv4(10, 0, byte(id>>8), byte(id)), Port: 30042}
}

type neverLocal struct{}

func (neverLocal) IsSegLocal(segfetcher.Request) bool { return false }

type dstProvider struct{}

func (dstProvider) Dst(context.Context, segfetcher.Request) (net.Addr, error) {
	return &snet.SVCAddr{SVC: addr.SvcCS}, nil
}

// recSplitter records what the real splitter returned inside GetPaths.
type recSplitter struct {
	inner segfetcher.Splitter
	reqs  segfetcher.Requests
	err   error
	n     int
}

func (s *recSplitter) Split(ctx context.Context, dst addr.IA) (segfetcher.Requests, error) {
	s.reqs, s.err = s.inner.Split(ctx, dst)
	s.n++
	return s.reqs, s.err
}

// faultPlan is drawn on the simulator goroutine before a lookup; the RPC stub (called from the requester's
// worker goroutines) only reads it, so no tape decision depends on goroutine order.
type faultPlan struct {
	failTries int           // first n tries fail
	unreach   bool          // fail with ErrNotReachable (no retry)
	delay     time.Duration // extra delay of the successful reply (multiple of 10 ms)
	partial   uint32        // bit i set: i-th matching segment is withheld
	stale     bool          // also returns superseded versions
	extra     bool          // also returns authentic segments nobody asked for
}

type rpcRecord struct {
	calls    int
	req      segfetcher.Request
	returned int
	matching int
	released time.Time
	fate     string
}

// pathServers is the RPC seam: the remote path servers answering from ground truth.
type pathServers struct {
	w     *world
	mu    sync.Mutex
	start time.Time
	plan  map[seg.Type]*faultPlan
	rec   map[seg.Type]*rpcRecord
}

var baseDelay = map[seg.Type]time.Duration{seg.TypeUp: 1 * time.Millisecond, seg.TypeCore: 2 * time.Millisecond, seg.TypeDown: 3 * time.Millisecond}

func (ps *pathServers) Segments(ctx context.Context, req segfetcher.Request, _ net.Addr) (segfetcher.SegmentsReply, error) {
	ps.mu.Lock()
	plan := ps.plan[req.SegType]
	rec := ps.rec[req.SegType]
	if rec == nil {
		rec = &rpcRecord{req: req}
		ps.rec[req.SegType] = rec
	}
	rec.calls++
	try := rec.calls
	ps.mu.Unlock()
	if plan.unreach {
		rec.fate = "unreachable"
		return segfetcher.SegmentsReply{}, segfetcher.ErrNotReachable
	}
	if try <= plan.failTries {
		rec.fate = "failed"
		return segfetcher.SegmentsReply{}, errors.New("simulated RPC failure")
	}
	// the reply is released at an absolute instant that is distinct per segment type, so that the order in
	// which replies are processed is decided by the simulated clock
	release := ps.start.Add(baseDelay[req.SegType] + plan.delay)
	if d := time.Until(release); d > 0 {
		t := time.NewTimer(d)
		defer t.Stop()
		select {
		case <-t.C:
		case <-ctx.Done():
			rec.fate = "timeout"
			return segfetcher.SegmentsReply{}, ctx.Err()
		}
	}
	if ctx.Err() != nil {
		rec.fate = "timeout"
		return segfetcher.SegmentsReply{}, ctx.Err()
	}
	metas, matching := ps.w.answer(req, plan)
	rec.fate, rec.returned, rec.matching, rec.released = "ok", len(metas), matching, time.Now()
	return segfetcher.SegmentsReply{Segments: metas, Peer: &snet.SVCAddr{SVC: addr.SvcCS}}, nil
}

// ---- the world of one run ----

type world struct {
	r      *core.Run
	tp     *topo
	walks  []*walk
	truth  map[int][]*segInst // per walk id, oldest first
	local  *asys
	revs   *revModel
	cache  revcache.RevCache
	pathDB *pathsqlite.Backend
	pather *segfetcher.Pather
	split  *recSplitter
	insp   *inspector
	rpc    *pathServers
	qi     time.Duration
	faulty bool
	// byz: path servers may also return authentic segments nobody asked for (campaign byz only)
	byz bool
	// instants at which a non-empty reply was processed (next-query times are derived from them with jitter)
	fetchInstants []time.Time
	lookups       int
	lastCrossed   []crossing // interfaces of the paths the latest successful lookup handed out
}

func matches(pattern addr.IA, ia addr.IA) bool {
	if pattern.IsWildcard() {
		return pattern.ISD() == ia.ISD()
	}
	return pattern.Equal(ia)
}

// answer: what the path servers hold for the request (newest version of every matching walk; the servers have
// not necessarily cleaned up expired segments), modified by the fault plan.
func (w *world) answer(req segfetcher.Request, plan *faultPlan) ([]*seg.Meta, int) {
	var out []*seg.Meta
	matching := 0
	add := func(inst *segInst, t seg.Type) {
		// over the wire: the receiver gets its own copy
		cp, err := seg.SegmentFromPB(seg.PathSegmentToPB(inst.ps))
		if err != nil {
			panic(core.InfraError{Msg: "segment round trip: " + err.Error()})
		}
		out = append(out, &seg.Meta{Segment: cp, Type: t})
	}
	for _, wk := range w.walks {
		insts := w.truth[wk.id]
		if len(insts) == 0 {
			continue
		}
		var ok bool
		switch req.SegType {
		case seg.TypeUp:
			ok = !wk.core && matches(req.Src, wk.last().ia) && matches(req.Dst, wk.first().ia)
		case seg.TypeDown:
			ok = !wk.core && matches(req.Src, wk.first().ia) && matches(req.Dst, wk.last().ia)
		case seg.TypeCore:
			ok = wk.core && matches(req.Src, wk.last().ia) && matches(req.Dst, wk.first().ia)
		}
		if !ok {
			if plan.extra && wk.core == (req.SegType == seg.TypeCore) && wk.id%3 == 0 {
				add(insts[len(insts)-1], req.SegType)
			}
			continue
		}
		if plan.partial&(1<<uint(matching%32)) != 0 {
			matching++
			continue
		}
		matching++
		if plan.stale {
			for _, in := range insts[:len(insts)-1] {
				add(in, req.SegType)
			}
		}
		add(insts[len(insts)-1], req.SegType)
	}
	return out, matching
}

var dbSeq int

func newWorld(r *core.Run, faulty bool) *world {
	w := &world{r: r, faulty: faulty, truth: map[int][]*segInst{}, revs: &revModel{m: map[revKey]revEntry{}}}
	w.tp = genTopo(r)
	w.walks = w.tp.genWalks(r, 3+r.Choice("walk.budget", 4))
	w.local = w.tp.ases[r.Choice("local", len(w.tp.ases))]
	w.qi = []time.Duration{300 * time.Second, 20 * time.Second, 3600 * time.Second}[r.Choice("queryinterval", 3)]
	dbSeq++
	var err error
	w.pathDB, err = pathsqlite.New(fmt.Sprintf("file:pathsim-%d", dbSeq), &db.SqliteConfig{InMemory: true})
	if err != nil {
		panic(core.InfraError{Msg: "path db: " + err.Error()})
	}
	w.cache = memrevcache.New()
	w.insp = &inspector{tp: w.tp}
	w.rpc = &pathServers{w: w}
	w.split = &recSplitter{inner: &segfetcher.MultiSegmentSplitter{LocalIA: w.local.ia, Core: w.local.core, Inspector: w.insp}}
	retries := 0
	if faulty {
		retries = r.Choice("requester.retries", 3)
	}
	w.pather = &segfetcher.Pather{
		IA:         w.local.ia,
		MTU:        1400,
		NextHopper: nextHopper{w.local},
		RevCache:   w.cache,
		Fetcher: &segfetcher.Fetcher{
			QueryInterval: w.qi,
			PathDB:        w.pathDB,
			Resolver:      segfetcher.NewResolver(w.pathDB, w.cache, neverLocal{}),
			ReplyHandler: &seghandler.Handler{
				Verifier: acceptAll{},
				Storage:  &seghandler.DefaultStorage{PathDB: w.pathDB, RevCache: w.cache},
			},
			Requester: &segfetcher.DefaultRequester{RPC: w.rpc, DstProvider: dstProvider{}, MaxRetries: retries},
			Metrics:   fetcherMetricsVal,
		},
		Splitter: w.split,
	}
	return w
}

// one set of (prometheus) counters per process
var fetcherMetricsVal = segfetcher.NewFetcherMetrics("pathsim")

// beacon registers a new version of some walks at the path servers (timestamp: now minus a drawn age).
func (w *world) beacon(all bool, maxAge int) int {
	n := 0
	for _, wk := range w.walks {
		if !all && !w.r.Chance("beacon.walk", 1, 2) {
			continue
		}
		age := time.Duration(w.r.Choice("beacon.age.s", maxAge+1)) * time.Second
		inst := w.tp.instantiate(w.r, wk, time.Now().Add(-age))
		// path servers keep a newer version only
		if l := w.truth[wk.id]; len(l) > 0 && !inst.ts.After(l[len(l)-1].ts) {
			continue
		}
		w.truth[wk.id] = append(w.truth[wk.id], inst)
		n++
	}
	return n
}

// align sleeps to the next instant of the form whole second + 250 ms: hop-field and revocation expiries lie on
// multiples of 0.5 s, so no judged instant coincides with one.
func align() {
	now := time.Now()
	t := now.Truncate(time.Second).Add(250 * time.Millisecond)
	for !t.After(now) {
		t = t.Add(time.Second)
	}
	time.Sleep(t.Sub(now))
}

// advance moves the clock by d, then past any window in which a stored next-query time may lie (those carry
// an uncontrolled +-10% jitter: 2 s or the query interval after a processed reply), so that "served from the
// cache or fetched" never depends on the jitter.
func (w *world) advance(d time.Duration) {
	time.Sleep(d)
	align()
	w.settle()
}

// settle moves the clock out of the next-query jitter windows; called before every lookup.
func (w *world) settle() {
	for moved := true; moved; {
		moved = false
		now := time.Now()
		for _, t := range w.fetchInstants {
			for _, win := range [][2]time.Duration{{1500 * time.Millisecond, 2500 * time.Millisecond}, {w.qi * 85 / 100, w.qi * 115 / 100}} {
				lo, hi := t.Add(win[0]), t.Add(win[1])
				if !now.Before(lo) && !now.After(hi) {
					time.Sleep(hi.Sub(now) + time.Millisecond)
					align()
					now = time.Now()
					moved = true
				}
			}
		}
	}
}

func (w *world) pickDst() (addr.IA, string) {
	r := w.r
	switch r.Choice("dst.kind", 8) {
	case 0, 1, 2, 3:
		a := w.tp.ases[r.Choice("dst.as", len(w.tp.ases))]
		if a == w.local {
			return a.ia, "local"
		}
		return a.ia, "as"
	case 4:
		return addr.MustIAFrom(w.local.ia.ISD(), 0), "wildcard-own-isd"
	case 5:
		isd := w.tp.isds[r.Choice("dst.isd", len(w.tp.isds))]
		return addr.MustIAFrom(addr.ISD(isd), 0), "wildcard"
	case 6:
		return w.local.ia, "local"
	default:
		// an AS that does not exist (in an existing or a non-existing ISD)
		isd := 1 + r.Choice("dst.unknown.isd", 4)
		return addr.MustIAFrom(addr.ISD(isd), addr.AS(0xff00_0000_0999)), "unknown"
	}
}

func (w *world) drawPlan() map[seg.Type]*faultPlan {
	r := w.r
	plan := map[seg.Type]*faultPlan{}
	for _, t := range []seg.Type{seg.TypeUp, seg.TypeCore, seg.TypeDown} {
		p := &faultPlan{}
		plan[t] = p
		if !w.faulty {
			continue
		}
		switch r.Choice("fetch.fault."+t.String(), 10) {
		case 1:
			p.failTries = 1 + r.Choice("fetch.fail.tries", 3)
		case 2:
			p.unreach = true
		case 3:
			p.partial = uint32(r.Choice("fetch.partial.mask", 1<<16))
		case 4:
			p.delay = time.Duration(1+r.Choice("fetch.delay.10ms", 30)) * 10 * time.Millisecond
		case 5:
			p.delay = time.Duration(1+r.Choice("fetch.delay.s", 12)) * time.Second
		case 6:
			p.stale = true
		case 7:
			p.extra = w.byz
		}
	}
	return plan
}

func (w *world) lookup() {
	r := w.r
	w.settle()
	dst, kind := w.pickDst()
	refresh := r.Chance("lookup.refresh", 1, 5)
	timeout := []time.Duration{5 * time.Second, 1 * time.Second, 20 * time.Second}[r.Choice("lookup.timeout", 3)]
	w.rpc.plan = w.drawPlan()
	w.rpc.rec = map[seg.Type]*rpcRecord{}
	w.rpc.start = time.Now()
	w.insp.fail = w.faulty && r.FaultChance("inspect.fail", 1, 20)
	w.split.reqs, w.split.err, w.split.n = nil, nil, 0
	start := time.Now()
	ctx, cancel := context.WithTimeout(context.Background(), timeout)
	paths, err := w.pather.GetPaths(ctx, dst, refresh)
	cancel()
	w.lookups++
	lk := &lookup{local: w.local, dst: dst, now: time.Now(), paths: paths, err: err}
	r.Logf("t+%v lookup %s(core=%v) -> %s [%s] refresh=%v timeout=%v: %d paths err=%v took %v", start.Sub(t0), w.local.ia, w.local.core,
		dst, kind, refresh, timeout, len(paths), err != nil, lk.now.Sub(start))
	// what happened at the seams
	fetched, cached := 0, 0
	if w.split.n > 0 && w.split.err == nil {
		r.Logf("  requests %s", reqsString(w.split.reqs))
		for _, q := range w.split.reqs {
			rec := w.rpc.rec[q.SegType]
			if rec == nil {
				cached++
				r.Logf("  %s: served from the path DB", q.SegType)
				continue
			}
			fetched++
			p := w.rpc.plan[q.SegType]
			r.Logf("  %s: fetched %s->%s calls=%d fate=%s returned=%d of %d", q.SegType, rec.req.Src, rec.req.Dst, rec.calls, rec.fate, rec.returned, rec.matching)
			switch {
			case rec.fate == "timeout":
				r.Fault("fetch.delay.timeout")
			case rec.fate == "unreachable":
				r.Fault("fetch.fail.unreachable")
			case rec.fate == "failed":
				r.Fault("fetch.fail")
			case rec.calls > 1:
				r.Fault("fetch.fail.retried")
			}
			if rec.fate == "ok" {
				if p.delay > 0 {
					r.Fault("fetch.delay")
				}
				if p.partial != 0 && rec.returned < rec.matching {
					r.Fault("fetch.partial")
				}
				if p.stale {
					r.Fault("fetch.stale")
				}
				if p.extra {
					r.Fault("fetch.extra")
				}
				if rec.returned > 0 {
					w.fetchInstants = append(w.fetchInstants, rec.released)
				}
			}
		}
		switch {
		case fetched == 0 && cached > 0:
			r.Probe("lookup-served-from-cache")
		case fetched > 0 && cached > 0:
			r.Probe("lookup-partly-cached")
		case fetched > 0:
			r.Probe("lookup-fetched")
		}
		if refresh && fetched > 0 {
			r.Probe("lookup-refresh")
		}
	}
	// oracles
	var fails []failure
	if w.split.n > 0 && w.split.err == nil {
		fails = append(fails, w.tp.judgeSplit(w.local, dst, w.split.reqs)...)
	}
	if w.split.n > 1 {
		fails = append(fails, failure{"c30-split-twice", "split-twice", "the splitter was asked more than once for one lookup"})
	}
	if !w.faulty && err != nil {
		fails = append(fails, failure{"c30-clean-error", "clean-error", fmt.Sprintf("lookup %s -> %s failed without any injected fault: %v", w.local.ia, dst, err)})
	}
	fails = append(fails, w.tp.judgePaths(lk, w.revs)...)
	if len(lk.crossed) > 0 {
		w.lastCrossed = lk.crossed
	}
	for _, k := range core.SortedKeys(lk.kinds) {
		r.Probe(k)
	}
	for _, s := range lk.rendered {
		r.Logf("  path %s", s)
	}
	if dst.Equal(w.local.ia) {
		r.Probe("local-lookup")
	} else if len(paths) > 0 {
		r.Probe("paths-returned")
		r.Nontrivial = true
		if kind == "wildcard" || kind == "wildcard-own-isd" {
			r.Probe("wildcard-paths-returned")
		}
	}
	w.classify(lk, kind, fetched, cached)
	if len(fails) > 0 {
		f := smallest(fails)
		r.Fail(f.check, f.sig, "%s", f.msg)
	}
}

// classify records the coverage tuple and the probes about what the filters had to do in this lookup.
func (w *world) classify(lk *lookup, kind string, fetched, cached int) {
	r := w.r
	dstCore := lk.dst.IsWildcard() || w.tp.isCore(lk.dst)
	regime := "none"
	switch {
	case fetched > 0 && cached > 0:
		regime = "mixed"
	case fetched > 0:
		regime = "fetch"
	case cached > 0:
		regime = "cache"
	}
	r.Covered(fmt.Sprintf("src-core=%v/dst=%s-core=%v/same-isd=%v/single-core=%v/%s/paths=%d", w.local.core, kind, dstCore,
		w.local.ia.ISD() == lk.dst.ISD(), len(w.tp.cores[int(w.local.ia.ISD())]) == 1, regime, min(len(lk.paths), 2)))
	if lk.dst.Equal(w.local.ia) {
		return
	}
	// ground truth about temptation: were there expired or revoked segments the lookup could have used?
	expired, revoked, live := 0, 0, 0
	for _, wk := range w.walks {
		for _, in := range w.truth[wk.id] {
			if !in.minExpiry().After(lk.now) {
				expired++
				continue
			}
			rv := false
			for i, a := range wk.ases {
				for _, id := range []uint16{wk.in[i], wk.eg[i]} {
					if id != 0 && w.revs.active(lk.now, revKey{a.ia, id}) {
						rv = true
					}
				}
			}
			if rv {
				revoked++
			} else {
				live++
			}
		}
	}
	if expired > 0 {
		r.Probe("lookup-with-expired-segments-around")
	}
	if revoked > 0 {
		r.Probe("lookup-with-revoked-segments-around")
	}
	if len(lk.paths) == 0 && lk.err == nil && (expired > 0 || revoked > 0) && live == 0 {
		r.Probe("lookup-everything-expired-or-revoked")
	}
}

var t0 = time.Date(2000, 1, 1, 0, 0, 0, 0, time.UTC)

func (w *world) revInsert() {
	r := w.r
	// an interface of the topology, preferably one that lies on a registered segment
	var cands []revKey
	for _, a := range w.tp.ases {
		for _, id := range a.sortedIfIDs() {
			cands = append(cands, revKey{a.ia, id})
		}
	}
	if len(cands) == 0 {
		return
	}
	k := cands[r.Choice("rev.if", len(cands))]
	if len(w.lastCrossed) > 0 && r.Chance("rev.onpath", 1, 2) {
		// an interface of a path that an earlier lookup handed out
		c := w.lastCrossed[r.Choice("rev.onpath.if", len(w.lastCrossed))]
		k = revKey{c.ia, c.id}
	}
	now := time.Now()
	// timestamps: seconds before now (possibly long ago: already expired on arrival) or slightly ahead
	back := []int{0, 1, 5, 30, 120, 600, -1}[r.Choice("rev.age", 7)]
	ttl := []int{10, 20, 60, 300, 1200, 15}[r.Choice("rev.ttl", 6)]
	ts := now.Truncate(time.Second).Add(-time.Duration(back) * time.Second)
	rev := &path_mgmt.RevInfo{IfID: iface.ID(k.id), RawIsdas: k.ia, RawTimestamp: uint32(ts.Unix()), RawTTL: uint32(ttl)}
	ok, err := w.cache.Insert(context.Background(), rev)
	if err != nil {
		panic(core.InfraError{Msg: "revcache insert: " + err.Error()})
	}
	want := w.revs.insert(now, k, ts, time.Duration(ttl)*time.Second)
	r.Fault("rev.insert")
	r.Logf("t+%v rev.insert %s#%d ts=now-%ds ttl=%ds: cache accepted=%v model accepted=%v", now.Sub(t0), k.ia, k.id, back, ttl, ok, want)
	if want {
		r.Probe("rev-live-inserted")
	}
}

func run(r *core.Run, faulty, byz bool) {
	core.Bubble(r, func(t *testing.T) {
		// start two hours into the bubble's epoch so that segment timestamps in the past are unremarkable
		time.Sleep(2 * time.Hour)
		align()
		w := newWorld(r, faulty)
		w.byz = byz
		defer w.pathDB.Close()
		r.Logf("topology: %s", w.tp.describe())
		r.Logf("local %s core=%v, %d walks, query interval %v", w.local.ia, w.local.core, len(w.walks), w.qi)
		n := w.beacon(true, 1500)
		r.Logf("initial beaconing: %d segments", n)
		begin := time.Now()
		nOps := 4 + r.Choice("ops", 14)
		for i := 0; i < nOps && !r.Failed(); i++ {
			switch r.Choice("op", 12) {
			case 0, 1, 2, 3, 4:
				w.lookup()
				align()
			case 5:
				d := time.Duration(1+r.Choice("adv.s", 8)) * time.Second
				w.advance(d)
				r.Logf("t+%v clock +%v", time.Now().Sub(t0), d)
			case 6:
				d := time.Duration(1+r.Choice("adv.m", 12)) * 30 * time.Second
				w.advance(d)
				r.Logf("t+%v clock +%v", time.Now().Sub(t0), d)
			case 7:
				d := time.Duration(1+r.Choice("jump.m", 16)) * 150 * time.Second
				w.advance(d)
				r.Fault("clock.jump")
				r.Logf("t+%v clock jump +%v", time.Now().Sub(t0), d)
			case 8, 9:
				w.revInsert()
			default:
				if r.Chance("maint.kind", 1, 3) {
					nrev, _ := w.cache.DeleteExpired(context.Background())
					nseg, err := w.pathDB.DeleteExpired(context.Background(), time.Now())
					if err != nil {
						panic(core.InfraError{Msg: "path db cleanup: " + err.Error()})
					}
					r.Logf("t+%v cleanup: %d revocations, %d segments deleted", time.Now().Sub(t0), nrev, nseg)
					if nseg > 0 {
						r.Probe("db-expired-segments-deleted")
					}
				} else {
					n := w.beacon(false, 0)
					r.Logf("t+%v re-beaconing: %d new segment versions", time.Now().Sub(t0), n)
					if n > 0 {
						r.Probe("rebeaconed")
					}
				}
			}
		}
		if w.lookups == 0 && !r.Failed() {
			w.lookup()
		}
		r.SimNS = int64(time.Now().Sub(begin))
		ases := make([]string, 0)
		for _, a := range w.tp.ases {
			ases = append(ases, a.ia.String())
		}
		sort.Strings(ases)
		r.Sample = map[string]any{"ases": len(ases), "isds": len(w.tp.isds), "walks": len(w.walks), "local": w.local.ia.String(),
			"local_core": w.local.core, "lookups": w.lookups}
	})
}

func runClean(r *core.Run)  { run(r, false, false) }
func runFaulty(r *core.Run) { run(r, true, false) }

// runByz = faulty plus path servers that return authentic segments nobody asked for (fetch.extra). Not part
// of the claimed campaigns: see the report (wildcard destinations trust whatever core segments come back).
func runByz(r *core.Run) { run(r, true, true) }
