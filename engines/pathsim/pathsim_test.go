//go:build verif

// Package pathsim: the real path lookup of a host (segfetcher.Pather over MultiSegmentSplitter, Fetcher,
// DefaultResolver, DefaultRequester, seghandler, sqlite path DB, memrevcache, combinator) against simulated
// path servers, a simulated clock and a history of revocations. Property C30.
package pathsim

import (
	"testing"

	"verif/sim/core"
)

func TestWorker(t *testing.T) {
	core.Main(t, core.Engine{Name: "pathsim", Campaigns: map[string]core.RunFunc{
		"C30/clean":  runClean,
		"C30/faulty": runFaulty,
		"C30/byz":    runByz,
	}})
}
