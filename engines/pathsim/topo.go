//go:build verif

package pathsim

import (
	"context"
	"crypto"
	"crypto/ecdsa"
	"crypto/elliptic"
	"crypto/rand"
	"fmt"
	"hash"
	"io"
	"sort"
	"strings"
	"time"

	"github.com/scionproto/scion/control/beaconing"
	"github.com/scionproto/scion/control/ifstate"
	"github.com/scionproto/scion/pkg/addr"
	cryptopb "github.com/scionproto/scion/pkg/proto/crypto"
	"github.com/scionproto/scion/pkg/scrypto"
	"github.com/scionproto/scion/pkg/scrypto/cppki"
	"github.com/scionproto/scion/pkg/scrypto/signed"
	seg "github.com/scionproto/scion/pkg/segment"
	"github.com/scionproto/scion/pkg/segment/extensions/discovery"
	"github.com/scionproto/scion/private/topology"
	"verif/sim/core"
)

// ---- topology ground truth (stub: drawn from the tape) ----

type intf struct {
	id       uint16
	owner    *asys
	remote   *asys
	remoteID uint16
	lt       topology.LinkType // as seen from owner: Core, Parent (remote is parent), Child, Peer
}

type asys struct {
	ia    addr.IA
	isd   int
	core  bool
	depth int
	intfs map[uint16]*intf
	next  uint16 // next interface id
	step  uint16
	ifst  *ifstate.Interfaces
}

func (a *asys) sortedIfIDs() []uint16 {
	ids := make([]uint16, 0, len(a.intfs))
	for id := range a.intfs {
		ids = append(ids, id)
	}
	sort.Slice(ids, func(i, j int) bool { return ids[i] < ids[j] })
	return ids
}

type topo struct {
	ases  []*asys
	byIA  map[addr.IA]*asys
	isds  []int
	cores map[int][]*asys // per ISD, in creation order
	mac   func() hash.Hash
	key   *ecdsa.PrivateKey
	// maxExp is what the extender of the AS currently being walked uses (set per hop by walkSeg).
	curExp uint8
}

func (tp *topo) newAS(isd int, asn uint64, isCore bool, r *core.Run) *asys {
	a := &asys{ia: addr.MustIAFrom(addr.ISD(isd), addr.AS(asn)), isd: isd, core: isCore, intfs: map[uint16]*intf{}}
	a.next = uint16(1 + r.Choice("ifid.base", 50))
	a.step = uint16(1 + r.Choice("ifid.step", 3))
	tp.ases = append(tp.ases, a)
	tp.byIA[a.ia] = a
	if isCore {
		tp.cores[isd] = append(tp.cores[isd], a)
	}
	return a
}

func (a *asys) newIfID() uint16 {
	id := a.next
	a.next += a.step
	return id
}

// link connects a and b; lt is the type seen from a (Core, Child = b is a's child, Peer).
func (tp *topo) link(a, b *asys, lt topology.LinkType) {
	ai, bi := a.newIfID(), b.newIfID()
	back := lt
	if lt == topology.Child {
		back = topology.Parent
	}
	a.intfs[ai] = &intf{id: ai, owner: a, remote: b, remoteID: bi, lt: lt}
	b.intfs[bi] = &intf{id: bi, owner: b, remote: a, remoteID: ai, lt: back}
}

// genTopo draws 1-3 ISDs with 1-3 core ASes each (single-core ISDs included), non-core ASes in a
// parent-child DAG below them, and a few peering links.
func genTopo(r *core.Run) *topo {
	tp := &topo{byIA: map[addr.IA]*asys{}, cores: map[int][]*asys{}}
	nISD := 1 + r.Choice("topo.isds", 3)
	var nonCore []*asys
	for i := 1; i <= nISD; i++ {
		tp.isds = append(tp.isds, i)
		nCore := 1 + r.Choice("topo.cores", 3)
		for k := 0; k < nCore; k++ {
			tp.newAS(i, uint64(0xff00_0000_0000+i*0x100+0x10+k), true, r)
		}
		cs := tp.cores[i]
		for j := 0; j < len(cs); j++ {
			for k := j + 1; k < len(cs); k++ {
				if k == j+1 || r.Chance("topo.coremesh", 1, 2) {
					tp.link(cs[j], cs[k], topology.Core)
				}
			}
		}
		if i > 1 {
			// connect to an earlier ISD (keeps the core network connected), sometimes twice
			n := 1 + r.Choice("topo.isdlinks", 2)
			for k := 0; k < n; k++ {
				o := 1 + r.Choice("topo.isdlink.to", i-1)
				a := cs[r.Choice("topo.isdlink.a", len(cs))]
				ocs := tp.cores[o]
				b := ocs[r.Choice("topo.isdlink.b", len(ocs))]
				tp.link(a, b, topology.Core)
			}
		}
		nNC := r.Choice("topo.noncore", 5)
		var mine []*asys
		for k := 0; k < nNC; k++ {
			a := tp.newAS(i, uint64(0xff00_0000_0000+i*0x100+0x20+k), false, r)
			// candidate parents: cores of the ISD and earlier non-core ASes of the ISD (depth < 3)
			cands := append([]*asys(nil), cs...)
			for _, m := range mine {
				if m.depth < 3 {
					cands = append(cands, m)
				}
			}
			np := 1 + r.Choice("topo.parents", 2)
			for p := 0; p < np; p++ {
				par := cands[r.Choice("topo.parent", len(cands))]
				tp.link(par, a, topology.Child)
				a.depth = max(a.depth, par.depth+1)
			}
			mine = append(mine, a)
		}
		nonCore = append(nonCore, mine...)
	}
	if len(nonCore) >= 2 {
		np := r.Choice("topo.peerings", 3)
		for k := 0; k < np; k++ {
			a := nonCore[r.Choice("topo.peer.a", len(nonCore))]
			b := nonCore[r.Choice("topo.peer.b", len(nonCore))]
			if a != b {
				tp.link(a, b, topology.Peer)
			}
		}
	}
	for _, a := range tp.ases {
		m := map[uint16]ifstate.InterfaceInfo{}
		for id, in := range a.intfs {
			m[id] = ifstate.InterfaceInfo{ID: id, IA: in.remote.ia, LinkType: in.lt, RemoteID: in.remoteID, MTU: 1300}
		}
		a.ifst = ifstate.NewInterfaces(m, ifstate.Config{})
	}
	var err error
	tp.mac, err = scrypto.HFMacFactory([]byte("pathsim-shared-master-key-0123456789"))
	if err != nil {
		panic(core.InfraError{Msg: "mac factory: " + err.Error()})
	}
	tp.key, err = ecdsa.GenerateKey(elliptic.P256(), rand.Reader)
	if err != nil {
		panic(core.InfraError{Msg: "keygen: " + err.Error()})
	}
	return tp
}

func (tp *topo) describe() string {
	var sb strings.Builder
	for _, a := range tp.ases {
		fmt.Fprintf(&sb, "%s core=%v [", a.ia, a.core)
		for _, id := range a.sortedIfIDs() {
			in := a.intfs[id]
			fmt.Fprintf(&sb, "%d:%s->%s#%d ", id, in.lt, in.remote.ia, in.remoteID)
		}
		sb.WriteString("] ")
	}
	return sb.String()
}

func (tp *topo) isCore(ia addr.IA) bool {
	a := tp.byIA[ia]
	return a != nil && a.core
}

// ---- segments: real pkg/segment segments built by the real beacon extender along topology walks ----

// rfc6979Key signs deterministically (rand == nil).
type rfc6979Key struct{ k *ecdsa.PrivateKey }

func (k rfc6979Key) Public() crypto.PublicKey { return k.k.Public() }
func (k rfc6979Key) Sign(_ io.Reader, digest []byte, opts crypto.SignerOpts) ([]byte, error) {
	return k.k.Sign(nil, digest, opts)
}

// dummySigner: one key for every AS; nothing in this engine verifies signatures (another property).
type dummySigner struct {
	key *ecdsa.PrivateKey
	ia  addr.IA
}

func (s dummySigner) Sign(ctx context.Context, msg []byte, ad ...[]byte) (*cryptopb.SignedMessage, error) {
	l := 0
	for _, d := range ad {
		l += len(d)
	}
	hdr := signed.Header{SignatureAlgorithm: signed.ECDSAWithSHA256, Timestamp: time.Now(), AssociatedDataLength: l,
		VerificationKeyID: []byte(s.ia.String())}
	return signed.Sign(hdr, msg, rfc6979Key{s.key}, ad...)
}

func (s dummySigner) Validity() cppki.Validity {
	return cppki.Validity{NotBefore: time.Unix(0, 0), NotAfter: time.Now().Add(100000 * time.Hour)}
}

func (tp *topo) extender(a *asys) *beaconing.DefaultExtender {
	return &beaconing.DefaultExtender{
		IA: a.ia,
		SignerGen: beaconing.SignerGenFunc(func(ctx context.Context) ([]beaconing.Signer, error) {
			return []beaconing.Signer{dummySigner{tp.key, a.ia}}, nil
		}),
		MAC:                  tp.mac,
		Intfs:                a.ifst,
		MTU:                  1400,
		MaxExpTime:           func() uint8 { return tp.curExp },
		Task:                 "pathsim",
		StaticInfo:           func() *beaconing.StaticInfoCfg { return nil },
		DiscoveryInformation: func() *discovery.Extension { return nil },
	}
}

// walk is a beacon walk in construction direction: the identity of a segment across re-beaconing.
type walk struct {
	id     int
	ases   []*asys
	in, eg []uint16
	core   bool
}

func (w *walk) first() *asys { return w.ases[0] }
func (w *walk) last() *asys  { return w.ases[len(w.ases)-1] }
func (w *walk) String() string {
	var sb strings.Builder
	for i, a := range w.ases {
		fmt.Fprintf(&sb, "%d>%s>%d ", w.in[i], a.ia, w.eg[i])
	}
	return strings.TrimSpace(sb.String())
}

// segInst is one registered version of a walk (ground truth at the path servers).
type segInst struct {
	w    *walk
	ps   *seg.PathSegment
	ts   time.Time
	exps []uint8
}

// minExpiry from the simulator's own record of what it asked the ASes to issue.
func (s *segInst) minExpiry() time.Time {
	m := s.ts.Add(hopLifetime(s.exps[0]))
	for _, e := range s.exps {
		if t := s.ts.Add(hopLifetime(e)); t.Before(m) {
			m = t
		}
	}
	return m
}

// hopLifetime: a hop field with relative expiry e is valid for (e+1) * 24h/256 (= 337.5 s) after the
// segment timestamp (SCION header specification).
func hopLifetime(e uint8) time.Duration {
	return time.Duration(int(e)+1) * (24 * time.Hour / 256)
}

// genWalks enumerates core walks (over core links) and down walks (over parent->child links) from every
// core AS; which walks fit the per-origin budget is a tape decision.
func (tp *topo) genWalks(r *core.Run, maxPerOrigin int) []*walk {
	var out []*walk
	for _, o := range tp.ases {
		if !o.core {
			continue
		}
		for _, coreWalk := range []bool{true, false} {
			count := 0
			var dfs func(ases []*asys, in, eg []uint16, depth int)
			dfs = func(ases []*asys, in, eg []uint16, depth int) {
				cur := ases[len(ases)-1]
				if len(ases) > 1 {
					w := &walk{id: len(out), ases: append([]*asys(nil), ases...), in: append([]uint16(nil), in...),
						eg: append(append([]uint16(nil), eg...), 0), core: coreWalk}
					out = append(out, w)
					count++
				}
				if depth >= 3 || count >= maxPerOrigin {
					return
				}
				ids := cur.sortedIfIDs()
				if len(ids) > 1 {
					k := r.Choice("walk.rot", len(ids))
					ids = append(append([]uint16(nil), ids[k:]...), ids[:k]...)
				}
				for _, id := range ids {
					l := cur.intfs[id]
					if coreWalk && l.lt != topology.Core {
						continue
					}
					if !coreWalk && l.lt != topology.Child {
						continue
					}
					seen := false
					for _, a := range ases {
						if a == l.remote {
							seen = true
						}
					}
					if seen {
						continue
					}
					dfs(append(append([]*asys(nil), ases...), l.remote), append(append([]uint16(nil), in...), l.remoteID),
						append(append([]uint16(nil), eg...), id), depth+1)
					if count >= maxPerOrigin {
						return
					}
				}
			}
			dfs([]*asys{o}, []uint16{0}, nil, 0)
		}
	}
	return out
}

var expChoices = []uint8{255, 31, 11, 11, 5, 5, 2, 1, 0}

// instantiate builds a real segment for the walk with the given timestamp; every AS on the walk extends
// the beacon with its real extender, announcing its peering links (non-core walks).
func (tp *topo) instantiate(r *core.Run, w *walk, ts time.Time) *segInst {
	ps, err := seg.CreateSegment(ts, uint16(r.Choice("seg.id", 1<<16)))
	if err != nil {
		panic(core.InfraError{Msg: "create segment: " + err.Error()})
	}
	base := expChoices[r.Choice("seg.exp", len(expChoices))]
	inst := &segInst{w: w, ps: ps, ts: ps.Info.Timestamp}
	for i, a := range w.ases {
		e := base
		if r.Chance("seg.hopexp", 1, 4) {
			e = expChoices[r.Choice("seg.hopexp.v", len(expChoices))]
		}
		tp.curExp = e
		var peers []uint16
		if !w.core {
			for _, id := range a.sortedIfIDs() {
				if a.intfs[id].lt == topology.Peer {
					peers = append(peers, id)
				}
			}
		}
		if err := tp.extender(a).Extend(context.Background(), ps, w.in[i], w.eg[i], peers); err != nil {
			panic(core.InfraError{Msg: fmt.Sprintf("extend %s at %s: %v", w, a.ia, err)})
		}
		inst.exps = append(inst.exps, e)
	}
	return inst
}
