//go:build verif

package pathsim

import (
	"encoding/binary"
	"fmt"
	"sort"
	"strings"
	"time"

	"github.com/scionproto/scion/pkg/addr"
	seg "github.com/scionproto/scion/pkg/segment"
	"github.com/scionproto/scion/pkg/snet"
	snetpath "github.com/scionproto/scion/pkg/snet/path"
	"github.com/scionproto/scion/private/segment/segfetcher"
)

// ---- revocation reference model (written from the statement of C31: the cache keeps, per interface,
// the newest live revocation; a revocation is active from its insertion until timestamp+TTL) ----

type revKey struct {
	ia addr.IA
	id uint16
}

type revEntry struct{ ts, exp time.Time }

type revModel struct{ m map[revKey]revEntry }

func (m *revModel) insert(now time.Time, k revKey, ts time.Time, ttl time.Duration) bool {
	exp := ts.Add(ttl)
	if !exp.After(now) {
		return false
	}
	if old, ok := m.m[k]; ok && old.exp.After(now) && !ts.After(old.ts) {
		return false
	}
	m.m[k] = revEntry{ts, exp}
	return true
}

// active: definitely active / definitely not; an instant exactly on the expiry is don't-care (reported inactive).
func (m *revModel) active(now time.Time, k revKey) bool {
	e, ok := m.m[k]
	return ok && e.exp.After(now)
}

func (m *revModel) onBoundary(now time.Time, k revKey) bool {
	e, ok := m.m[k]
	return ok && e.exp.Equal(now)
}

// ---- raw SCION path decoder, written from the header specification (doc/protocols/scion-header.rst):
// PathMeta (4 bytes: CurrINF 2 bits, CurrHF 6, RSV 6, Seg0Len 6, Seg1Len 6, Seg2Len 6), then one 8-byte info
// field per segment (flags: bit0 C = construction direction, bit1 P = peering; RSV; SegID 2; Timestamp 4),
// then 12-byte hop fields (flags 1, ExpTime 1, ConsIngress 2, ConsEgress 2, MAC 6). ----

type rawInfo struct {
	consDir, peer bool
	ts            uint32
}

type rawHop struct {
	exp      uint8
	in, eg   uint16 // construction direction
	seg      int
	first    bool
	last     bool
}

type rawPath struct {
	currINF, currHF int
	infos           []rawInfo
	hops            []rawHop
}

func decodeRaw(b []byte) (*rawPath, error) {
	if len(b) < 4 {
		return nil, fmt.Errorf("raw path of %d bytes", len(b))
	}
	meta := binary.BigEndian.Uint32(b[:4])
	p := &rawPath{currINF: int(meta >> 30), currHF: int(meta>>24) & 0x3f}
	lens := []int{int(meta>>12) & 0x3f, int(meta>>6) & 0x3f, int(meta) & 0x3f}
	nseg, nhop := 0, 0
	for i, l := range lens {
		if l > 0 {
			if i != nseg {
				return nil, fmt.Errorf("segment length %d is zero but a later one is not", nseg)
			}
			nseg++
			nhop += l
		}
	}
	if nseg == 0 {
		return nil, fmt.Errorf("no segments")
	}
	if len(b) != 4+8*nseg+12*nhop {
		return nil, fmt.Errorf("raw path length %d, header announces %d segments and %d hop fields", len(b), nseg, nhop)
	}
	off := 4
	for s := 0; s < nseg; s++ {
		p.infos = append(p.infos, rawInfo{consDir: b[off]&1 != 0, peer: b[off]&2 != 0, ts: binary.BigEndian.Uint32(b[off+4 : off+8])})
		off += 8
	}
	for s := 0; s < nseg; s++ {
		for k := 0; k < lens[s]; k++ {
			p.hops = append(p.hops, rawHop{exp: b[off+1], in: binary.BigEndian.Uint16(b[off+2 : off+4]),
				eg: binary.BigEndian.Uint16(b[off+4 : off+6]), seg: s, first: k == 0, last: k == lens[s]-1})
			off += 12
		}
	}
	return p, nil
}

type crossing struct {
	ia addr.IA
	id uint16
}

func crossingsString(c []crossing) string {
	var sb strings.Builder
	for _, x := range c {
		fmt.Fprintf(&sb, "%s#%d ", x.ia, x.id)
	}
	return strings.TrimSpace(sb.String())
}

// follow walks the raw path through the topology ground truth starting at src: which ASes and interfaces a
// packet using this path would traverse, where it ends, and when the first hop field on it expires.
func (tp *topo) follow(src *asys, p *rawPath) (end *asys, crossed []crossing, expiry time.Time, err error) {
	cur := src
	for h, hop := range p.hops {
		inf := p.infos[hop.seg]
		e := time.Unix(int64(inf.ts), 0).Add(hopLifetime(hop.exp))
		if expiry.IsZero() || e.Before(expiry) {
			expiry = e
		}
		tin, teg := hop.in, hop.eg
		if !inf.consDir {
			tin, teg = hop.eg, hop.in
		}
		_ = tin
		lastOfPath := h == len(p.hops)-1
		if lastOfPath {
			break
		}
		if hop.last && !inf.peer {
			// segment change inside one AS: the next segment's first hop field belongs to the same AS
			continue
		}
		l := cur.intfs[teg]
		if teg == 0 || l == nil {
			return nil, crossed, expiry, fmt.Errorf("hop field %d leaves %s through interface %d, which it does not have", h, cur.ia, teg)
		}
		nxt := p.hops[h+1]
		ninf := p.infos[nxt.seg]
		nin := nxt.in
		if !ninf.consDir {
			nin = nxt.eg
		}
		if nin != l.remoteID {
			return nil, crossed, expiry, fmt.Errorf("hop field %d leaves %s through %d (to %s#%d) but hop field %d expects to be entered through %d",
				h, cur.ia, teg, l.remote.ia, l.remoteID, h+1, nin)
		}
		crossed = append(crossed, crossing{cur.ia, teg}, crossing{l.remote.ia, l.remoteID})
		cur = l.remote
	}
	return cur, crossed, expiry, nil
}

// changeAS is the AS in which the path changes from its first to its second segment (coverage probes only).
func (tp *topo) changeAS(src *asys, p *rawPath) *asys {
	first := &rawPath{infos: p.infos}
	for _, h := range p.hops {
		if h.seg == 0 {
			first.hops = append(first.hops, h)
		}
	}
	end, _, _, err := tp.follow(src, first)
	if err != nil {
		return nil
	}
	return end
}

// ---- per-lookup oracle ----

type failure struct{ check, sig, msg string }

type lookup struct {
	local    *asys
	dst      addr.IA
	now      time.Time // instant at which the lookup returned
	paths    []snet.Path
	err      error
	rendered []string
	crossed  []crossing // interfaces of all returned paths, in canonical order (by rendering)
	kinds    map[string]bool
}

// judgePaths checks every returned path against the statement: starts at the local AS, ends at the requested
// AS (wildcard: a core AS of that ISD), not expired, no interface with an active revocation; local
// destination: exactly one empty path. All failures are collected; the caller reports the smallest one so that
// the verdict does not depend on the (map-iteration dependent) order in which the lookup returns paths.
func (tp *topo) judgePaths(lk *lookup, revs *revModel) (fails []failure) {
	fail := func(sig, format string, a ...any) {
		fails = append(fails, failure{"c30-" + sig, sig, fmt.Sprintf("lookup %s -> %s: ", lk.local.ia, lk.dst) + fmt.Sprintf(format, a...)})
	}
	if lk.dst.Equal(lk.local.ia) {
		if lk.err != nil {
			fail("local-empty-path", "lookup for the local AS failed: %v", lk.err)
			return
		}
		if len(lk.paths) != 1 {
			fail("local-empty-path", "lookup for the local AS returned %d paths, want exactly one empty path", len(lk.paths))
			return
		}
		p := lk.paths[0]
		empty := false
		switch d := p.Dataplane().(type) {
		case nil:
			empty = true
		case snetpath.Empty:
			empty = true
		case snetpath.SCION:
			empty = len(d.Raw) == 0
		}
		nIf := 0
		if p.Metadata() != nil {
			nIf = len(p.Metadata().Interfaces)
		}
		if !empty || nIf != 0 {
			fail("local-empty-path", "path for the local AS is not empty (%d interfaces)", nIf)
		}
		if !p.Source().Equal(lk.local.ia) || !p.Destination().Equal(lk.local.ia) {
			fail("local-empty-path", "empty path leads from %s to %s", p.Source(), p.Destination())
		}
		if p.Metadata() != nil && !p.Metadata().Expiry.After(lk.now) {
			fail("local-empty-path", "empty path already expired")
		}
		lk.rendered = []string{"<empty>"}
		return
	}
	byKey := map[string][]crossing{}
	defer func() {
		keys := make([]string, 0, len(byKey))
		for k := range byKey {
			keys = append(keys, k)
		}
		sort.Strings(keys)
		for _, k := range keys {
			lk.crossed = append(lk.crossed, byKey[k]...)
		}
	}()
	for _, p := range lk.paths {
		md := p.Metadata()
		sp, ok := p.Dataplane().(snetpath.SCION)
		if !ok || md == nil {
			fail("not-a-scion-path", "returned path has dataplane type %T", p.Dataplane())
			continue
		}
		raw, err := decodeRaw(sp.Raw)
		if err != nil {
			fail("raw-undecodable", "raw path does not decode: %v", err)
			continue
		}
		end, crossed, exp, err := tp.follow(lk.local, raw)
		key := crossingsString(crossed)
		lk.rendered = append(lk.rendered, fmt.Sprintf("[%s] exp+%v", key, exp.Sub(lk.now)))
		byKey[key] = crossed
		if lk.kinds == nil {
			lk.kinds = map[string]bool{}
		}
		lk.kinds[fmt.Sprintf("path-with-%d-segments", len(raw.infos))] = true
		if raw.infos[0].peer {
			lk.kinds["path-over-peering-link"] = true
		}
		if !raw.infos[0].peer && len(raw.infos) == 2 && err == nil {
			// a segment change at a non-core AS is a shortcut
			if x := tp.changeAS(lk.local, raw); x != nil && !x.core {
				lk.kinds["path-with-shortcut"] = true
			}
		}
		if err != nil {
			// the path cannot be followed from the local AS through the topology
			fail("not-from-local", "path does not lead anywhere from the local AS: %v", err)
			continue
		}
		if raw.currINF != 0 || raw.currHF != 0 {
			fail("not-from-local", "path [%s] does not start at its first hop field", key)
			continue
		}
		if !p.Source().Equal(lk.local.ia) {
			fail("not-from-local", "path [%s] claims source %s", key, p.Source())
			continue
		}
		// destination
		if lk.dst.IsWildcard() {
			if end.ia.ISD() != lk.dst.ISD() || !end.core {
				fail("wrong-destination", "path [%s] for wildcard %s ends at %s (core=%v)", key, lk.dst, end.ia, end.core)
				continue
			}
		} else if !end.ia.Equal(lk.dst) {
			fail("wrong-destination", "path [%s] ends at %s", key, end.ia)
			continue
		}
		if !p.Destination().Equal(end.ia) {
			fail("wrong-destination", "path [%s] ends at %s but claims destination %s", key, end.ia, p.Destination())
			continue
		}
		// liveness: both what the hop fields say and what the application is told
		if exp.Before(lk.now) {
			fail("expired", "path [%s] contains a hop field that expired %v ago", key, lk.now.Sub(exp))
			continue
		}
		if md.Expiry.Before(lk.now) {
			fail("expired", "path [%s] is handed out with an expiry %v in the past", key, lk.now.Sub(md.Expiry))
			continue
		}
		// revocations
		for _, c := range crossed {
			k := revKey{c.ia, c.id}
			if revs.active(lk.now, k) && !revs.onBoundary(lk.now, k) {
				fail("revoked-interface", "path [%s] traverses %s#%d, revoked until %v after the lookup", key, c.ia, c.id, revs.m[k].exp.Sub(lk.now))
				break
			}
		}
	}
	sort.Strings(lk.rendered)
	return
}

// judgeSplit checks the segment requests of a lookup by segment types and endpoint constraints (not by the
// literal wildcard encoding): an up request exactly when the source is not core, starting at the local AS and
// ending at the cores of the local ISD; a down request exactly when the destination is not core (a wildcard
// destination stands for core ASes), ending at the destination and starting at the cores of its ISD; a core
// request linking the cores of the two ISDs, required when the ISDs differ or the common ISD has several core
// ASes, absent when both ends lie in one ISD with a single core AS. For a wildcard destination in the local
// ISD the statement does not say whether other core ASes are to be reached through core segments: not judged.
func (tp *topo) judgeSplit(local *asys, dst addr.IA, reqs segfetcher.Requests) (fails []failure) {
	fail := func(sig, format string, a ...any) {
		fails = append(fails, failure{"c30-split-" + sig, "split-" + sig,
			fmt.Sprintf("split %s (core=%v) -> %s: requests %s: ", local.ia, local.core, dst, reqsString(reqs)) + fmt.Sprintf(format, a...)})
	}
	srcCore := local.core
	dstCore := dst.IsWildcard() || tp.isCore(dst)
	sameISD := local.ia.ISD() == dst.ISD()
	single := len(tp.cores[int(local.ia.ISD())]) == 1
	n := map[seg.Type]int{}
	for _, q := range reqs {
		n[q.SegType]++
	}
	if (n[seg.TypeUp] > 0) != !srcCore {
		fail("up", "up request present=%v but source core=%v", n[seg.TypeUp] > 0, srcCore)
	}
	if (n[seg.TypeDown] > 0) != !dstCore {
		fail("down", "down request present=%v but destination core=%v", n[seg.TypeDown] > 0, dstCore)
	}
	switch {
	case sameISD && dst.IsWildcard():
		// not judged
	case sameISD && single:
		if n[seg.TypeCore] > 0 {
			fail("core", "core request although both ends are in an ISD with a single core AS")
		}
	default:
		if n[seg.TypeCore] == 0 {
			fail("core", "no core request (same ISD=%v, single core=%v)", sameISD, single)
		}
	}
	// a core end point: wildcard of the ISD or one of its core ASes
	coreOf := func(ia addr.IA, isd addr.ISD) bool {
		return ia.ISD() == isd && (ia.IsWildcard() || tp.isCore(ia))
	}
	for _, q := range reqs {
		switch q.SegType {
		case seg.TypeUp:
			if !q.Src.Equal(local.ia) || !coreOf(q.Dst, local.ia.ISD()) {
				fail("up-endpoints", "up request %s->%s does not lead from the local AS to the cores of its ISD", q.Src, q.Dst)
			}
		case seg.TypeDown:
			if !q.Dst.Equal(dst) || !coreOf(q.Src, dst.ISD()) {
				fail("down-endpoints", "down request %s->%s does not lead from the cores of the destination ISD to the destination", q.Src, q.Dst)
			}
		case seg.TypeCore:
			okSrc := coreOf(q.Src, local.ia.ISD()) && (!srcCore || q.Src.Equal(local.ia))
			okDst := coreOf(q.Dst, dst.ISD()) && (!dstCore || dst.IsWildcard() || q.Dst.Equal(dst))
			if !okSrc || !okDst {
				fail("core-endpoints", "core request %s->%s does not link the source-side and destination-side cores", q.Src, q.Dst)
			}
		default:
			fail("type", "request of type %v", q.SegType)
		}
	}
	return
}

func reqsString(reqs segfetcher.Requests) string {
	var s []string
	for _, q := range reqs {
		s = append(s, fmt.Sprintf("%s:%s->%s", q.SegType, q.Src, q.Dst))
	}
	sort.Strings(s)
	return "{" + strings.Join(s, " ") + "}"
}

func smallest(fails []failure) failure {
	sort.Slice(fails, func(i, j int) bool {
		if fails[i].check != fails[j].check {
			return fails[i].check < fails[j].check
		}
		return fails[i].msg < fails[j].msg
	})
	return fails[0]
}
