//go:build verif

// Package ringsim: the real private/ringbuf.Ring driven by 1-8 client goroutines that are parked
// at every lock acquisition and condition-variable wake-up (hook H4) and released one at a time
// by the seeded scheduler. Property C48.
package ringsim

import (
	"fmt"
	"sync"
	"testing"
	"time"

	"github.com/anishathalye/porcupine"

	"github.com/scionproto/scion/private/ringbuf"
	"verif/sim/core"
)

type opKind int

const (
	opWrite opKind = iota
	opRead
	opClose
)

type op struct {
	kind  opKind
	block bool
	vals  []int // write: values; read: buffer size = len(vals)
	// results
	n        int
	got      []int
	call     int64
	ret      int64
	returned bool
	started  bool
}

type rstate struct {
	q      []int
	closed bool
}

type input struct {
	kind  opKind
	block bool
	vals  []int
	k     int
}
type output struct {
	n   int
	got []int
}

func model(capacity int, initial []int) porcupine.Model {
	return porcupine.Model{
		Init: func() interface{} { return rstate{q: append([]int(nil), initial...)} },
		Step: func(st, in, out interface{}) (bool, interface{}) {
			s := st.(rstate)
			i := in.(input)
			o := out.(output)
			switch i.kind {
			case opClose:
				return true, rstate{q: s.q, closed: true}
			case opWrite:
				if s.closed {
					return o.n == -1, s
				}
				if len(i.vals) == 0 {
					return o.n == 0, s
				}
				free := capacity - len(s.q)
				if free == 0 {
					if i.block {
						return false, s // not enabled here
					}
					return o.n == 0, s
				}
				n := min(free, len(i.vals))
				if o.n != n {
					return false, s
				}
				nq := append(append([]int(nil), s.q...), i.vals[:n]...)
				return true, rstate{q: nq, closed: s.closed}
			case opRead:
				if s.closed && len(s.q) == 0 {
					return o.n == -1, s
				}
				if i.k == 0 {
					return o.n == 0, s
				}
				if len(s.q) == 0 {
					if i.block {
						return false, s
					}
					return o.n == 0, s
				}
				n := min(len(s.q), i.k)
				if o.n != n || len(o.got) != n {
					return false, s
				}
				for j := 0; j < n; j++ {
					if o.got[j] != s.q[j] {
						return false, s
					}
				}
				return true, rstate{q: append([]int(nil), s.q[n:]...), closed: s.closed}
			}
			return false, s
		},
		Equal: func(a, b interface{}) bool {
			x, y := a.(rstate), b.(rstate)
			if x.closed != y.closed || len(x.q) != len(y.q) {
				return false
			}
			for i := range x.q {
				if x.q[i] != y.q[i] {
					return false
				}
			}
			return true
		},
		DescribeOperation: func(in, out interface{}) string {
			return fmt.Sprintf("%+v -> %+v", in, out)
		},
	}
}

type client struct {
	name string
	ops  []*op
	cur  int // index of op in progress or next
}

func runC48(r *core.Run) {
	core.Bubble(r, func(t *testing.T) { runC48Bubble(r, false) })
}

// runC48Herd biases the workload towards several callers blocked at once on the same condition
// (many blocking readers with small buffers against few batch writers, or the reverse), where
// wake-up bugs (signal instead of broadcast, lost wake-ups) show.
func runC48Herd(r *core.Run) {
	core.Bubble(r, func(t *testing.T) { runC48Bubble(r, true) })
}

func runC48Bubble(r *core.Run, herd bool) {
	capacity := r.Range("cap", 1, 16)
	prealloc := r.Chance("prealloc", 1, 6)
	nclients := r.Range("clients", 1, 6) + r.Choice("clients+", 3)
	maxOps := r.Range("maxops", 4, 60)
	blockBias := r.Range("blockbias", 0, 4) // 0..4 of 4: share of blocking ops
	maxBatch := r.Range("maxbatch", 1, 20)
	closeMode := r.Choice("closemode", 3) // 0: a client closes at a drawn op; 1: no client close; 2: early close
	next := 1
	var initial []int
	var ring *ringbuf.Ring
	if prealloc {
		ring = ringbuf.New(capacity, func() any { v := next; next++; initial = append(initial, v); return v }, "sim")
	} else {
		ring = ringbuf.New(capacity, nil, "sim")
	}
	clients := make([]*client, nclients)
	total := 0
	for c := range clients {
		clients[c] = &client{name: fmt.Sprintf("client:%d", c)}
	}
	herdReaders := r.Choice("herdside", 2) == 0
	if herd {
		nclients = max(nclients, 3)
		clients = make([]*client, nclients)
		for c := range clients {
			clients[c] = &client{name: fmt.Sprintf("client:%d", c)}
		}
		maxOps = min(maxOps, 24)
	}
	for total < maxOps {
		ci := r.Choice("opclient", nclients)
		c := clients[ci]
		o := &op{}
		if k := r.Choice("opkind", 8); k >= 4 {
			o.kind = opRead
		} else {
			o.kind = opWrite
		}
		o.block = r.Choice("block", 4) < blockBias
		n := r.Choice("batch", maxBatch+1)
		if herd {
			// client 0 is the lone batch producer (consumer); all others form the herd
			o.block = true
			if (ci == 0) == herdReaders {
				o.kind = opWrite
			} else {
				o.kind = opRead
			}
			if ci == 0 {
				n = 1 + r.Choice("batch", maxBatch)
			} else {
				n = 1 + r.Choice("herdbatch", 2)
			}
		}
		o.vals = make([]int, n)
		if o.kind == opWrite {
			for j := range o.vals {
				o.vals[j] = next
				next++
			}
		}
		c.ops = append(c.ops, o)
		total++
	}
	if closeMode != 1 && total > 0 {
		c := clients[r.Choice("closeclient", nclients)]
		at := 0
		if closeMode == 0 {
			at = r.Choice("closeat", len(c.ops)+1)
		} else {
			at = r.Choice("closeat", min(len(c.ops), 2)+1)
		}
		c.ops = append(c.ops[:at], append([]*op{{kind: opClose}}, c.ops[at:]...)...)
	}

	sched := core.NewSched()
	ringbuf.SimYield = func(rr *ringbuf.Ring, site string) { sched.Yield(site) }
	defer func() { ringbuf.SimYield = nil }()

	var mu sync.Mutex
	var seq int64
	stamp := func() int64 { mu.Lock(); seq++; v := seq; mu.Unlock(); return v }
	closedDone := false
	var wg sync.WaitGroup
	for _, c := range clients {
		wg.Add(1)
		go func(c *client) {
			defer wg.Done()
			sched.Register(c.name)
			defer sched.Done()
			for i, o := range c.ops {
				sched.Yield("op")
				mu.Lock()
				c.cur = i
				o.started = true
				mu.Unlock()
				o.call = stamp()
				switch o.kind {
				case opWrite:
					l := make(ringbuf.EntryList, len(o.vals))
					for j, v := range o.vals {
						l[j] = v
					}
					o.n, _ = ring.Write(l, o.block)
				case opRead:
					l := make(ringbuf.EntryList, len(o.vals))
					o.n, _ = ring.Read(l, o.block)
					for j := 0; j < o.n; j++ {
						v, ok := l[j].(int)
						if !ok {
							v = -999
						}
						o.got = append(o.got, v)
					}
				case opClose:
					ring.Close()
				}
				o.ret = stamp()
				mu.Lock()
				o.returned = true
				if o.kind == opClose {
					closedDone = true
				}
				mu.Unlock()
			}
		}(c)
	}

	finalClose := &op{kind: opClose}
	maxSteps := 40 * (total + 4)
	readable := func() int {
		n := len(initial)
		for _, c := range clients {
			for _, o := range c.ops {
				if o.returned && o.n > 0 {
					if o.kind == opWrite {
						n += o.n
					} else if o.kind == opRead {
						n -= o.n
					}
				}
			}
		}
		return n
	}
	curOp := func(a *core.Actor) *op {
		for _, c := range clients {
			if c.name == a.Name {
				mu.Lock()
				defer mu.Unlock()
				return c.ops[c.cur]
			}
		}
		return nil
	}
	steps := 0
	for {
		// non-blocking calls never block
		for _, a := range sched.Blocked() {
			o := curOp(a)
			if o != nil && o.started && !o.returned && o.kind != opClose && !o.block {
				r.Fail("nonblocking-blocked", "nonblocking-blocked", "%s: non-blocking %v call is blocked inside the ring", a.Name, o.kind)
			}
		}
		if r.Failed() {
			break
		}
		if steps > maxSteps {
			r.Fail("bounded-liveness", "step-budget", "clients did not finish within %d scheduler steps", maxSteps)
			break
		}
		a := sched.Step(r, nil)
		steps++
		if a != nil {
			continue
		}
		blocked := sched.Blocked()
		if len(blocked) == 0 {
			break
		}
		r.Probe("all-blocked")
		mu.Lock()
		cd := closedDone
		mu.Unlock()
		if cd || finalClose.returned {
			r.Fail("release-by-close", "release-by-close", "%d caller(s) still blocked after Close returned: %s", len(blocked), blocked[0].Name)
			break
		}
		rd := readable()
		for _, a := range blocked {
			o := curOp(a)
			if o.kind == opRead && rd > 0 {
				r.Fail("release-by-data", "release-by-data", "%s blocked in Read while %d entries are stored and nobody else can run", a.Name, rd)
			}
			if o.kind == opWrite && rd < capacity {
				r.Fail("release-by-space", "release-by-space", "%s blocked in Write while %d of %d slots are free and nobody else can run", a.Name, capacity-rd, capacity)
			}
		}
		if r.Failed() {
			break
		}
		// release them with a final close issued by the harness
		r.Logf("harness close")
		finalClose.call = stamp()
		ring.Close()
		finalClose.ret = stamp()
		finalClose.returned = true
		finalClose.started = true
	}
	if r.Failed() {
		// let parked/blocked goroutines go so the bubble can end
		ringbuf.SimYield = nil
		ring.Close()
		for {
			ps := sched.Parked()
			if len(ps) == 0 {
				break
			}
			sched.Grant(ps[0])
		}
		// blocked readers with data and lost wake-ups: broadcast by closing again is enough
		// since Close broadcasts; anything still blocked ends the bubble with a deadlock panic,
		// which we avoid by draining through repeated reads.
		drain := make(ringbuf.EntryList, 64)
		for i := 0; i < 4; i++ {
			ring.Read(drain, false)
			ring.Close()
			for _, a := range sched.Parked() {
				sched.Grant(a)
			}
		}
		// goroutines stuck for good (e.g. a missing broadcast) are left behind; core.Bubble
		// tolerates the end-of-bubble deadlock report because a violation is recorded.
		return
	}
	wg.Wait()

	// history check
	var ops []porcupine.Operation
	nontriv := 0
	for ci, c := range clients {
		for _, o := range c.ops {
			if !o.returned {
				r.Fail("history", "unreturned", "op of %s never returned", c.name)
				return
			}
			ops = append(ops, porcupine.Operation{ClientId: ci, Input: input{o.kind, o.block, o.vals, len(o.vals)},
				Call: o.call, Output: output{o.n, o.got}, Return: o.ret})
			if o.n > 0 {
				nontriv++
			}
		}
	}
	if finalClose.returned {
		ops = append(ops, porcupine.Operation{ClientId: len(clients), Input: input{kind: opClose}, Call: finalClose.call,
			Output: output{}, Return: finalClose.ret})
	}
	for _, o := range ops {
		r.Logf("op c%d %+v -> %+v [%d,%d]", o.ClientId, o.Input, o.Output, o.Call, o.Return)
	}
	res := porcupine.CheckOperationsTimeout(model(capacity, initial), ops, 20*time.Second)
	switch res {
	case porcupine.Illegal:
		r.Fail("linearizable", "not-linearizable", "history of %d ops on ring cap=%d is not linearizable w.r.t. bounded FIFO", len(ops), capacity)
	case porcupine.Unknown:
		r.Ambiguous = true // inconclusive, never reported
		r.Probe("porcupine-unknown")
	}
	r.Nontrivial = nontriv >= 2 && nclients >= 2
	r.Covered(fmt.Sprintf("cap%d/cl%d/close%d/pre%v", capacity, nclients, closeMode, prealloc))
	if sched.Steps > 0 {
		r.SimNS = 0
	}
	r.Sample = map[string]any{"capacity": capacity, "clients": nclients, "ops": len(ops), "scheduler_steps": sched.Steps,
		"history_head": r.Log[max(0, len(r.Log)-min(len(ops), 6)):]}
}

func TestWorker(t *testing.T) {
	core.Main(t, core.Engine{Name: "ringsim", Campaigns: map[string]core.RunFunc{
		"C48/interleave": runC48,
		"C48/herd":       runC48Herd,
	}})
}
