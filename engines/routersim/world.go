//go:build verif

// Package routersim: one complete running border router (router.Connector + DataPlane.Run with all
// its goroutines: receivers, processors, slow-path processors, senders, internalLink processor, BFD
// sessions) inside one synctest bubble. Sockets are simulated through udpip's ConnOpener/BatchConn
// seam; every synchronisation point of the data path (hook H2) is a yield point of the seeded
// scheduler. Property C14.
package routersim

import (
	"encoding/binary"
	"fmt"
	"net"
	"net/netip"
	"time"

	"github.com/gopacket/gopacket"
	"github.com/gopacket/gopacket/layers"

	"github.com/scionproto/scion/pkg/addr"
	"github.com/scionproto/scion/pkg/segment/iface"
	"github.com/scionproto/scion/pkg/slayers"
	spath "github.com/scionproto/scion/pkg/slayers/path"
	"github.com/scionproto/scion/pkg/slayers/path/empty"
	"github.com/scionproto/scion/pkg/slayers/path/onehop"
	"github.com/scionproto/scion/pkg/slayers/path/scion"
	"github.com/scionproto/scion/pkg/stun"
	"github.com/scionproto/scion/private/env"
	"github.com/scionproto/scion/private/topology"
	"github.com/scionproto/scion/pkg/private/util"
	"github.com/scionproto/scion/router"
	rconfig "github.com/scionproto/scion/router/config"
	"github.com/scionproto/scion/router/control"
	_ "github.com/scionproto/scion/router/underlayproviders/udpip"
	"verif/sim/core"
	"verif/sim/refmodel"
)

type ifKind int

const (
	ifExt ifKind = iota // external interface owned by this router
	ifSib               // interface owned by a sibling router of the same AS
)

// intf is one configured non-internal interface of the router under test.
type intf struct {
	id     uint16
	kind   ifKind
	local  netip.AddrPort
	remote netip.AddrPort // ext: the neighbour's underlay address; sib: the sibling's internal address
	remIA  addr.IA
	bfd    bool
	conn   *simConn // connection that carries it (the internal one for detached sibling links)
	first  bool     // first interface that uses this connection / link object (carries the BFD session)
}

type knobs struct {
	np, nsp, batch int
	reuse          bool // UDPCanReuseLocal: connected sibling links
	bfd            bool
}

var (
	localIA    = addr.MustParseIA("1-ff00:0:110")
	internalAP = netip.MustParseAddrPort("10.0.0.1:30042")
	csAP       = netip.MustParseAddrPort("10.0.2.1:30252")
)

func sibAddr(i int) netip.AddrPort {
	return netip.AddrPortFrom(netip.AddrFrom4([4]byte{10, 0, 0, byte(2 + i)}), 30042)
}

// configure draws the router configuration and builds the Connector through its public API, in
// the order control.ConfigDataplane uses.
func (w *world) configure() {
	r := w.r
	w.k = knobs{np: r.Range("np", 1, 4), nsp: r.Range("nsp", 1, 2), batch: r.Range("batch", 1, 16),
		reuse: r.Choice("detached", 2) == 0, bfd: r.Choice("bfd", 2) == 1}
	nif := r.Range("nif", 1, 5)
	w.master = r.Tape.Bytes("master", 16)
	w.key = refmodel.DeriveHopKey(w.master)
	w.hosts = []netip.Addr{netip.MustParseAddr("10.0.1.1"), netip.MustParseAddr("10.0.1.2"),
		netip.MustParseAddr("fd00::1:3")}

	cfg := rconfig.RouterConfig{NumProcessors: w.k.np, NumSlowPathProcessors: w.k.nsp, BatchSize: w.k.batch,
		BFD: rconfig.BFD{Disable: !w.k.bfd, DetectMult: 3,
			DesiredMinTxInterval:  util.DurWrap{Duration: 200 * time.Millisecond},
			RequiredMinRxInterval: util.DurWrap{Duration: 200 * time.Millisecond}}}
	c := router.NewConnector(cfg, env.Features{})
	w.c = c
	c.VerifSetConnOpener("udpip", &opener{w: w})
	must := func(what string, err error) {
		if err != nil {
			panic(core.InfraError{Msg: "configuring router: " + what + ": " + err.Error()})
		}
	}
	must("ia", c.CreateIACtx(localIA))
	must("key", c.SetKey(localIA, 0, control.DeriveHFMacKey(w.master)))
	must("internal", c.AddInternalInterface(localIA, addr.HostIP(internalAP.Addr()), "udpip", internalAP.String()))
	w.internal = w.connByName["internal"]
	used := map[uint16]bool{0: true}
	for i := 0; i < nif; i++ {
		in := &intf{}
		id := uint16(1 + r.Choice("ifid", 40))
		for used[id] {
			id++
		}
		used[id] = true
		in.id = id
		if i > 0 && r.Choice("ifkind", 3) == 2 {
			in.kind = ifSib
		}
		in.remIA = addr.MustIAFrom(1, addr.AS(0xff0000000200+uint64(i)))
		dis := !(w.k.bfd && r.Choice("linkbfd", 4) != 3)
		in.bfd = !dis
		li := control.LinkInfo{Provider: "udpip", LinkTo: topology.Core, MTU: 1472,
			Local:  control.LinkEnd{IA: localIA, IfID: iface.ID(id)},
			Remote: control.LinkEnd{IA: in.remIA, IfID: iface.ID(100 + i)}}
		var lh, rh addr.Host
		if in.kind == ifExt {
			in.local = netip.AddrPortFrom(netip.AddrFrom4([4]byte{172, 16, byte(i), 1}), 50000)
			in.remote = netip.AddrPortFrom(netip.AddrFrom4([4]byte{172, 16, byte(i), 2}), 50000)
			li.BFD = control.BFD{Disable: &dis}
		} else {
			in.local = internalAP
			in.remote = sibAddr(r.Choice("sibling", 2))
			// like control.ConfigDataplane: sibling links always use the default BFD configuration
			in.bfd = w.k.bfd
		}
		li.Local.Addr, li.Remote.Addr = in.local.String(), in.remote.String()
		lh, rh = addr.HostIP(in.local.Addr()), addr.HostIP(in.remote.Addr())
		must(fmt.Sprintf("interface %d", id), c.AddExternalInterface(iface.ID(id), li, lh, rh, in.kind == ifExt))
		// which connection carries it
		if sc := w.connByName[in.remote.String()]; sc != nil {
			in.conn = sc
		} else {
			in.conn = w.internal // detached sibling link
		}
		in.first = true
		for _, o := range w.ifs {
			if o.kind == ifSib && in.kind == ifSib && o.remote == in.remote {
				in.first = false // de-duplicated sibling link: the first one's BFD session is the one that runs
				in.bfd = o.bfd
			}
		}
		w.ifs = append(w.ifs, in)
	}
	must("svc", c.AddSvc(localIA, addr.SvcCS, addr.HostIP(csAP.Addr()), csAP.Port()))
	c.SetPortRange(31000, 32767)
}

func (w *world) describe() string {
	s := fmt.Sprintf("np=%d nsp=%d batch=%d reuse=%v bfd=%v ifs=[", w.k.np, w.k.nsp, w.k.batch, w.k.reuse, w.k.bfd)
	for _, in := range w.ifs {
		s += fmt.Sprintf("%d:k%d:%s:bfd=%v ", in.id, in.kind, in.conn.name, in.bfd)
	}
	return s + "]"
}

// ---- datagrams ----

type dkind int

const (
	kTransit dkind = iota // external -> external/sibling
	kDeliver              // external -> local host
	kOutbound             // local host -> external
	kFromSib              // sibling -> external
	kBadMAC               // answered with SCMP by the slow path
	kExpired
	kBadEgress
	kGarbage
	kTruncated
	kBFD
	kStun
	kSvc // external -> service address
	nKinds
)

var kindNames = [...]string{"transit", "deliver", "outbound", "fromsib", "badmac", "expired", "badegress",
	"garbage", "truncated", "bfd", "stun", "svc"}

// dgram is one datagram injected by the simulator (the peers are the stub).
type dgram struct {
	id      int
	kind    dkind
	conn    *simConn
	src     *net.UDPAddr
	raw     []byte
	payload []byte // marker + filler; nil when the datagram can never be answered or forwarded
	read    bool   // handed to the router by ReadBatch
	outs    int    // number of times it was seen at WriteBatch
	stunTx  stun.TxID
}

var magic = [4]byte{0xC1, 0x4D, 0x7E, 0x5A}

// mkPayload builds the payload with the embedded id: magic(4) id(4) len(2) filler(len).
func mkPayload(id, n int) []byte {
	p := make([]byte, 10+n)
	copy(p, magic[:])
	binary.BigEndian.PutUint32(p[4:], uint32(id))
	binary.BigEndian.PutUint16(p[8:], uint16(n))
	for i := 0; i < n; i++ {
		p[10+i] = fill(id, i)
	}
	return p
}

func fill(id, i int) byte { return byte(core.Mix(uint64(id)+0x5151, uint64(i))) }

type hopSpec struct {
	in, eg uint16 // in construction direction
	ours   bool
}

// scionPkt builds a SCION/UDP datagram with a one-segment path whose hop `cur` belongs to the router
// under test; the MAC of that hop is computed by the reference model, the others are arbitrary.
// fromExternal tells whether the router will see it on an external interface (SegID pre-update
// against construction direction).
func (w *world) scionPkt(srcIA, dstIA addr.IA, src, dst addr.Host, hops []hopSpec, cur int, consDir bool,
	fromExternal bool, ts uint32, breakMAC bool, dstPort uint16, payload []byte) []byte {

	r := w.r
	beta := uint16(r.Choice("segid", 1<<16))
	dp := &scion.Decoded{Base: scion.Base{PathMeta: scion.MetaHdr{CurrINF: 0, CurrHF: uint8(cur),
		SegLen: [3]uint8{uint8(len(hops)), 0, 0}}, NumINF: 1, NumHops: len(hops)}}
	segID := beta
	for i, h := range hops {
		hf := spath.HopField{ExpTime: 63, ConsIngress: h.in, ConsEgress: h.eg}
		if h.ours {
			m := refmodel.HopMACFull(w.key, beta, ts, 63, h.in, h.eg)
			copy(hf.Mac[:], m[:6])
			if !consDir && fromExternal {
				segID = beta ^ binary.BigEndian.Uint16(m[:2])
			}
			if breakMAC {
				hf.Mac[3] ^= 0x40
			}
		} else {
			hf.Mac = [6]byte{byte(i), 2, 3, 4, 5, 6}
		}
		dp.HopFields = append(dp.HopFields, hf)
	}
	dp.InfoFields = []spath.InfoField{{ConsDir: consDir, SegID: segID, Timestamp: ts}}
	sc := &slayers.SCION{Version: 0, TrafficClass: 0, FlowID: uint32(r.Choice("flow", 1<<20)), NextHdr: slayers.L4UDP,
		SrcIA: srcIA, DstIA: dstIA, PathType: scion.PathType, Path: dp}
	if err := sc.SetSrcAddr(src); err != nil {
		panic(core.InfraError{Msg: err.Error()})
	}
	if err := sc.SetDstAddr(dst); err != nil {
		panic(core.InfraError{Msg: err.Error()})
	}
	udp := &slayers.UDP{SrcPort: 40000, DstPort: dstPort}
	udp.SetNetworkLayerForChecksum(sc)
	buf := gopacket.NewSerializeBuffer()
	if err := gopacket.SerializeLayers(buf, gopacket.SerializeOptions{FixLengths: true, ComputeChecksums: true},
		sc, udp, gopacket.Payload(payload)); err != nil {
		panic(core.InfraError{Msg: "building packet: " + err.Error()})
	}
	return append([]byte(nil), buf.Bytes()...)
}

// bfdPkt builds a BFD control packet as the peer of the given interface would send it.
func (w *world) bfdPkt(in *intf) []byte {
	r := w.r
	m := 1 + r.Choice("bfd.mult", 5)
	base := []int{300, 500, 1000}[r.Choice("bfd.tx", 3)]
	// see clock.go: the sub-millisecond residue keeps detection instants away from the instants at
	// which the simulator regains control, so that no select in bfd.Session.Run ever has two ready cases
	tx := base*1000 + 1500/m
	rx := []int{200, 400, 1000}[r.Choice("bfd.rx", 3)] * 1000
	st := []layers.BFDState{layers.BFDStateUp, layers.BFDStateDown, layers.BFDStateInit,
		layers.BFDStateUp, layers.BFDStateUp, layers.BFDStateAdminDown}[r.Choice("bfd.state", 6)]
	b := &layers.BFD{Version: 1, State: st, DetectMultiplier: layers.BFDDetectMultiplier(m),
		MyDiscriminator: layers.BFDDiscriminator(7000 + uint32(in.id)), YourDiscriminator: 1,
		DesiredMinTxInterval: layers.BFDTimeInterval(tx), RequiredMinRxInterval: layers.BFDTimeInterval(rx)}
	sc := &slayers.SCION{Version: 0, TrafficClass: 0xb8, FlowID: 0xdead, NextHdr: slayers.L4BFD}
	if in.kind == ifExt {
		sc.SrcIA, sc.DstIA = in.remIA, localIA
		sc.PathType = onehop.PathType
		sc.Path = &onehop.Path{Info: spath.InfoField{ConsDir: true, Timestamp: uint32(time.Now().Unix() - 10)},
			FirstHop: spath.HopField{ConsEgress: 100, ExpTime: 63}}
	} else {
		sc.SrcIA, sc.DstIA = localIA, localIA
		sc.PathType = empty.PathType
		sc.Path = &empty.Path{}
	}
	if err := sc.SetSrcAddr(addr.HostIP(in.remote.Addr())); err != nil {
		panic(core.InfraError{Msg: err.Error()})
	}
	if err := sc.SetDstAddr(addr.HostIP(in.local.Addr())); err != nil {
		panic(core.InfraError{Msg: err.Error()})
	}
	buf := gopacket.NewSerializeBuffer()
	if err := gopacket.SerializeLayers(buf, gopacket.SerializeOptions{FixLengths: true}, sc, b); err != nil {
		panic(core.InfraError{Msg: "building BFD packet: " + err.Error()})
	}
	return append([]byte(nil), buf.Bytes()...)
}

func (w *world) extIfs() (out []*intf) {
	for _, in := range w.ifs {
		if in.kind == ifExt {
			out = append(out, in)
		}
	}
	return
}

// ifsOn returns the interfaces whose traffic arrives over the given connection.
func (w *world) ifsOn(c *simConn) (out []*intf) {
	for _, in := range w.ifs {
		if in.conn == c {
			out = append(out, in)
		}
	}
	return
}

// newDgram draws one datagram for the given connection.
func (w *world) newDgram(c *simConn) *dgram {
	r := w.r
	d := &dgram{id: len(w.dgrams), conn: c}
	w.dgrams = append(w.dgrams, d)
	now := uint32(time.Now().Unix())
	ts := now - 30
	plen := r.Choice("plen", 120)
	if r.Chance("plen.big", 1, 8) {
		plen = 200 + r.Choice("plen", 600)
	}
	d.payload = mkPayload(d.id, plen)
	host := w.hosts[r.Choice("host", len(w.hosts))]
	remoteHost := addr.HostIP(netip.MustParseAddr("10.9.9.9"))
	exts := w.extIfs()
	on := w.ifsOn(c)
	consDir := r.Choice("nonconsdir", 2) == 0
	mkHop := func(travelIn, travelEg uint16) hopSpec {
		if consDir {
			return hopSpec{in: travelIn, eg: travelEg, ours: true}
		}
		return hopSpec{in: travelEg, eg: travelIn, ours: true}
	}
	other := func(n uint16) hopSpec { return hopSpec{in: 900 + n, eg: 901 + n} }
	// hop fields are stored in travel order whatever the construction direction; only the meaning of
	// ConsIngress/ConsEgress flips (mkHop)
	order := func(h ...hopSpec) []hopSpec { return h }

	var kinds []dkind
	if c == w.internal {
		d.src = &net.UDPAddr{IP: host.AsSlice(), Port: 31000 + r.Choice("sport", 100)}
		kinds = []dkind{kOutbound, kOutbound, kGarbage, kTruncated}
		if !w.noIntproc {
			kinds = append(kinds, kStun, kGarbage)
		}
		if len(exts) > 0 {
			kinds = append(kinds, kBadMAC, kExpired, kBadEgress)
		}
		if len(on) > 0 { // detached sibling links share the internal connection
			kinds = append(kinds, kFromSib, kFromSib)
			for _, in := range on {
				if in.bfd {
					kinds = append(kinds, kBFD)
					break
				}
			}
		}
	} else {
		in := on[0]
		d.src = net.UDPAddrFromAddrPort(in.remote)
		if in.kind == ifExt {
			kinds = []dkind{kTransit, kTransit, kDeliver, kDeliver, kBadMAC, kExpired, kBadEgress, kGarbage, kTruncated, kSvc}
		} else {
			kinds = []dkind{kFromSib, kFromSib, kFromSib, kGarbage, kTruncated}
		}
		if in.bfd {
			kinds = append(kinds, kBFD)
		}
	}
	if w.mix != nil {
		// swarm: this run only uses a drawn subset of the kinds (always keeps the first)
		var f []dkind
		for i, k := range kinds {
			if i == 0 || w.mix[k] {
				f = append(f, k)
			}
		}
		kinds = f
	}
	d.kind = kinds[r.Choice("kind", len(kinds))]

	pickOn := func() *intf { return on[r.Choice("onif", len(on))] }
	pickExt := func() *intf { return exts[r.Choice("extif", len(exts))] }
	pickAny := func() *intf { return w.ifs[r.Choice("anyif", len(w.ifs))] }
	switch d.kind {
	case kTransit, kBadMAC, kExpired, kBadEgress:
		var hops []hopSpec
		var cur int
		fromExt := true
		var srcIA addr.IA = addr.MustParseIA("1-ff00:0:300")
		var src addr.Host = remoteHost
		if c == w.internal {
			// from a local host: first hop
			eg := pickExt()
			consDir = true
			hops = []hopSpec{{in: 0, eg: eg.id, ours: true}, other(1)}
			cur, fromExt = 0, false
			srcIA, src = localIA, addr.HostIP(host)
		} else {
			in := pickOn()
			eg := pickAny()
			hops = order(other(0), mkHop(in.id, eg.id), other(2))
			cur = 1
		}
		if d.kind == kBadEgress {
			for i := range hops {
				if hops[i].ours {
					if consDir {
						hops[i].eg = 777
					} else {
						hops[i].in = 777
					}
				}
			}
		}
		if d.kind == kExpired {
			ts = now - 3*24*3600
		}
		d.raw = w.scionPkt(srcIA, addr.MustParseIA("1-ff00:0:400"), src, remoteHost, hops, cur, consDir,
			fromExt, ts, d.kind == kBadMAC, 30000, d.payload)
	case kDeliver, kSvc:
		in := pickOn()
		hops := order(other(0), mkHop(in.id, 0))
		cur := 1 // the router under test is the last hop travelled
		dst := addr.HostIP(host)
		if d.kind == kSvc {
			dst = addr.HostSVC(addr.SvcCS)
		}
		port := uint16(31000 + r.Choice("dport", 200))
		if r.Chance("dport.out", 1, 4) {
			port = uint16(1 + r.Choice("dport", 1000))
		}
		d.raw = w.scionPkt(addr.MustParseIA("1-ff00:0:300"), localIA, remoteHost, dst, hops, cur, consDir,
			true, ts, false, port, d.payload)
	case kOutbound:
		if len(exts) == 0 {
			d.kind = kGarbage
			d.payload = nil
			d.raw = r.Tape.Bytes("garbage", 1+r.Choice("glen", 80))
			break
		}
		eg := pickExt()
		consDir = true
		hops := []hopSpec{{in: 0, eg: eg.id, ours: true}, other(1)}
		d.raw = w.scionPkt(localIA, addr.MustParseIA("1-ff00:0:400"), addr.HostIP(host), remoteHost, hops, 0,
			true, false, ts, false, 30000, d.payload)
	case kFromSib:
		var sibs []*intf
		for _, in := range on {
			if in.kind == ifSib {
				sibs = append(sibs, in)
			}
		}
		if len(sibs) == 0 || len(exts) == 0 {
			d.kind = kGarbage
			d.payload = nil
			d.raw = r.Tape.Bytes("garbage", 1+r.Choice("glen", 80))
			break
		}
		in := sibs[r.Choice("sibif", len(sibs))]
		eg := pickExt()
		d.src = net.UDPAddrFromAddrPort(in.remote)
		hops := order(other(0), mkHop(in.id, eg.id), other(2))
		d.raw = w.scionPkt(addr.MustParseIA("1-ff00:0:300"), addr.MustParseIA("1-ff00:0:400"), remoteHost,
			remoteHost, hops, 1, consDir, false, ts, false, 30000, d.payload)
	case kGarbage:
		d.payload = nil
		d.raw = r.Tape.Bytes("garbage", r.Choice("glen", 80))
	case kTruncated:
		// cut either inside the SCION common/address header (cannot be parsed) or inside the filler of
		// the payload (the embedded id survives, so an answer of the router can still be attributed)
		d.payload = mkPayload(d.id, 20+plen)
		full := w.scionPkt(addr.MustParseIA("1-ff00:0:300"), addr.MustParseIA("1-ff00:0:400"), remoteHost, remoteHost,
			[]hopSpec{other(0), {in: 1, eg: 2, ours: true}, other(2)}, 1, true, true, ts, false, 30000, d.payload)
		if r.Choice("trunc.where", 2) == 0 {
			cut := 1 + r.Choice("trunc", 19+plen)
			d.raw = full[:len(full)-cut]
			d.payload = d.payload[:len(d.payload)-cut]
		} else {
			d.raw = full[:r.Choice("trunc", 36)]
			d.payload = nil
		}
	case kBFD:
		var cands []*intf
		for _, in := range on {
			if in.bfd {
				cands = append(cands, in)
			}
		}
		in := cands[r.Choice("bfdif", len(cands))]
		d.src = net.UDPAddrFromAddrPort(in.remote)
		d.payload = nil
		d.raw = w.bfdPkt(in)
	case kStun:
		d.payload = nil
		copy(d.stunTx[:], r.Tape.Bytes("stuntx", 12))
		d.raw = stun.Request(d.stunTx)
	}
	return d
}
