//go:build verif

package routersim

import (
	"bytes"
	"context"
	"encoding/binary"
	"errors"
	"fmt"
	"net"
	"net/netip"
	"reflect"
	"runtime"
	"sort"
	"strconv"
	"strings"
	"sync"
	"sync/atomic"
	"testing/synctest"
	"time"
	"unsafe"

	"github.com/scionproto/scion/pkg/slayers"
	"github.com/scionproto/scion/pkg/stun"
	"github.com/scionproto/scion/private/underlay/conn"
	"github.com/scionproto/scion/router"
	"github.com/scionproto/scion/router/bfd"
	"verif/sim/core"
)

const (
	modeClean = iota
	modeFaults
	modeShutdown
)

// ---- ghost state: who owns each packet buffer ----

type stage uint8

const (
	stPool   stage = iota // in the pool
	stGot                 // taken from the pool by an actor, not yet seen at a seam
	stHeld                // lent to a ReadBatch call of a connection (owned by its receiver)
	stFlight              // filled by ReadBatch, travelling through the router
	stWB                  // handed to a WriteBatch call of a connection (owned by its sender)
)

var stageNames = [...]string{"in-pool", "taken", "lent-to-ReadBatch", "in-flight", "in-WriteBatch"}

type gbuf struct {
	stage stage
	who   string // stGot: actor; stHeld/stWB: connection
	id    int    // stFlight: datagram id
	base  uintptr
	n     int
}

func (b *gbuf) String() string {
	switch b.stage {
	case stGot:
		return "taken by " + b.who
	case stHeld:
		return "lent to ReadBatch of " + b.who
	case stFlight:
		return fmt.Sprintf("in flight carrying datagram %d", b.id)
	case stWB:
		return "in WriteBatch of " + b.who
	}
	return "in pool"
}

type actorState struct {
	site   string
	grants int
}

type world struct {
	r    *core.Run
	mode int
	k    knobs

	master, key []byte
	hosts       []netip.Addr
	c           *router.Connector
	conns       []*simConn
	connByName  map[string]*simConn
	internal    *simConn
	ifs         []*intf
	dgrams      []*dgram
	mix         map[dkind]bool
	noIntproc   bool

	sched *core.Sched
	mu    sync.Mutex // protects everything below that actor goroutines touch

	byPkt    map[*router.Packet]int
	bufs     []*gbuf
	initDone bool
	inPool   int

	procQs   []chan *router.Packet
	slowQs   []chan *router.Packet
	egress   map[string]reflect.Value
	intprocQ reflect.Value
	procStop chan struct{}
	intQ     chan *router.Packet

	stalled  map[string]int
	tearing  bool
	shutting bool
	shutDone atomic.Bool
	stop     bool
	steps    int
	outputs  int
	scmpOut  int
	bfdOut   int
	granted  map[string]bool
	actors   []string

	jit  map[string][]int
	jctr map[string]int

	total, injected int
	final           bool
	finalSteps      int
	advances        int
	procRan         bool
	simNS           int64

	pWbErr, pWbPartial, pRbErr, stallW, injW, burstMax int
}

func (w *world) logf(format string, args ...any) { w.r.Logf(format, args...) }

func (w *world) fail(check, sig, format string, args ...any) {
	if w.tearing {
		return
	}
	w.r.Fail(check, sig, format, args...)
}

func classOf(name string) string {
	if i := strings.IndexByte(name, ':'); i >= 0 {
		return name[:i]
	}
	return name
}

// ---- hooks (run in the router's goroutines) ----

func (w *world) actorHook(name string, id int) {
	full := name
	if name == "proc" || name == "slow" {
		full = name + ":" + strconv.Itoa(id)
	}
	a := w.sched.Register(full)
	a.Data = &actorState{}
	w.mu.Lock()
	w.actors = append(w.actors, full)
	w.mu.Unlock()
}

func (w *world) yieldHook(site string) {
	a := w.sched.Current()
	if a == nil {
		return // configuration and start-up code (pool initialisation)
	}
	w.yield(a, site)
}

func (w *world) yield(a *core.Actor, site string) {
	w.mu.Lock()
	st := a.Data.(*actorState)
	prev := st.site
	st.site = site
	switch {
	case prev == "proc.slowq" && site == "pool.put":
		w.r.Probe("slow-path-queue-full")
	case prev == "link.send" && site == "pool.put":
		w.r.Probe("egress-queue-full:" + classOf(a.Name))
	case prev == "link.enqueue" && site == "pool.put":
		w.r.Probe("processor-queue-full")
	}
	w.mu.Unlock()
	w.sched.Yield(site)
	w.mu.Lock()
	kill := w.tearing && (strings.HasPrefix(a.Name, "proc:") || strings.HasPrefix(a.Name, "slow:") ||
		strings.HasPrefix(a.Name, "bfd:"))
	w.mu.Unlock()
	if kill {
		// tear-down of the simulated process: processors have no way to stop in the real code
		// either (the process exits); nothing is checked any more at this point
		runtime.Goexit()
	}
}

func (w *world) idxOf(b []byte) int {
	if cap(b) == 0 {
		return -1
	}
	p := uintptr(unsafe.Pointer(unsafe.SliceData(b)))
	i := sort.Search(len(w.bufs), func(i int) bool { return w.bufs[i].base > p }) - 1
	if i < 0 || p >= w.bufs[i].base+uintptr(w.bufs[i].n) {
		return -1
	}
	return i
}

func (w *world) poolHook(op string, p *router.Packet) {
	a := w.sched.Current()
	name := "init"
	site := ""
	if a != nil {
		name = a.Name
	}
	w.mu.Lock()
	defer w.mu.Unlock()
	if w.tearing {
		return
	}
	idx, ok := w.byPkt[p]
	if !ok {
		if op == "put" && !w.initDone && a == nil {
			// pool initialisation: learn the buffer (bases are increasing: one backing array)
			b := &gbuf{stage: stPool, base: uintptr(unsafe.Pointer(unsafe.SliceData(p.RawPacket))), n: cap(p.RawPacket)}
			if n := len(w.bufs); n > 0 && w.bufs[n-1].base >= b.base {
				panic(core.InfraError{Msg: "packet buffers are not laid out in increasing address order"})
			}
			w.byPkt[p] = len(w.bufs)
			w.bufs = append(w.bufs, b)
			w.inPool++
			return
		}
		w.fail("c14-foreign-packet", "foreign-packet:"+classOf(name), "%s: pool %s of a packet that never was in the pool", name, op)
		return
	}
	b := w.bufs[idx]
	if a != nil {
		site = a.Data.(*actorState).site
	}
	switch op {
	case "put":
		switch {
		case b.stage == stPool:
			w.fail("c14-double-return", "double-return:"+classOf(name),
				"%s returns buffer #%d to the pool at %s, but it is already in the pool (returned twice)", name, idx, site)
			return
		case b.stage == stHeld && name != "recv:"+b.who:
			w.fail("c14-two-owners", "returned-while-lent:"+classOf(name),
				"%s returns buffer #%d to the pool while it is lent to the ReadBatch call of %s", name, idx, b.who)
			return
		case b.stage == stWB && name != "send:"+b.who:
			w.fail("c14-two-owners", "returned-while-written:"+classOf(name),
				"%s returns buffer #%d to the pool while it is in the WriteBatch call of %s", name, idx, b.who)
			return
		}
		b.stage, b.who = stPool, ""
		w.inPool++
		// poison on return: the previous owner has no business with the packet any more. Get()
		// re-initialises every field, so this changes nothing for a correct router; a stage that
		// still reads the packet after returning it (there is no yield point between the return and
		// such a read, so the scheduler cannot put the next owner in between) now meets nil fields.
		p.RawPacket, p.Link = nil, nil
		w.r.Probe("buffer-poisoned-on-return")
	case "get":
		if b.stage != stPool {
			w.fail("c14-pool-handout", "handout-in-use:"+classOf(name),
				"the pool hands buffer #%d to %s while it is still in use (%s)", idx, name, b)
			return
		}
		b.stage, b.who = stGot, name
		w.inPool--
	}
}

// panicHook receives a panic of a router goroutine (hook VerifRecover); the goroutine then ends.
func (w *world) panicHook(v any, stack []byte) {
	name := "?"
	if a := w.sched.Current(); a != nil {
		name = a.Name
	}
	site := core.PanicSite(string(stack))
	w.mu.Lock()
	defer w.mu.Unlock()
	if w.tearing {
		return
	}
	w.stop = true
	sig := "panic:" + site
	if w.r.IsKnown(sig) {
		w.r.NoteKnown(sig)
		return
	}
	when := "while running"
	if w.shutting {
		when = "during Shutdown()"
	}
	w.r.Fail("no-panic", sig, "goroutine %s of the router panics %s: %v (in %s)", name, when, v, site)
}

func (w *world) stopped() bool {
	w.mu.Lock()
	defer w.mu.Unlock()
	return w.stop
}

func (w *world) jitter(n int) int {
	a := w.sched.Current()
	if a == nil || n <= 0 {
		return 0
	}
	w.mu.Lock()
	defer w.mu.Unlock()
	t := w.jit[a.Name]
	if len(t) == 0 {
		return 0
	}
	i := w.jctr[a.Name]
	w.jctr[a.Name] = i + 1
	return t[i%len(t)] % n
}

// ---- simulated sockets ----

type opener struct{ w *world }

func (o *opener) Open(l, r netip.AddrPort, _ *conn.Config) (router.BatchConn, error) {
	w := o.w
	name := "internal"
	if r.IsValid() {
		name = r.String()
	}
	c := &simConn{w: w, name: name, local: l, remote: r}
	w.conns = append(w.conns, c)
	w.connByName[name] = c
	return c, nil
}

func (o *opener) UDPCanReuseLocal() bool { return o.w.k.reuse }

type wbEntry struct {
	idx int
	sum uint64
}

type simConn struct {
	w             *world
	name          string
	local, remote netip.AddrPort
	inbox         []*dgram
	closed        bool
	held          []int // buffers lent to the current ReadBatch call (not yet filled)
	wb            []wbEntry
	inRead        bool
	inWrite       bool
	// plan of the next granted call, drawn by the scheduler
	readMax int
	readErr bool
	wbPlan  int // 0: all written; 1: error, -1; 2: error, 0; 3: partial wbK
	wbK     int
}

var (
	errClosed = errors.New("use of closed network connection")
	errRead   = errors.New("simulated read error")
	errWrite  = errors.New("simulated write error")
)

func sum(b []byte) uint64 {
	h := uint64(1469598103934665603)
	for _, c := range b {
		h = (h ^ uint64(c)) * 1099511628211
	}
	return h
}

func (c *simConn) ReadBatch(msgs conn.Messages) (int, error) {
	w := c.w
	a := w.sched.Current()
	if a == nil {
		panic(core.InfraError{Msg: "ReadBatch called by an unregistered goroutine"})
	}
	w.mu.Lock()
	if !w.tearing {
		held := make([]int, 0, len(msgs))
		for i := range msgs {
			idx := w.idxOf(msgs[i].Buffers[0])
			if idx < 0 {
				w.fail("c14-foreign-packet", "foreign-buffer:recv", "recv:%s lends a buffer to ReadBatch that is not a pool buffer", c.name)
				continue
			}
			b := w.bufs[idx]
			switch {
			case b.stage == stGot && b.who == "recv:"+c.name, b.stage == stHeld && b.who == c.name:
			case b.stage == stPool:
				w.fail("c14-use-after-return", "lent-after-return:recv",
					"recv:%s lends buffer #%d to ReadBatch, but the buffer is in the pool (used after return)", c.name, idx)
			default:
				w.fail("c14-two-owners", "lent-while-owned:recv",
					"recv:%s lends buffer #%d to ReadBatch while it is %s (two owners)", c.name, idx, b)
			}
			b.stage, b.who = stHeld, c.name
			held = append(held, idx)
		}
		c.held = held
	}
	c.inRead = true
	w.mu.Unlock()

	w.yield(a, "rb")

	w.mu.Lock()
	defer w.mu.Unlock()
	c.inRead = false
	if c.closed {
		return 0, errClosed
	}
	if c.readErr {
		c.readErr = false
		w.logf("rb %s error", c.name)
		return 0, errRead
	}
	n := min(len(msgs), len(c.inbox), c.readMax)
	ids := make([]string, 0, n)
	for i := 0; i < n; i++ {
		d := c.inbox[i]
		buf := msgs[i].Buffers[0]
		k := copy(buf, d.raw)
		msgs[i].N = k
		msgs[i].Addr = &net.UDPAddr{IP: append(net.IP(nil), d.src.IP...), Port: d.src.Port}
		d.read = true
		if !w.tearing && i < len(c.held) {
			b := w.bufs[c.held[i]]
			b.stage, b.id = stFlight, d.id
		}
		ids = append(ids, strconv.Itoa(d.id))
	}
	c.inbox = c.inbox[n:]
	if !w.tearing {
		c.held = c.held[min(n, len(c.held)):]
	}
	if !w.tearing {
		w.logf("rb %s n=%d/%d [%s]", c.name, n, len(msgs), strings.Join(ids, " "))
	}
	return n, nil
}

func (c *simConn) WriteBatch(msgs conn.Messages, _ int) (int, error) {
	w := c.w
	a := w.sched.Current()
	if a == nil {
		panic(core.InfraError{Msg: "WriteBatch called by an unregistered goroutine"})
	}
	w.mu.Lock()
	if !w.tearing {
		c.wb = c.wb[:0]
		for i := range msgs {
			idx := w.idxOf(msgs[i].Buffers[0])
			if idx < 0 {
				w.fail("c14-foreign-packet", "foreign-buffer:send", "send:%s writes a buffer that is not a pool buffer", c.name)
				continue
			}
			b := w.bufs[idx]
			switch {
			case b.stage == stFlight, b.stage == stGot, b.stage == stWB && b.who == c.name:
			case b.stage == stPool:
				w.fail("c14-use-after-return", "written-after-return:send",
					"send:%s hands buffer #%d to WriteBatch, but the buffer is in the pool (used after return)", c.name, idx)
			default:
				w.fail("c14-two-owners", "written-while-owned:send",
					"send:%s hands buffer #%d to WriteBatch while it is %s (two owners)", c.name, idx, b)
			}
			b.stage, b.who = stWB, c.name
			c.wb = append(c.wb, wbEntry{idx, sum(msgs[i].Buffers[0])})
		}
	}
	c.inWrite = true
	w.mu.Unlock()

	w.yield(a, "wb")

	w.mu.Lock()
	defer w.mu.Unlock()
	c.inWrite = false
	if c.closed {
		return 0, errClosed
	}
	n := len(msgs)
	k := n
	var err error
	switch c.wbPlan {
	case 1:
		k, err = -1, errWrite
	case 2:
		k, err = 0, errWrite
	case 3:
		k = min(c.wbK, n)
	}
	c.wbPlan = 0
	for i := 0; i < k; i++ {
		if !w.tearing && i < len(c.wb) {
			if e := c.wb[i]; e.sum != sum(msgs[i].Buffers[0]) {
				w.fail("c14-two-owners", "modified-while-written:send",
					"buffer #%d changed while it was in the WriteBatch call of send:%s (another stage is using it)", e.idx, c.name)
			}
		}
		w.inspect(c, msgs[i].Buffers[0], msgs[i].Addr)
	}
	if !w.tearing {
		w.logf("wb %s n=%d written=%d", c.name, n, k)
	}
	return k, err
}

func (c *simConn) Close() error {
	w := c.w
	w.mu.Lock()
	defer w.mu.Unlock()
	c.closed = true
	if !w.tearing {
		w.logf("close %s", c.name)
	}
	return nil
}

// inspect judges one datagram the router sends: payload integrity by embedded id.
func (w *world) inspect(c *simConn, b []byte, dst net.Addr) {
	if w.tearing {
		return
	}
	w.outputs++
	j := bytes.Index(b, magic[:])
	if j < 0 {
		switch {
		case len(b) > 4 && slayers.L4ProtocolType(b[4]) == slayers.L4BFD:
			w.bfdOut++
			w.logf("out %s bfd len=%d", c.name, len(b))
		case stun.Is(b):
			tx, _, err := stun.ParseResponse(b)
			found := false
			for _, d := range w.dgrams {
				if d.kind == kStun && d.read && d.stunTx == tx {
					found = true
					d.outs++
				}
			}
			if err != nil || !found {
				w.fail("c14-payload-integrity", "stun-response-unknown",
					"send:%s writes a STUN response that answers no request that was received", c.name)
			}
			w.logf("out %s stun len=%d", c.name, len(b))
		default:
			w.fail("c14-payload-integrity", "output-without-origin",
				"send:%s writes a %d-byte datagram that is neither a received datagram nor router-originated (BFD/STUN)", c.name, len(b))
		}
		return
	}
	if len(b) < j+10 {
		w.fail("c14-payload-integrity", "payload-cut", "send:%s writes a datagram whose payload header is cut", c.name)
		return
	}
	id := int(binary.BigEndian.Uint32(b[j+4:]))
	if id >= len(w.dgrams) || !w.dgrams[id].read || w.dgrams[id].payload == nil {
		w.fail("c14-payload-integrity", "payload-unknown-id",
			"send:%s writes a datagram carrying id %d, which was never received", c.name, id)
		return
	}
	d := w.dgrams[id]
	isSCMP := len(b) > 4 && slayers.L4ProtocolType(b[4]) == slayers.L4SCMP
	m := min(len(b)-j, len(d.payload))
	if !bytes.Equal(b[j:j+m], d.payload[:m]) || (m < len(d.payload) && !isSCMP) || (!isSCMP && len(b) != len(d.raw)) {
		w.fail("c14-payload-integrity", "payload-differs",
			"send:%s writes datagram %d (%s, received on %s) with a payload that differs from the one received: "+
				"the buffer was reused while in use", c.name, id, kindNames[d.kind], d.conn.name)
		return
	}
	d.outs++
	if d.outs > 1 {
		w.fail("c14-duplicate-output", "duplicate-output",
			"datagram %d (%s) is written %d times: its buffer is owned by two stages", id, kindNames[d.kind], d.outs)
		return
	}
	if isSCMP {
		w.scmpOut++
	}
	w.logf("out %s id=%d kind=%s scmp=%v len=%d", c.name, id, kindNames[d.kind], isSCMP, len(b))
}

// ---- scheduler ----

func chanOf[T any](f reflect.Value) chan T {
	return *(*chan T)(unsafe.Pointer(f.UnsafeAddr()))
}

// discover finds the router's queues (observation only: lengths, and the stop channel of the
// internal link's processor).
func (w *world) discover() {
	l0 := reflect.ValueOf(w.c.VerifLink(0)).Elem()
	w.egress = map[string]reflect.Value{"internal": l0.FieldByName("egressQ")}
	w.intprocQ = l0.FieldByName("procQ")
	w.procStop = chanOf[struct{}](l0.FieldByName("procStop"))
	w.intQ = chanOf[*router.Packet](l0.FieldByName("procQ"))
	for _, in := range w.ifs {
		if in.conn != w.internal {
			lv := reflect.ValueOf(w.c.VerifLink(in.id)).Elem()
			w.egress[in.conn.name] = lv.FieldByName("egressQ")
		}
	}
	if len(w.procQs) != w.k.np || len(w.slowQs) != w.k.nsp || w.procStop == nil {
		panic(core.InfraError{Msg: "cannot observe the router's queues"})
	}
}

func (w *world) procStopClosed() bool {
	select {
	case <-w.procStop:
		return true
	default:
		return false
	}
}

func (w *world) enabled(a *core.Actor) bool {
	if until, ok := w.stalled[a.Name]; ok && w.steps < until {
		return false
	}
	switch a.Site {
	case "pool.get":
		return w.c.VerifPoolLen() > 0
	case "proc.recv":
		id, _ := strconv.Atoi(a.Name[len("proc:"):])
		return len(w.procQs[id]) > 0
	case "slow.recv":
		id, _ := strconv.Atoi(a.Name[len("slow:"):])
		return len(w.slowQs[id]) > 0
	case "send.dequeue":
		name := a.Name[len("send:"):]
		w.mu.Lock()
		closed := w.connByName[name].closed
		w.mu.Unlock()
		return closed || w.egress[name].Len() > 0
	case "intproc.recv":
		return w.intprocQ.Len() > 0 || w.procStopClosed()
	case "rb":
		c := w.connByName[a.Name[len("recv:"):]]
		w.mu.Lock()
		defer w.mu.Unlock()
		return len(c.inbox) > 0 || c.closed
	}
	return true
}

func (w *world) grant(a *core.Actor) {
	r := w.r
	faulty := w.mode != modeClean && !w.final && !w.tearing
	switch a.Site {
	case "rb":
		c := w.connByName[a.Name[len("recv:"):]]
		w.mu.Lock()
		nin, closed := len(c.inbox), c.closed
		w.mu.Unlock()
		rm, re := 1<<30, false
		if !closed && !w.tearing {
			if nin > 1 && r.Chance("rb.short", 1, 4) {
				rm = 1 + r.Choice("rb.n", nin)
			}
			if faulty && w.pRbErr > 0 && r.FaultChance("rb.error", w.pRbErr, 16) {
				re = true
			}
		}
		w.mu.Lock()
		c.readMax, c.readErr = rm, re
		w.mu.Unlock()
	case "wb":
		c := w.connByName[a.Name[len("send:"):]]
		w.mu.Lock()
		n, closed := len(c.wb), c.closed
		w.mu.Unlock()
		plan, k := 0, 0
		if faulty && !closed && n > 0 {
			switch {
			case w.pWbErr > 0 && r.FaultChance("wb.error", w.pWbErr, 16):
				plan = 1 + r.Choice("wb.errkind", 2)
			case n > 1 && w.pWbPartial > 0 && r.FaultChance("wb.partial", w.pWbPartial, 16):
				plan, k = 3, 1+r.Choice("wb.k", n-1)
			}
		}
		w.mu.Lock()
		c.wbPlan, c.wbK = plan, k
		w.mu.Unlock()
	}
	if strings.HasPrefix(a.Name, "proc:") {
		w.procRan = true
	}
	if !w.tearing {
		r.Logf("grant %s@%s", a.Name, a.Site)
		w.granted[a.Name] = true
	}
	w.steps++
	w.sched.Grant(a)
}

func (w *world) inject() {
	r := w.r
	c := w.conns[r.Choice("inj.conn", len(w.conns))]
	n := 1 + r.Choice("inj.n", w.burstMax)
	if w.mode != modeClean && r.Chance("fault.rb.burst", 1, 8) {
		n = 2*w.k.batch + r.Choice("inj.burst", 2*w.k.batch+1)
		r.Fault("rb.burst")
	}
	for i := 0; i < n && w.injected < w.total; i++ {
		d := w.newDgram(c)
		w.mu.Lock()
		c.inbox = append(c.inbox, d)
		w.mu.Unlock()
		w.injected++
		r.Logf("inject %d %s on %s len=%d", d.id, kindNames[d.kind], c.name, len(d.raw))
		r.Covered("kind:" + kindNames[d.kind])
	}
}

func bfdParked(ps []*core.Actor) bool {
	for _, a := range ps {
		if strings.HasPrefix(a.Name, "bfd:") {
			return true
		}
	}
	return false
}

const (
	gridStep  = 2 * time.Millisecond
	maxAdv    = 30
	rhoStep   = 13 * time.Microsecond
	rhoStart  = 500 * time.Nanosecond
	stepLimit = 60000
)

// advance moves the simulated clock. BFD timers are the only timers of the router. All send
// instants lie on a 2 ms grid (configured intervals are multiples of 200 ms and the jitter is a whole
// percentage), or on an earlier wake-up instant of this function plus grid steps; detection instants
// lie >= 1.5 ms after a grid point (see bfdPkt). The simulator wakes up once per grid step, shortly
// after the grid point, at a residue that grows with every call, and stops advancing as soon as a BFD
// goroutine has started to send. Hence no BFD goroutine ever finds two ready cases in its select, and
// no timer fires at an instant at which the simulator itself wakes up.
func (w *world) advance() {
	k := 1 + w.r.Choice("clock.k", 500)
	d := rhoStep
	if w.advances == 0 {
		d = rhoStart
	}
	w.advances++
	time.Sleep(d)
	w.simNS += int64(d)
	synctest.Wait()
	n := 0
	for ; n < k; n++ {
		if bfdParked(w.sched.Parked()) {
			break
		}
		time.Sleep(gridStep)
		w.simNS += int64(gridStep)
	}
	w.r.Logf("clock +%dms", 2*n)
}

func (w *world) startShutdown() {
	w.shutting = true
	w.r.Logf("shutdown")
	w.r.Fault("shutdown")
	go func() {
		w.c.DataPlane.Shutdown()
		w.shutDone.Store(true)
	}()
}

func (w *world) checkIdle(ps []*core.Actor) {
	r := w.r
	r.Probe("idle-quiescence")
	w.mu.Lock()
	defer w.mu.Unlock()
	parked := map[string]bool{}
	for _, a := range ps {
		parked[a.Name] = true
	}
	names := append([]string(nil), w.actors...)
	sort.Strings(names)
	for _, n := range names {
		if c := classOf(n); (c == "proc" || c == "slow" || c == "intproc") && !parked[n] {
			w.fail("c14-liveness", "blocked:"+c,
				"idle quiescence, but %s is blocked inside the router (not at a queue receive): it waits for something that never comes", n)
			return
		}
	}
	out, lent, stale := 0, 0, -1
	heldNow := map[int]bool{}
	for _, c := range w.conns {
		if !c.inRead && !c.closed {
			w.fail("c14-conservation", "receiver-not-reading",
				"idle quiescence, but recv:%s is not parked in ReadBatch", c.name)
			return
		}
		lent += len(c.held)
		for _, i := range c.held {
			heldNow[i] = true
		}
	}
	for i, b := range w.bufs {
		if b.stage != stPool {
			out++
			if !heldNow[i] && stale < 0 {
				stale = i
			}
		}
	}
	if real := w.c.VerifPoolLen(); real != w.inPool {
		w.fail("c14-conservation", "pool-count",
			"idle quiescence: the pool holds %d buffers, but %d initial + returned - taken are expected", real, w.inPool)
		return
	}
	if out != lent {
		what := "?"
		if stale >= 0 {
			what = fmt.Sprintf("buffer #%d is %s", stale, w.bufs[stale])
		}
		w.fail("c14-conservation", "leak:"+stageNames[w.bufs[max(stale, 0)].stage],
			"idle quiescence (no datagram in flight, all queues empty, all senders flushed): %d buffers are out of the pool "+
				"but only %d are lent to parked ReadBatch calls; %s and was never returned (leak)", out, lent, what)
	}
}

func (w *world) run() {
	r := w.r
	w.sched = core.NewSched()
	w.connByName = map[string]*simConn{}
	w.byPkt = map[*router.Packet]int{}
	w.stalled = map[string]int{}
	w.granted = map[string]bool{}
	w.jit = map[string][]int{}
	w.jctr = map[string]int{}
	w.configure()
	for _, in := range w.ifs {
		if in.bfd {
			t := make([]int, 6)
			for i := range t {
				t[i] = r.Choice("bfd.jitter", 1<<16)
			}
			w.jit["bfd:"+in.remote.String()] = t
		}
	}
	// per-run profile (swarm)
	w.total = 8 + r.Choice("total", 120)
	if r.Chance("total.big", 1, 4) {
		w.total += 100 + r.Choice("total+", 180)
	}
	w.injW = 1 + r.Choice("injw", 6)
	w.burstMax = max(1, (1+r.Choice("burst", 3))*w.k.batch/2)
	w.mix = map[dkind]bool{}
	for k := dkind(0); k < nKinds; k++ {
		w.mix[k] = r.Choice("mix", 4) != 3
	}
	w.noIntproc = w.mode == modeShutdown
	if w.mode != modeClean {
		lv := []int{0, 1, 2, 4}
		w.pWbErr = lv[r.Choice("p.wberr", 4)]
		w.pWbPartial = lv[r.Choice("p.wbpartial", 4)]
		w.pRbErr = lv[r.Choice("p.rberr", 4)]
		w.stallW = r.Choice("p.stall", 3)
	}
	shutdownAt := -1
	if w.mode == modeShutdown {
		shutdownAt = r.Choice("shutdown.at", 1500)
		if r.Chance("shutdown.late", 1, 3) {
			shutdownAt += r.Choice("shutdown.at+", 6000)
		}
	}
	r.Logf("config %s total=%d", w.describe(), w.total)

	router.VerifYieldHook = w.yieldHook
	router.VerifActorHook = w.actorHook
	router.VerifPoolHook = w.poolHook
	router.VerifPanicHook = w.panicHook
	router.VerifQueuesHook = func(procQs, slowQs []chan *router.Packet) { w.procQs, w.slowQs = procQs, slowQs }
	bfd.VerifSetJitterSource(w.jitter)
	defer func() {
		router.VerifYieldHook, router.VerifActorHook, router.VerifPoolHook, router.VerifPanicHook = nil, nil, nil, nil
		router.VerifQueuesHook = nil
		bfd.VerifSetJitterSource(nil)
	}()

	ctx, cancel := context.WithCancel(context.Background())
	go func() { _ = w.c.DataPlane.Run(ctx) }()
	synctest.Wait()
	w.mu.Lock()
	w.initDone = true
	npool := len(w.bufs)
	w.mu.Unlock()
	if npool == 0 {
		panic(core.InfraError{Msg: "router did not start (no packet pool)"})
	}
	w.discover()
	r.Logf("started pool=%d actors=%d", npool, len(w.sched.Parked()))

	w.loop(shutdownAt)
	w.teardown()
	cancel()
	synctest.Wait()

	r.SimNS = w.simNS
	r.Nontrivial = w.outputs >= 2 && len(w.granted) >= 4
	r.Covered(fmt.Sprintf("np%d/nsp%d/if%d/reuse%v/bfd%v", w.k.np, w.k.nsp, len(w.ifs), w.k.reuse, w.k.bfd))
	r.Covered(fmt.Sprintf("batch%d", w.k.batch))
	r.Sample = map[string]any{"config": w.describe(), "pool": npool, "datagrams": w.injected, "written": w.outputs,
		"scmp_replies": w.scmpOut, "bfd_sent": w.bfdOut, "scheduler_steps": w.steps, "simulated_ms": w.simNS / 1e6}
}

func (w *world) loop(shutdownAt int) {
	r := w.r
	for !r.Failed() {
		if w.steps >= stepLimit {
			w.fail("c14-liveness", "step-limit", "run did not come to rest within %d scheduler steps", stepLimit)
			return
		}
		ps := w.sched.Parked()
		if r.Failed() || w.stopped() {
			return
		}
		for n, until := range w.stalled {
			if w.steps >= until {
				delete(w.stalled, n)
			}
		}
		if w.mode == modeShutdown && !w.shutting && w.steps >= shutdownAt {
			w.startShutdown()
			continue
		}
		if w.shutting {
			// the internal link's processor is stopped in the middle of Stop(), whose iteration order
			// over the links is a Go map order: let it finish at once so that order cannot matter
			forced := false
			for _, a := range ps {
				if a.Name == "intproc" && a.Site == "intproc.recv" && w.procStopClosed() {
					w.grant(a)
					forced = true
				}
			}
			if forced {
				continue
			}
		}
		var en []*core.Actor
		for _, a := range ps {
			if w.enabled(a) {
				en = append(en, a)
			}
		}
		canInject := w.injected < w.total && !w.shutting
		if !canInject && !w.final && !w.shutting {
			// the workload is exhausted: faults stop, the router must come to rest
			w.final = true
			clear(w.stalled)
			w.mu.Lock()
			pend := 0
			for _, c := range w.conns {
				pend += len(c.inbox)
			}
			w.finalSteps = w.steps + 60*(pend+len(w.bufs)) + 200*len(ps) + 2000
			w.mu.Unlock()
			r.Logf("final drain")
			continue
		}
		if w.final && w.steps > w.finalSteps {
			w.fail("c14-liveness", "no-quiescence",
				"faults stopped and no new input, but idle quiescence was not reached within the step bound (%d steps)", w.finalSteps)
			return
		}
		if !w.final {
			x := r.Choice("act", 32)
			switch {
			case canInject && x >= 32-w.injW:
				w.inject()
				continue
			case w.k.bfd && x == 1 && w.advances < maxAdv && !w.shutting && !bfdParked(ps):
				w.advance()
				continue
			case w.mode != modeClean && x == 2 && w.stallW > 0 && len(ps) > 0 && len(w.stalled) < 3 && !w.shutting:
				a := ps[r.Choice("stall.actor", len(ps))]
				d := 20 + r.Choice("stall.steps", 400*w.stallW)
				kind := classOf(a.Name) + ".stall"
				if classOf(a.Name) == "send" {
					kind = "wb.stall"
				}
				r.Fault(kind)
				if r.Chance("stall.class", 1, 3) {
					for _, b := range ps {
						if classOf(b.Name) == classOf(a.Name) {
							w.stalled[b.Name] = w.steps + d
						}
					}
				} else {
					w.stalled[a.Name] = w.steps + d
				}
				r.Logf("stall %s %d", a.Name, d)
				continue
			}
		}
		if len(en) > 0 {
			w.grant(en[r.Choice("sched", len(en))])
			continue
		}
		if len(w.stalled) > 0 {
			clear(w.stalled)
			continue
		}
		if w.shutting {
			if !w.shutDone.Load() {
				r.Probe("shutdown-stuck")
			}
			return
		}
		w.checkIdle(ps)
		if r.Failed() {
			return
		}
		if canInject {
			w.inject()
			continue
		}
		if w.mode == modeShutdown {
			w.startShutdown()
			continue
		}
		return
	}
}

// teardown ends the simulated process: nothing is judged any more.
func (w *world) teardown() {
	w.mu.Lock()
	w.tearing = true
	w.mu.Unlock()
	clear(w.stalled)
	// packets waiting for the internal link's processor would be sent into closed queues
	for len(w.intQ) > 0 {
		<-w.intQ
	}
	if !w.shutting {
		w.shutting = true
		go func() {
			w.c.DataPlane.Shutdown()
			w.shutDone.Store(true)
		}()
	}
	for i := 0; i < 200000; i++ {
		ps := w.sched.Parked()
		if len(ps) == 0 {
			break
		}
		// processors, slow-path processors and BFD senders leave at their yield point (see yield);
		// receivers, senders and the internal link's processor run to their regular end
		var pick *core.Actor
		for _, a := range ps {
			switch classOf(a.Name) {
			case "proc", "slow", "bfd":
				pick = a
			}
			if pick != nil {
				break
			}
		}
		if pick == nil {
			for _, a := range ps {
				if w.enabled(a) {
					pick = a
					break
				}
			}
		}
		if pick == nil {
			break
		}
		w.grant(pick)
	}
}
