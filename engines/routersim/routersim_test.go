//go:build verif

package routersim

import (
	"os"
	"testing"

	"verif/sim/core"
)

func campaign(mode int) core.RunFunc {
	return func(r *core.Run) {
		core.Bubble(r, func(t *testing.T) {
			w := &world{r: r, mode: mode}
			w.run()
		})
	}
}

func TestWorker(t *testing.T) {
	// every re-execution of the minimiser builds a whole router; keep the minimisation bounded
	if os.Getenv("VERIF_MIN_EXECS") == "" {
		os.Setenv("VERIF_MIN_EXECS", "150")
	}
	core.Main(t, core.Engine{Name: "routersim", Campaigns: map[string]core.RunFunc{
		"C14/clean":    campaign(modeClean),
		"C14/faults":   campaign(modeFaults),
		"C14/shutdown": campaign(modeShutdown),
	}})
}
