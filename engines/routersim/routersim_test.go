//go:build verif

package routersim

import (
	"os"
	"runtime/debug"
	"testing"

	"verif/sim/core"
)

func campaign(mode int) core.RunFunc {
	return func(r *core.Run) {
		core.Bubble(r, func(t *testing.T) {
			w := &world{r: r, mode: mode}
			w.run()
		})
	}
}

func TestWorker(t *testing.T) {
	// every re-execution of the minimiser builds a whole router; keep the minimisation bounded
	if os.Getenv("VERIF_MIN_EXECS") == "" {
		os.Setenv("VERIF_MIN_EXECS", "150")
	}
	// every run allocates a fresh router (a 2 MB data-plane structure and a packet pool of several MB);
	// a larger heap goal keeps that memory mapped instead of faulting it in again for every run
	if os.Getenv("GOGC") == "" {
		debug.SetGCPercent(800)
	}
	core.Main(t, core.Engine{Name: "routersim", Campaigns: map[string]core.RunFunc{
		"C14/clean":    campaign(modeClean),
		"C14/faults":   campaign(modeFaults),
		"C14/shutdown": campaign(modeShutdown),
	}})
}
