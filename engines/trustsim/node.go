//go:build verif

// A simulated AS: the real sqlite trust database and the real trust.FetchingProvider, with the fetch transport
// replaced by a seam the simulator controls.
package trustsim

import (
	"context"
	"crypto/sha256"
	"crypto/x509"
	"encoding/hex"
	"fmt"
	"net"
	"os"
	"path/filepath"
	"sort"

	"github.com/scionproto/scion/pkg/addr"
	"github.com/scionproto/scion/pkg/scrypto"
	"github.com/scionproto/scion/pkg/scrypto/cppki"
	"github.com/scionproto/scion/pkg/private/serrors"
	"github.com/scionproto/scion/private/storage/db"
	truststorage "github.com/scionproto/scion/private/storage/trust"
	"github.com/scionproto/scion/private/storage/trust/sqlite"
	"github.com/scionproto/scion/private/trust"
	"verif/sim/core"
)

var memSeq int // process-wide counter for in-memory database names (never logged, never a decision)

// fetchCall is one request the provider made through the seam and what the simulator answered.
type fetchCall struct {
	id   cppki.TRCID
	kind string // "honest", "fail", "wrong", "forged", "missing", "undecodable"
	good bool   // the answer is the genuine TRC with the requested identifier
}

// fetcher is the trust.Fetcher seam. answer decides, per request, which bytes (or which error) come back.
type fetcher struct {
	calls  []fetchCall
	answer func(id cppki.TRCID) (raw []byte, kind string, good bool)
}

func (f *fetcher) Chains(context.Context, trust.ChainQuery, net.Addr) ([][]*x509.Certificate, error) {
	return nil, serrors.New("simulated transport: no chains served")
}

func (f *fetcher) TRC(_ context.Context, id cppki.TRCID, _ net.Addr) (cppki.SignedTRC, error) {
	raw, kind, good := f.answer(id)
	if kind == "crash" {
		// the process dies while waiting for the reply: unwinds to the simulator, which then restarts the AS
		f.calls = append(f.calls, fetchCall{id, kind, false})
		panic(crashNow{})
	}
	if raw == nil {
		f.calls = append(f.calls, fetchCall{id, kind, false})
		return cppki.SignedTRC{}, serrors.New("simulated transport: fetch failed")
	}
	// like the real transport, the reply arrives as bytes and is parsed; unlike the real gRPC fetcher the seam
	// does not compare the identifier: the trust engine must not depend on that.
	signed, err := cppki.DecodeSignedTRC(raw)
	if err != nil {
		f.calls = append(f.calls, fetchCall{id, "undecodable:" + kind, false})
		return cppki.SignedTRC{}, serrors.New("simulated transport: reply does not parse")
	}
	f.calls = append(f.calls, fetchCall{id, kind, good})
	return signed, nil
}

type node struct {
	r    *core.Run
	name string
	path string // database file; "" = in-memory
	db   sqlite.DB
	open bool
	prov trust.FetchingProvider
	f    *fetcher
}

func newNode(r *core.Run, name, dir string) *node {
	n := &node{r: r, name: name, f: &fetcher{}}
	if dir != "" {
		n.path = filepath.Join(dir, name+".trust.db")
	}
	n.start()
	return n
}

func (n *node) start() {
	var err error
	if n.path == "" {
		memSeq++
		n.db, err = sqlite.New(fmt.Sprintf("file:trustsim-%d-%d", os.Getpid(), memSeq), &db.SqliteConfig{InMemory: true})
	} else {
		n.db, err = sqlite.New(n.path, &db.SqliteConfig{})
	}
	if err != nil {
		infra("opening trust db: %v", err)
	}
	n.open = true
	ia := addr.MustIAFrom(1, asOf(0))
	n.prov = trust.FetchingProvider{DB: n.db, Recurser: trust.LocalOnlyRecurser{}, Fetcher: n.f,
		Router: trust.LocalRouter{IA: ia}}
}

func (n *node) stop() {
	if n.open {
		if err := n.db.Close(); err != nil {
			infra("closing trust db: %v", err)
		}
		n.open = false
	}
}

// restart models a process restart: every in-memory object is dropped, the database file stays.
func (n *node) restart() {
	if n.path == "" {
		infra("restart of an in-memory node")
	}
	n.stop()
	n.prov = trust.FetchingProvider{}
	n.start()
}

func hashOf(b []byte) string {
	h := sha256.Sum256(b)
	return hex.EncodeToString(h[:8])
}

type storedTRC struct {
	isd, base, serial int
	pldHash           string
	rawHash           string
}

func (s storedTRC) key() string { return fmt.Sprintf("ISD%d-B%d-S%d", s.isd, s.base, s.serial) }

// stored lists everything in the node's TRC table, sorted by (isd, base, serial).
func (n *node) stored() []storedTRC {
	trcs, err := n.db.SignedTRCs(context.Background(), truststorage.TRCsQuery{})
	if err != nil {
		infra("listing TRCs: %v", err)
	}
	var out []storedTRC
	for _, t := range trcs {
		out = append(out, storedTRC{int(t.TRC.ID.ISD), int(t.TRC.ID.Base), int(t.TRC.ID.Serial), hashOf(t.TRC.Raw), hashOf(t.Raw)})
	}
	sort.Slice(out, func(i, j int) bool {
		a, b := out[i], out[j]
		if a.isd != b.isd {
			return a.isd < b.isd
		}
		if a.base != b.base {
			return a.base < b.base
		}
		return a.serial < b.serial
	})
	return out
}

// latest asks the store for the latest TRC of an ISD the way the trust engine does.
func (n *node) latest(isd int) (cppki.SignedTRC, bool) {
	t, err := n.db.SignedTRC(context.Background(), cppki.TRCID{ISD: addr.ISD(isd), Base: scrypto.LatestVer, Serial: scrypto.LatestVer})
	if err != nil {
		infra("latest TRC: %v", err)
	}
	return t, !t.IsZero()
}

// crashNow is panicked by the fetch seam to model the process dying in the middle of a catch-up.
type crashNow struct{}

func (n *node) notify(id cppki.TRCID) (err error, crashed bool) {
	n.f.calls = nil
	defer func() {
		if x := recover(); x != nil {
			if _, ok := x.(crashNow); !ok {
				panic(x)
			}
			err, crashed = nil, true
		}
	}()
	return n.prov.NotifyTRC(context.Background(), id), false
}

// insertAnchor provisions a trust anchor directly.
func (n *node) insertAnchor(raw []byte) {
	signed, err := cppki.DecodeSignedTRC(raw)
	if err != nil {
		infra("anchor does not parse: %v", err)
	}
	if _, err := n.db.InsertTRC(context.Background(), signed); err != nil {
		infra("inserting anchor: %v", err)
	}
}
