//go:build verif

// The simulated ISD governance: it decides who votes, which certificates are rotated, added or removed, and - as the
// adversary - produces successors that break exactly one rule (forge). Every decision comes from the run's tape.
package trustsim

import (
	"fmt"
	"time"

	"verif/sim/core"
)

type gov struct {
	r        *core.Run
	p        *pki
	nextName int
}

func newGov(r *core.Run, p *pki) *gov { return &gov{r: r, p: p, nextName: 1} }

func (g *gov) freshName() int { g.nextName++; return g.nextName - 1 }

const day = 24 * time.Hour

// genBase creates a base TRC: nv voting members (one sensitive and one regular certificate each), nr roots.
func (g *gov) genBase(isd, base int, now time.Time, nv, nr, quorum int, noReset bool) *trcSpec {
	s := &trcSpec{version: 1, isd: isd, base: base, serial: base, nb: now, dur: 400 * day, noReset: noReset,
		quorum: quorum, desc: fmt.Sprintf("ISD %d", isd)}
	var members []int
	for i := 0; i < nv; i++ {
		members = append(members, g.freshName())
	}
	// certificate order: class blocks in a tape-chosen order, so that vote indices differ between runs
	order := [][]class{{clsSens, clsReg, clsRoot}, {clsRoot, clsReg, clsSens}, {clsReg, clsRoot, clsSens}}[g.r.Choice("base.order", 3)]
	for _, cls := range order {
		if cls == clsRoot {
			for i := 0; i < nr; i++ {
				s.certs = append(s.certs, certSpec{isd: isd, cls: clsRoot, name: members[i%nv]})
			}
			continue
		}
		for _, m := range members {
			s.certs = append(s.certs, certSpec{isd: isd, cls: cls, name: m})
		}
	}
	s.core = append(s.core, members...)
	s.auth = append(s.auth, members[0])
	for _, c := range s.certs {
		if c.cls != clsRoot {
			s.sigs = append(s.sigs, sigSpec{sid: c, key: c})
		}
	}
	s.note = "base"
	return s
}

// profile constrains an honest update.
type profile struct {
	sensitive bool
	plain     bool // no optional changes, votes exactly the quorum
	rotReg    int  // at least this many regular voting certificates rotated
	rotRoot   int  // at least this many roots rotated
	rotSens   int  // (sensitive only) at least this many sensitive voting certificates rotated
	rotVote   bool // (sensitive only) the rotated sensitive certificates are among the voters
}

// pick chooses k distinct elements of from (tape-driven), keeping the order of from.
func (g *gov) pick(label string, from []int, k int) []int {
	if k >= len(from) {
		return append([]int(nil), from...)
	}
	pool := append([]int(nil), from...)
	chosen := map[int]bool{}
	for i := 0; i < k; i++ {
		j := g.r.Choice(label, len(pool))
		chosen[pool[j]] = true
		pool = append(pool[:j], pool[j+1:]...)
	}
	var out []int
	for _, v := range from {
		if chosen[v] {
			out = append(out, v)
		}
	}
	return out
}

func contains(l []int, v int) bool {
	for _, x := range l {
		if x == v {
			return true
		}
	}
	return false
}

// finish computes the votes and the signatures an honest update needs.
func (g *gov) finish(pred, s *trcSpec, voteCls class, must []int, plain bool) {
	cand := pred.indices(voteCls)
	votes := append([]int(nil), must...)
	var rest []int
	for _, i := range cand {
		if !contains(votes, i) {
			rest = append(rest, i)
		}
	}
	need := pred.quorum - len(votes)
	if need < 0 {
		need = 0
	}
	extra := 0
	if !plain && len(rest) > need {
		extra = g.r.Range("votes.extra", 0, len(rest)-need)
	}
	votes = append(votes, g.pick("votes.pick", rest, need+extra)...)
	if n := len(votes); n > 1 {
		rot := g.r.Choice("votes.rot", n)
		votes = append(votes[rot:], votes[:rot]...)
	}
	s.votes = votes
	s.sigs = nil
	for _, v := range votes {
		s.sigs = append(s.sigs, sigSpec{sid: pred.certs[v], key: pred.certs[v]})
	}
	for _, c := range s.certs {
		if c.cls != clsRoot && !inPred(pred, c) {
			s.sigs = append(s.sigs, sigSpec{sid: c, key: c})
		}
	}
	if voteCls == clsReg {
		for _, pc := range pred.certs {
			if pc.cls != clsRoot {
				continue
			}
			for _, c := range s.certs {
				if c.cls == clsRoot && c.name == pc.name && c != pc {
					s.sigs = append(s.sigs, sigSpec{sid: pc, key: pc})
				}
			}
		}
	}
}

// genUpdate creates an honest successor of pred.
func (g *gov) genUpdate(pred *trcSpec, now time.Time, pf profile) *trcSpec {
	r := g.r
	s := pred.clone()
	s.serial = pred.serial + 1
	s.nb, s.dur = now, 400*day
	s.grace = time.Duration(1+r.Choice("upd.grace", 48)) * time.Hour
	rotate := func(cls class, atLeast int, label string) []int {
		idx := pred.indices(cls)
		k := atLeast
		if !pf.plain && len(idx) > k {
			k += r.Range(label, 0, len(idx)-k)
			if r.Choice(label+".none", 2) == 0 && atLeast == 0 {
				k = 0
			}
		}
		if k > len(idx) {
			k = len(idx)
		}
		chosen := g.pick(label+".pick", idx, k)
		for _, i := range chosen {
			s.certs[i].ver++
		}
		return chosen
	}
	if !pf.sensitive {
		rotated := rotate(clsReg, pf.rotReg, "upd.rotreg")
		rotate(clsRoot, pf.rotRoot, "upd.rotroot")
		s.note = "regular"
		if !pf.plain && r.Chance("upd.reorder", 1, 3) {
			g.reorder(s)
		}
		g.finish(pred, s, clsReg, rotated, pf.plain)
		return s
	}
	s.note = "sensitive"
	rotSens := rotate(clsSens, pf.rotSens, "upd.rotsens")
	if !pf.rotVote {
		rotSens = nil
	}
	rotate(clsReg, pf.rotReg, "upd.rotreg")
	rotate(clsRoot, pf.rotRoot, "upd.rotroot")
	if !pf.plain {
		if r.Chance("upd.addvoter", 1, 3) {
			m := g.freshName()
			s.certs = append(s.certs, certSpec{isd: s.isd, cls: clsSens, name: m}, certSpec{isd: s.isd, cls: clsReg, name: m})
			s.core = append(s.core, m)
			s.note += "+voter"
		}
		if sens := s.indices(clsSens); r.Chance("upd.rmvoter", 1, 3) && len(sens) > 1 {
			// remove one member: its sensitive and regular certificate, its roots and its AS entries
			m := s.certs[sens[r.Choice("upd.rmvoter.which", len(sens))]].name
			var keep []certSpec
			for _, c := range s.certs {
				if c.name != m {
					keep = append(keep, c)
				}
			}
			hasRoot := false
			for _, c := range keep {
				hasRoot = hasRoot || c.cls == clsRoot
			}
			if hasRoot {
				s.certs = keep
				s.core = without(s.core, m)
				s.auth = without(s.auth, m)
				if len(s.core) == 0 || len(s.auth) == 0 {
					first := s.certs[s.indices(clsSens)[0]].name
					if len(s.core) == 0 {
						s.core = []int{first}
					}
					if len(s.auth) == 0 {
						s.auth = []int{first}
					}
				}
				s.note += "-voter"
			}
		}
		if r.Chance("upd.addroot", 1, 4) {
			sens := s.indices(clsSens)
			m := s.certs[sens[r.Choice("upd.addroot.which", len(sens))]].name
			dup := false
			for _, c := range s.certs {
				dup = dup || (c.cls == clsRoot && c.name == m)
			}
			if !dup {
				s.certs = append(s.certs, certSpec{isd: s.isd, cls: clsRoot, name: m})
				s.note += "+root"
			}
		}
		if r.Chance("upd.chauth", 1, 4) {
			a := s.core[r.Choice("upd.chauth.which", len(s.core))]
			if contains(s.auth, a) && len(s.auth) > 1 {
				s.auth = without(s.auth, a)
			} else if !contains(s.auth, a) {
				s.auth = append(s.auth, a)
			}
			s.note += "~auth"
		}
		maxQ := min(len(s.indices(clsSens)), len(s.indices(clsReg)))
		if r.Chance("upd.chquorum", 1, 3) {
			s.quorum = r.Range("upd.quorum", 1, maxQ)
			s.note += "~quorum"
		}
	}
	if maxQ := min(len(s.indices(clsSens)), len(s.indices(clsReg))); s.quorum > maxQ {
		s.quorum = maxQ
	}
	if !pf.plain && r.Chance("upd.reorder", 1, 3) {
		g.reorder(s)
	}
	g.finish(pred, s, clsSens, rotSens, pf.plain)
	return s
}

// reorder lists the certificates of s in a different order (1-3 transpositions). The order of the certificate
// sequence carries no meaning in trc.rst: votes name positions in the PREDECESSOR, and "changed" certificates are
// matched by category and distinguished name. Must be called after all position-based edits of s.certs.
func (g *gov) reorder(s *trcSpec) {
	if len(s.certs) < 2 {
		return
	}
	n := 1 + g.r.Choice("reorder.swaps", 3)
	for k := 0; k < n; k++ {
		i := g.r.Choice("reorder.i", len(s.certs))
		j := g.r.Choice("reorder.j", len(s.certs)-1)
		if j >= i {
			j++
		}
		s.certs[i], s.certs[j] = s.certs[j], s.certs[i]
	}
	s.note += "~order"
}

func without(l []int, v int) []int {
	var out []int
	for _, x := range l {
		if x != v {
			out = append(out, x)
		}
	}
	return out
}

// ---- the adversary -------------------------------------------------------------------------------------------

// forgeRules lists the single-rule violations the adversary can produce for an update. Rules whose name starts with
// "id." change the TRC identifier; all others keep the identifier of the honest successor.
var forgeRules = []string{
	"vote.nosig", "vote.newcert", "votes.few", "votes.lowquorum", "votes.dup", "votes.mixed", "votes.root", "votes.range",
	"flag.noreset", "sig.wrongkey", "sig.transplant", "new.nosig",
	"reg.quorum", "reg.core", "reg.auth", "reg.sens.rotate", "reg.sens.add", "reg.sens.remove",
	"reg.root.add", "reg.root.remove", "reg.root.swap", "reg.voter.add", "reg.voter.remove", "reg.voter.swap",
	"reg.novote", "reg.noack",
	"id.isd", "id.base", "id.serial",
	"payload.quorum0", "payload.quorumbig", "payload.certshort", "payload.nocore", "payload.dupsubject",
	"payload.validity", "payload.version",
}

func dropSig(s *trcSpec, c certSpec) {
	var keep []sigSpec
	for _, x := range s.sigs {
		if x.sid != c {
			keep = append(keep, x)
		}
	}
	s.sigs = keep
}

func removeCert(s *trcSpec, i int) {
	s.certs = append(append([]certSpec(nil), s.certs[:i]...), s.certs[i+1:]...)
}

// forge produces a successor of pred that violates exactly the named rule, or nil when the rule is not applicable
// to this predecessor.
func (g *gov) forge(pred *trcSpec, rule string, now time.Time) *trcSpec {
	r := g.r
	plainOf := func(sensitive bool) *trcSpec {
		return g.genUpdate(pred, now, profile{sensitive: sensitive, plain: true})
	}
	anyPlain := func() *trcSpec { return plainOf(r.Choice("forge.type", 2) == 1) }
	regs, senss, roots := pred.indices(clsReg), pred.indices(clsSens), pred.indices(clsRoot)
	var s *trcSpec
	switch rule {
	case "vote.nosig":
		s = anyPlain()
		v := s.votes[r.Choice("forge.which", len(s.votes))]
		dropSig(s, pred.certs[v])
	case "votes.few":
		s = anyPlain()
		for len(s.votes) >= pred.quorum {
			dropSig(s, pred.certs[s.votes[len(s.votes)-1]])
			s.votes = s.votes[:len(s.votes)-1]
		}
	case "vote.newcert":
		// a rotated sensitive voter "votes" with its new certificate only: the vote index names the predecessor's
		// certificate, which did not sign
		s = g.genUpdate(pred, now, profile{sensitive: true, plain: true, rotSens: 1, rotVote: true})
		for _, v := range s.votes {
			if s.certs[v] != pred.certs[v] {
				dropSig(s, pred.certs[v])
			}
		}
	case "votes.lowquorum":
		// a sensitive update lowers the quorum and carries only as many votes as the NEW quorum asks for
		if pred.quorum < 2 {
			return nil
		}
		s = plainOf(true)
		s.quorum = pred.quorum - 1
		for len(s.votes) > s.quorum {
			dropSig(s, pred.certs[s.votes[len(s.votes)-1]])
			s.votes = s.votes[:len(s.votes)-1]
		}
	case "votes.dup":
		if pred.quorum < 2 {
			return nil
		}
		s = anyPlain()
		last := len(s.votes) - 1
		dropSig(s, pred.certs[s.votes[last]])
		s.votes[last] = s.votes[r.Choice("forge.which", last)]
	case "votes.mixed", "votes.root", "votes.range":
		s = anyPlain()
		var v int
		switch rule {
		case "votes.mixed":
			other := regs
			if pred.certs[s.votes[0]].cls == clsReg {
				other = senss
			}
			v = other[r.Choice("forge.which", len(other))]
		case "votes.root":
			if len(roots) == 0 {
				return nil
			}
			v = roots[r.Choice("forge.which", len(roots))]
		default:
			v = []int{len(pred.certs), -1, len(pred.certs) + 7}[r.Choice("forge.which", 3)]
		}
		if v >= 0 && v < len(pred.certs) {
			s.sigs = append(s.sigs, sigSpec{sid: pred.certs[v], key: pred.certs[v]})
		}
		// the foreign vote goes first, last, or replaces one
		switch r.Choice("forge.pos", 3) {
		case 0:
			s.votes = append(s.votes, v)
		case 1:
			s.votes = append([]int{v}, s.votes...)
		default:
			if len(s.votes) < 2 {
				s.votes = append(s.votes, v)
			} else {
				dropSig(s, pred.certs[s.votes[len(s.votes)-1]])
				s.votes[len(s.votes)-1] = v
				// stays at or above the quorum in number, but not in voters of one class
			}
		}
	case "flag.noreset":
		s = anyPlain()
		s.noReset = !s.noReset
	case "sig.wrongkey", "sig.transplant":
		s = g.genUpdate(pred, now, profile{sensitive: r.Choice("forge.type", 2) == 1, rotReg: r.Choice("forge.rot", 2),
			rotRoot: min(r.Choice("forge.rotroot", 2), len(roots)), plain: true})
		i := r.Choice("forge.which", len(s.sigs))
		if rule == "sig.wrongkey" {
			k := s.sigs[i].sid
			k.ver += 100 // a key nobody certified
			s.sigs[i].key = k
		} else {
			s.sigs[i].over = 1
		}
	case "new.nosig":
		sens := r.Choice("forge.type", 2) == 1
		pf := profile{sensitive: sens, plain: true, rotReg: 1}
		if sens && r.Choice("forge.cls", 2) == 1 {
			pf = profile{sensitive: true, plain: true, rotSens: 1}
		}
		s = g.genUpdate(pred, now, pf)
		var fresh []certSpec
		for _, c := range s.certs {
			if c.cls != clsRoot && !inPred(pred, c) {
				fresh = append(fresh, c)
			}
		}
		if len(fresh) == 0 {
			return nil
		}
		dropSig(s, fresh[r.Choice("forge.which", len(fresh))])
	case "reg.quorum":
		s = plainOf(false)
		maxQ := min(len(senss), len(regs))
		if pred.quorum < maxQ && (pred.quorum == 1 || r.Choice("forge.dir", 2) == 0) {
			s.quorum = pred.quorum + 1
		} else if pred.quorum > 1 {
			s.quorum = pred.quorum - 1
		} else {
			return nil
		}
	case "reg.core", "reg.auth":
		s = plainOf(false)
		l := &s.core
		if rule == "reg.auth" {
			l = &s.auth
		}
		switch k := r.Choice("forge.how", 3); {
		case k == 1 && len(*l) > 1:
			*l = (*l)[:len(*l)-1]
		case k == 2:
			(*l)[r.Choice("forge.which", len(*l))] = g.freshName()
		default:
			*l = append(*l, g.freshName())
		}
	case "reg.sens.rotate":
		s = plainOf(false)
		i := senss[r.Choice("forge.which", len(senss))]
		s.certs[i].ver++
		s.sigs = append(s.sigs, sigSpec{sid: s.certs[i], key: s.certs[i]})
	case "reg.sens.add", "reg.voter.add", "reg.root.add":
		s = plainOf(false)
		cls := map[string]class{"reg.sens.add": clsSens, "reg.voter.add": clsReg, "reg.root.add": clsRoot}[rule]
		c := certSpec{isd: s.isd, cls: cls, name: g.freshName()}
		s.certs = append(s.certs, c)
		if cls != clsRoot {
			s.sigs = append(s.sigs, sigSpec{sid: c, key: c})
		}
	case "reg.sens.remove":
		if len(senss)-1 < pred.quorum {
			return nil
		}
		s = plainOf(false)
		removeCert(s, senss[r.Choice("forge.which", len(senss))])
	case "reg.root.remove":
		if len(roots) < 1 {
			return nil
		}
		s = plainOf(false)
		removeCert(s, roots[r.Choice("forge.which", len(roots))])
	case "reg.voter.remove":
		s = plainOf(false)
		var free []int
		for _, i := range regs {
			if !contains(s.votes, i) {
				free = append(free, i)
			}
		}
		if len(free) == 0 || len(regs)-1 < pred.quorum {
			return nil
		}
		removeCert(s, free[r.Choice("forge.which", len(free))])
	case "reg.root.swap", "reg.voter.swap":
		s = plainOf(false)
		idx := roots
		if rule == "reg.voter.swap" {
			idx = nil
			for _, i := range regs {
				if !contains(s.votes, i) {
					idx = append(idx, i)
				}
			}
		}
		if len(idx) == 0 {
			return nil
		}
		i := idx[r.Choice("forge.which", len(idx))]
		s.certs[i] = certSpec{isd: s.isd, cls: s.certs[i].cls, name: g.freshName()}
		if s.certs[i].cls != clsRoot {
			s.sigs = append(s.sigs, sigSpec{sid: s.certs[i], key: s.certs[i]})
		}
	case "reg.novote":
		if len(regs)-1 < pred.quorum {
			return nil
		}
		s = plainOf(false)
		var free []int
		for _, i := range regs {
			if !contains(s.votes, i) {
				free = append(free, i)
			}
		}
		if len(free) == 0 {
			return nil
		}
		i := free[r.Choice("forge.which", len(free))]
		s.certs[i].ver++
		s.sigs = append(s.sigs, sigSpec{sid: s.certs[i], key: s.certs[i]})
		switch r.Choice("forge.order", 3) {
		case 1:
			// the replacing certificate trades places with another regular voting certificate
			j := regs[r.Choice("forge.order.with", len(regs))]
			s.certs[i], s.certs[j] = s.certs[j], s.certs[i]
		case 2:
			g.reorder(s)
		}
	case "reg.noack":
		if len(roots) == 0 {
			return nil
		}
		s = g.genUpdate(pred, now, profile{plain: true, rotRoot: 1})
		var acks []certSpec
		for _, x := range s.sigs {
			if x.sid.cls == clsRoot {
				acks = append(acks, x.sid)
			}
		}
		if len(acks) == 0 {
			return nil
		}
		dropSig(s, acks[r.Choice("forge.which", len(acks))])
	case "id.isd":
		s = plainOf(true)
		s.isd = pred.isd + 1 + r.Choice("forge.which", 2)
		for i := range s.certs {
			s.certs[i].isd = s.isd
			if s.certs[i].cls != clsRoot {
				s.sigs = append(s.sigs, sigSpec{sid: s.certs[i], key: s.certs[i]})
			}
		}
	case "id.base":
		s = anyPlain()
		var opts []int
		for b := 1; b < s.serial; b++ {
			if b != pred.base {
				opts = append(opts, b)
			}
		}
		if len(opts) == 0 {
			return nil
		}
		s.base = opts[r.Choice("forge.which", len(opts))]
	case "id.serial":
		s = anyPlain()
		opts := []int{pred.serial + 2, pred.serial + 3}
		if pred.serial > pred.base {
			opts = append(opts, pred.serial)
		}
		if pred.serial-1 > pred.base {
			opts = append(opts, pred.serial-1)
		}
		s.serial = opts[r.Choice("forge.which", len(opts))]
	case "payload.quorum0":
		s = plainOf(true)
		s.quorum = 0
	case "payload.quorumbig":
		s = plainOf(true)
		s.quorum = min(len(s.indices(clsSens)), len(s.indices(clsReg))) + 1
	case "payload.certshort":
		s = plainOf(true)
		i := senss[r.Choice("forge.which", len(senss))]
		s.certs[i].short = true
		s.sigs = append(s.sigs, sigSpec{sid: s.certs[i], key: s.certs[i]})
	case "payload.nocore":
		s = plainOf(true)
		s.core = nil
	case "payload.dupsubject":
		s = plainOf(true)
		c := s.certs[senss[r.Choice("forge.which", len(senss))]]
		c.ver += 50
		s.certs = append(s.certs, c)
		s.sigs = append(s.sigs, sigSpec{sid: c, key: c})
	case "payload.validity":
		s = anyPlain()
		s.dur = -time.Hour
	case "payload.version":
		s = anyPlain()
		s.version = 2
	default:
		infra("unknown forge rule %s", rule)
	}
	s.note = "forged." + rule
	return s
}

// mutate takes an unconstrained honest successor of pred and applies one to three primitive edits (votes, signatures,
// certificates, quorum). Unlike forge it makes no claim about the result: the reference judge alone labels it, and
// some results are still valid (e.g. a vote beyond the quorum withdrawn together with its signature). This is where
// combinations of partially replaced certificate sets with odd vote lists and signer sets come from.
func (g *gov) mutate(pred *trcSpec, now time.Time) *trcSpec {
	r := g.r
	s := g.genUpdate(pred, now, profile{sensitive: r.Choice("mut.type", 2) == 1})
	n := 1 + r.Choice("mut.count", 3)
	note := ""
	for k := 0; k < n; k++ {
		switch r.Choice("mut.op", 8) {
		case 0: // withdraw a vote together with its signature
			if len(s.votes) == 0 {
				continue
			}
			i := r.Choice("mut.which", len(s.votes))
			v := s.votes[i]
			s.votes = append(append([]int(nil), s.votes[:i]...), s.votes[i+1:]...)
			if v >= 0 && v < len(pred.certs) && !contains(s.votes, v) {
				// (a replaced root's acknowledgement or anything else by that certificate goes too: same signer)
				dropSig(s, pred.certs[v])
			}
			note += "-vote"
		case 1: // one more vote, signed by the certificate the index names
			v := r.Choice("mut.which", len(pred.certs))
			if !contains(s.votes, v) {
				has := false
				for _, x := range s.sigs {
					has = has || x.sid == pred.certs[v]
				}
				if !has {
					s.sigs = append(s.sigs, sigSpec{sid: pred.certs[v], key: pred.certs[v]})
				}
			}
			if r.Choice("mut.front", 2) == 1 {
				s.votes = append([]int{v}, s.votes...)
			} else {
				s.votes = append(s.votes, v)
			}
			note += "+vote"
		case 2: // a signature disappears
			if len(s.sigs) == 0 {
				continue
			}
			dropSig(s, s.sigs[r.Choice("mut.which", len(s.sigs))].sid)
			note += "-sig"
		case 3: // a signature is made with a key nobody certified
			if len(s.sigs) == 0 {
				continue
			}
			i := r.Choice("mut.which", len(s.sigs))
			k := s.sigs[i].sid
			k.ver += 100
			s.sigs[i].key = k
			note += "~sig"
		case 4, 5: // one more certificate is replaced; its new (voting) version signs or not, its old (root) version too
			i := r.Choice("mut.which", len(s.certs))
			old := s.certs[i]
			if !inPred(pred, old) {
				continue // already new
			}
			s.certs[i].ver++
			if r.Choice("mut.signs", 3) != 0 {
				if old.cls == clsRoot {
					if pred.certs[s.votes[0]].cls == clsReg {
						s.sigs = append(s.sigs, sigSpec{sid: old, key: old})
					}
				} else {
					s.sigs = append(s.sigs, sigSpec{sid: s.certs[i], key: s.certs[i]})
				}
			}
			note += "~" + old.cls.String()
		case 6: // the quorum moves
			maxQ := min(len(s.indices(clsSens)), len(s.indices(clsReg)))
			q := 1 + r.Choice("mut.quorum", maxQ)
			if q != s.quorum {
				s.quorum = q
				note += "~quorum"
			}
		case 7: // the trust-reset flag flips
			s.noReset = !s.noReset
			note += "~flag"
		}
		if len(s.votes) == 0 {
			break
		}
	}
	s.note = "mutated." + s.note + note
	return s
}

// forgeBase produces a base TRC violating one rule.
var baseRules = []string{"base.unsigned", "base.wrongkey", "base.transplant", "base.votes", "base.grace"}

func (g *gov) forgeBase(honest *trcSpec, rule string) *trcSpec {
	r := g.r
	s := honest.clone()
	switch rule {
	case "base.unsigned":
		dropSig(s, s.sigs[r.Choice("forge.which", len(s.sigs))].sid)
	case "base.wrongkey":
		i := r.Choice("forge.which", len(s.sigs))
		k := s.sigs[i].sid
		k.ver += 100
		s.sigs[i].key = k
	case "base.transplant":
		s.sigs[r.Choice("forge.which", len(s.sigs))].over = 1
	case "base.votes":
		s.votes = []int{0}
	case "base.grace":
		s.grace = time.Hour
	}
	s.note = "forged." + rule
	return s
}
