//go:build verif

// C35: the trust store only advances along verified TRC successions.
//
// One run = one AS (real sqlite trust DB in a file, real FetchingProvider, real LoadTRCs from a real directory) in a
// world of honest TRC chains: ISD 1 with a main chain, optionally a trust-reset chain (other base number) and
// optionally a second ISD. Events drawn from the tape: notifications (stale, current, +1, +k, the chain end, beyond
// the chain end, other base, other/unknown ISD), process restarts, clock advances, and loading TRC files from disk
// (honest files in DER or PEM, some dated in the future; in the faulty campaign also truncated and garbage files).
// In the faulty campaign every fetch made during a catch-up may fail, return another genuine TRC than requested,
// or return a forged successor. Oracle: a map model of the store, advanced only by the rules of the statement;
// after every event the real table must equal the model.
package trustsim

import (
	"context"
	"encoding/pem"
	"errors"
	"fmt"
	"os"
	"path/filepath"
	"testing"
	"time"

	"github.com/scionproto/scion/pkg/addr"
	"github.com/scionproto/scion/pkg/scrypto"
	"github.com/scionproto/scion/pkg/scrypto/cppki"
	"github.com/scionproto/scion/private/trust"
	"verif/sim/core"
)

type chain struct {
	isd, base int
	trcs      []*trcSpec // trcs[k].serial == base+k
}

func (c *chain) get(serial int) *trcSpec {
	if k := serial - c.base; k >= 0 && k < len(c.trcs) {
		return c.trcs[k]
	}
	return nil
}

type c35sim struct {
	r        *core.Run
	p        *pki
	g        *gov
	chains   []*chain
	n        *node
	root     string
	faulty   bool
	faultsOn bool
	model    map[string]string // "ISDi-Bb-Ss" -> payload hash; iterated only through core.SortedKeys
	ids      map[string][3]int
	last     map[int][2]int // per ISD: the latest (base, serial) seen so far
	forged   map[string]*trcSpec
	nload    int
	diskGap  bool
	step     time.Duration
}

func (s *c35sim) find(id cppki.TRCID) *trcSpec {
	for _, c := range s.chains {
		if c.isd == int(id.ISD) && c.base == int(id.Base) {
			return c.get(int(id.Serial))
		}
	}
	return nil
}

func (s *c35sim) chainOf(isd, base int) *chain {
	for _, c := range s.chains {
		if c.isd == isd && c.base == base {
			return c
		}
	}
	return nil
}

func (s *c35sim) modelAdd(t *trcSpec) {
	s.p.build(t)
	s.model[t.idString()] = t.pldHash
	s.ids[t.idString()] = [3]int{t.isd, t.base, t.serial}
}

// modelLatest: the latest TRC of an ISD is the one with the highest base number and, within it, the highest serial.
func (s *c35sim) modelLatest(isd int) (base, serial int, ok bool) {
	for _, k := range core.SortedKeys(s.model) {
		id := s.ids[k]
		if id[0] != isd {
			continue
		}
		if !ok || id[1] > base || (id[1] == base && id[2] > serial) {
			base, serial, ok = id[1], id[2], true
		}
	}
	return
}

func (s *c35sim) modelString() string {
	var l []storedTRC
	for _, k := range core.SortedKeys(s.model) {
		id := s.ids[k]
		l = append(l, storedTRC{isd: id[0], base: id[1], serial: id[2], pldHash: s.model[k]})
	}
	// same order as node.stored()
	for i := 1; i < len(l); i++ {
		for j := i; j > 0; j-- {
			a, b := l[j-1], l[j]
			if a.isd < b.isd || (a.isd == b.isd && (a.base < b.base || (a.base == b.base && a.serial <= b.serial))) {
				break
			}
			l[j-1], l[j] = l[j], l[j-1]
		}
	}
	return storedString(l)
}

// compare checks the real table against the model and the latest-never-regresses invariant.
func (s *c35sim) compare(after string) {
	r := s.r
	if r.Failed() {
		return
	}
	got := s.n.stored()
	gs, ms := storedString(got), s.modelString()
	if gs != ms {
		for _, t := range got {
			h, ok := s.model[t.key()]
			if !ok || h != t.pldHash {
				check, what := "c35-unverified-stored", "a TRC that was never verified as successor of the previously latest one"
				if b, _, ok := s.modelLatest(t.isd); ok && b != t.base {
					check, what = "c35-other-base-accepted", "a TRC with a different base number than the latest"
				}
				r.Fail(check, after, "after %s the store holds %s (%s), %s\nstore:%s\nmodel:%s", after, t.key(), t.pldHash, what, gs, ms)
				return
			}
		}
		r.Fail("c35-prefix-not-kept", after, "after %s the store lacks TRCs it must hold\nstore:%s\nmodel:%s", after, gs, ms)
		return
	}
	// latest as the trust engine sees it
	seen := map[int]bool{}
	for _, k := range core.SortedKeys(s.model) {
		isd := s.ids[k][0]
		if seen[isd] {
			continue
		}
		seen[isd] = true
		mb, msr, _ := s.modelLatest(isd)
		lt, ok := s.n.latest(isd)
		if !ok || int(lt.TRC.ID.Base) != mb || int(lt.TRC.ID.Serial) != msr {
			r.Fail("c35-latest-wrong", after, "after %s the store reports %v as latest TRC of ISD %d, the highest stored is B%d-S%d\nstore:%s",
				after, lt.TRC.ID, isd, mb, msr, gs)
			return
		}
		if p, ok := s.last[isd]; ok && (mb < p[0] || (mb == p[0] && msr < p[1])) {
			r.Fail("c35-latest-regressed", after, "after %s the latest TRC of ISD %d went back from B%d-S%d to B%d-S%d", after, isd, p[0], p[1], mb, msr)
			return
		}
		s.last[isd] = [2]int{mb, msr}
	}
	if !s.diskGap {
		// contiguity of every (ISD, base) sequence, unless the (trusted) disk itself supplied a gap
		prev := [3]int{}
		for _, t := range got {
			if t.isd == prev[0] && t.base == prev[1] && t.serial != prev[2]+1 {
				r.Fail("c35-gap", after, "after %s the stored TRCs of ISD %d base %d are not contiguous\nstore:%s", after, t.isd, t.base, gs)
				return
			}
			prev = [3]int{t.isd, t.base, t.serial}
		}
	}
}

// answer is the fetch transport.
func (s *c35sim) answer(id cppki.TRCID) ([]byte, string, bool) {
	r := s.r
	honest := s.find(id)
	if s.faultsOn {
		switch k := r.Choice("fetch.fault", 8); k {
		case 1:
			r.Fault("fetch.fail")
			return nil, "fail", false
		case 2:
			// another genuine TRC than the one requested
			var cands []*trcSpec
			for _, c := range s.chains {
				if c.isd == int(id.ISD) && c.base == int(id.Base) {
					for _, d := range []int{1, -1, 2} {
						if t := c.get(int(id.Serial) + d); t != nil {
							cands = append(cands, t)
						}
					}
				} else {
					cands = append(cands, c.trcs[0])
					if t := c.get(int(id.Serial)); t != nil && t != c.trcs[0] {
						cands = append(cands, t)
					}
				}
			}
			if len(cands) > 0 {
				t := cands[r.Choice("fetch.wrong.which", len(cands))]
				r.Fault("fetch.wrong")
				return s.p.build(t), "wrong:" + t.idString(), false
			}
		case 3:
			predID := id
			predID.Serial--
			if pred := s.find(predID); pred != nil {
				rule := c35ForgeRules[r.Choice("fetch.forged.rule", len(c35ForgeRules))]
				key := id.String() + "/" + rule
				f := s.forged[key]
				if f == nil {
					nb := pred.nb.Add(s.step)
					if f = s.g.forge(pred, rule, nb); f == nil {
						rule = "vote.nosig"
						f = s.g.forge(pred, rule, nb)
					}
					if v, why := judge(pred, f); v {
						infra("forged %s judged valid (%s)", f.note, why)
					}
					s.forged[key] = f
				}
				r.Fault("fetch.forged." + rule)
				return s.p.build(f), f.note, false
			}
		case 4:
			if r.Choice("fetch.crash", 2) == 1 {
				r.Fault("as.crash-during-catch-up")
				return nil, "crash", false
			}
		}
	}
	if honest == nil {
		return nil, "missing", false
	}
	return s.p.build(honest), "honest", true
}

// forgeries that keep the identifier of the honest successor (anything else is what fetch.wrong covers)
var c35ForgeRules = []string{"vote.nosig", "votes.few", "votes.dup", "votes.mixed", "sig.wrongkey", "sig.transplant",
	"new.nosig", "flag.noreset", "reg.quorum", "reg.noack", "reg.novote", "reg.sens.rotate"}

func callsString(calls []fetchCall) string {
	out := "["
	for i, c := range calls {
		if i > 0 {
			out += " "
		}
		out += fmt.Sprintf("S%d:%s", c.id.Serial, c.kind)
	}
	return out + "]"
}

func (s *c35sim) notify(id cppki.TRCID, what string) {
	r := s.r
	if r.Failed() {
		return
	}
	isd := int(id.ISD)
	lb, ls, known := s.modelLatest(isd)
	err, crashed := s.n.notify(id)
	calls := s.n.f.calls
	r.Logf("notify %v (%s) while latest B%d-S%d known=%v: err=%v crashed=%v fetches=%s", id, what, lb, ls, known, err != nil, crashed, callsString(calls))
	if crashed {
		// the process died while a fetch was outstanding; it comes back with whatever its database file holds
		s.n.restart()
	}
	ev := fmt.Sprintf("notify:%s", what)
	fail := func(check, format string, args ...any) {
		r.Fail(check, ev, "notification %v (%s) while holding B%d-S%d: "+format+"; fetches %s", append([]any{id, what, lb, ls}, append(args, callsString(calls))...)...)
	}
	switch {
	case !known:
		r.Covered("notify/unknown-isd")
		if len(calls) != 0 {
			fail("c35-fetch-sequence", "fetched although no TRC of the ISD is held")
		} else if err == nil {
			fail("c35-result-lies", "success reported although no TRC of the ISD is held")
		}
	case int(id.Base) != lb:
		r.Covered("notify/other-base")
		r.Probe("other-base-notification")
		if len(calls) != 0 {
			fail("c35-other-base-accepted", "a different base number than the latest triggered fetching")
		} else if err == nil {
			fail("c35-result-lies", "success reported for a different base number than the latest")
		}
	case int(id.Serial) <= ls:
		r.Covered("notify/not-newer")
		if len(calls) != 0 {
			fail("c35-fetch-sequence", "fetched although the notified serial is not newer")
		} else if err != nil {
			fail("c35-result-lies", "error reported for a serial that is not newer")
		}
	default:
		i, stopped := 0, false
		for ser := ls + 1; ser <= int(id.Serial); ser++ {
			if i >= len(calls) {
				fail("c35-catchup-incomplete", "catch-up ended before serial %d without a failing step", ser)
				return
			}
			c := calls[i]
			i++
			want := cppki.TRCID{ISD: id.ISD, Base: scrypto.Version(lb), Serial: scrypto.Version(ser)}
			if c.id != want {
				fail("c35-fetch-sequence", "step %d fetched %v instead of %v", i, c.id, want)
				return
			}
			if !c.good {
				stopped = true
				r.Covered(fmt.Sprintf("notify/stop-at-step-%d-of-%d/%s", i, int(id.Serial)-ls, kindClass(c.kind)))
				if i > 1 {
					r.Probe("failure-in-the-middle-of-catch-up")
				}
				break
			}
			s.modelAdd(s.find(want))
		}
		if !stopped {
			r.Covered(fmt.Sprintf("notify/caught-up-%d", int(id.Serial)-ls))
			if int(id.Serial)-ls > 1 {
				r.Probe("multi-step-catch-up")
			}
		}
		if len(calls) != i {
			fail("c35-continued-after-failure", "%d fetches after the first step that could not be fetched or verified", len(calls)-i)
			return
		}
		if !crashed && (err != nil) != stopped {
			fail("c35-result-lies", "NotifyTRC error=%v but the catch-up %s", err != nil, map[bool]string{true: "stopped at a failing step", false: "was complete"}[stopped])
			return
		}
	}
	s.compare(ev)
}

func kindClass(k string) string {
	for i := 0; i < len(k); i++ {
		if k[i] == ':' || k[i] == '.' {
			return k[:i]
		}
	}
	return k
}

// load writes TRC files into a fresh directory and calls the real LoadTRCs on it.
func (s *c35sim) load(what string, files []*trcSpec, allowFaults bool) {
	r := s.r
	if r.Failed() {
		return
	}
	s.nload++
	dir := filepath.Join(s.root, fmt.Sprintf("load%d", s.nload))
	if err := os.Mkdir(dir, 0o755); err != nil {
		infra("mkdir: %v", err)
	}
	now := time.Now()
	type diskFile struct {
		name   string
		t      *trcSpec
		bad    string
		future bool
	}
	var dfs []diskFile
	anyBad := false
	for _, t := range files {
		raw := s.p.build(t)
		content := raw
		enc := "der"
		if r.Choice("disk.pem", 2) == 1 {
			content = pem.EncodeToMemory(&pem.Block{Type: "TRC", Bytes: raw})
			enc = "pem"
		}
		df := diskFile{name: t.idString() + ".trc", t: t, future: t.nb.After(now)}
		if allowFaults && s.faultsOn {
			switch r.Choice("disk.fault", 10) {
			case 1:
				content = content[:r.Choice("disk.truncate.at", len(content))]
				df.bad = "truncated"
				r.Fault("disk.truncated")
			case 2:
				content = r.Tape.Bytes("disk.garbage", 8+4*r.Choice("disk.garbage.len", 20))
				df.bad = "garbage"
				r.Fault("disk.garbage")
			}
		}
		if df.bad != "" {
			// a damaged file that still parses as the same TRC is not damaged
			if dec, err := decodeFile(content); err == nil && hashOf(dec.TRC.Raw) == t.pldHash {
				df.bad = ""
			}
		}
		anyBad = anyBad || df.bad != ""
		if df.future && df.bad == "" {
			r.Fault("disk.future-trc")
		}
		if err := os.WriteFile(filepath.Join(dir, df.name), content, 0o644); err != nil {
			infra("write: %v", err)
		}
		dfs = append(dfs, df)
		r.Logf("disk file %s %s bad=%q future=%v", df.name, enc, df.bad, df.future)
	}
	before := map[string]bool{}
	for _, k := range core.SortedKeys(s.model) {
		before[k] = true
	}
	res, err := trust.LoadTRCs(context.Background(), dir, s.n.db)
	r.Logf("load %s: %d files err=%v loaded=%d ignored=%d", what, len(dfs), err != nil, len(res.Loaded), len(res.Ignored))
	ev := "load:" + what
	got := map[string]string{}
	for _, t := range s.n.stored() {
		got[t.key()] = t.pldHash
	}
	loaded := map[string]bool{}
	for _, f := range res.Loaded {
		loaded[filepath.Base(f)] = true
	}
	if !anyBad && err != nil {
		r.Fail("c35-load-failed", ev, "LoadTRCs failed on a directory of well-formed TRC files: %v", err)
		return
	}
	if anyBad && err == nil {
		r.Fail("c35-result-lies", ev, "LoadTRCs reported success on a directory with a damaged file")
		return
	}
	for _, df := range dfs {
		key := df.t.idString()
		ign, isIgn := res.Ignored[filepath.Join(dir, df.name)]
		switch {
		case df.bad != "":
			// nothing of a damaged file may be stored: covered by the table comparison
		case df.future:
			r.Covered("load/future-ignored")
			if got[key] != "" && !before[key] {
				r.Fail("c35-future-file-loaded", ev, "TRC file %s has validity starting %s, after the current time %s, and was loaded",
					df.name, df.t.nb.Format(time.RFC3339), now.Format(time.RFC3339))
				return
			}
			if !anyBad && (!isIgn || loaded[df.name]) {
				r.Fail("c35-future-file-loaded", ev, "future-dated TRC file %s not reported as ignored", df.name)
				return
			}
		default:
			switch {
			case got[key] == df.t.pldHash:
				if !before[key] {
					r.Covered("load/new")
					if lb, ls, ok := s.modelLatest(df.t.isd); ok && df.t.base < lb && df.t.serial > ls {
						// a straggler of an abandoned base, numbered higher than anything under the current base
						r.Probe("abandoned-base-trc-with-higher-serial-stored")
					}
					s.modelAdd(df.t)
				} else {
					r.Covered("load/already-there")
					if !anyBad && !(isIgn && errors.Is(ign, trust.ErrAlreadyExists)) {
						r.Fail("c35-result-lies", ev, "file %s holds a TRC already stored but is not reported as such", df.name)
						return
					}
				}
			case !anyBad:
				r.Fail("c35-load-failed", ev, "well-formed, currently valid TRC file %s was not loaded (ignored=%v)", df.name, isIgn)
				return
			default:
				r.Probe("load-cut-short-by-damaged-file")
			}
		}
	}
	// did the (trusted) disk content itself create a gap?
	prev := [3]int{}
	for _, k := range sortedIDs(s) {
		if k[0] == prev[0] && k[1] == prev[1] && k[2] != prev[2]+1 {
			if !s.diskGap {
				r.Probe("disk-supplied-gap")
			}
			s.diskGap = true
		}
		prev = k
	}
	s.compare(ev)
}

func sortedIDs(s *c35sim) [][3]int {
	var l [][3]int
	for _, k := range core.SortedKeys(s.model) {
		l = append(l, s.ids[k])
	}
	for i := 1; i < len(l); i++ {
		for j := i; j > 0; j-- {
			a, b := l[j-1], l[j]
			if a[0] < b[0] || (a[0] == b[0] && (a[1] < b[1] || (a[1] == b[1] && a[2] <= b[2]))) {
				break
			}
			l[j-1], l[j] = l[j], l[j-1]
		}
	}
	return l
}

func decodeFile(content []byte) (cppki.SignedTRC, error) {
	if block, _ := pem.Decode(content); block != nil && block.Type == "TRC" {
		content = block.Bytes
	}
	return cppki.DecodeSignedTRC(content)
}

func (s *c35sim) buildChain(isd, base int, t0 time.Time, n, nv, quorum int) *chain {
	r := s.r
	c := &chain{isd: isd, base: base}
	b := s.g.genBase(isd, base, t0, nv, 1, quorum, r.Choice("world.noreset", 2) == 1)
	if v, why := judge(nil, b); !v {
		infra("honest base judged invalid: %s", why)
	}
	c.trcs = append(c.trcs, b)
	for k := 1; k <= n; k++ {
		pf := profile{plain: true}
		switch r.Choice("world.update", 4) {
		case 1:
			pf = profile{}
		case 2:
			pf = profile{sensitive: true}
		case 3:
			pf = profile{sensitive: true, plain: true}
		}
		pred := c.trcs[k-1]
		t := s.g.genUpdate(pred, t0.Add(time.Duration(k)*s.step), pf)
		if v, why := judge(pred, t); !v {
			infra("honest update judged invalid: %s", why)
		}
		c.trcs = append(c.trcs, t)
	}
	s.chains = append(s.chains, c)
	return c
}

func runC35(r *core.Run, faulty bool) {
	core.Bubble(r, func(t *testing.T) {
		start := time.Now()
		p := newPKI(r)
		g := newGov(r, p)
		tmp := "" // a memory-backed file system when there is one: the database file and the TRC directories are real files
		if st, err := os.Stat("/dev/shm"); err == nil && st.IsDir() {
			tmp = "/dev/shm"
		}
		root, err := os.MkdirTemp(tmp, "trustsim-c35-")
		if err != nil {
			infra("tempdir: %v", err)
		}
		defer os.RemoveAll(root)
		s := &c35sim{r: r, p: p, g: g, root: root, faulty: faulty, model: map[string]string{}, ids: map[string][3]int{},
			last: map[int][2]int{}, forged: map[string]*trcSpec{}, step: 10 * day}
		t0 := time.Now()
		nMain := r.Range("world.main", 2, 7)
		mainBase := 1 + r.Choice("world.mainbase", 2)
		nv := r.Range("world.voters", 2, 3)
		main := s.buildChain(1, mainBase, t0, nMain, nv, r.Range("world.quorum", 1, nv))
		var reset, second *chain
		if r.Choice("world.reset", 2) == 1 {
			// A trust reset abandons the old chain at some serial; whoever still holds the old (possibly
			// compromised) voting keys may have continued it beyond that point, so the new base number can be
			// lower than serial numbers that exist under the old base.
			rb := mainBase + nMain + 2 - r.Choice("world.resetbase", nMain+2)
			reset = s.buildChain(1, rb, t0.Add(time.Duration(rb-mainBase)*s.step), r.Range("world.resetlen", 0, 2), 2, 1)
		}
		if r.Choice("world.isd2", 3) == 1 {
			second = s.buildChain(2, 1, t0, r.Range("world.isd2len", 0, 3), 2, 2)
		}
		r.Logf("world: main ISD1-B%d +%d updates, reset=%v, isd2=%v", mainBase, nMain, reset != nil, second != nil)
		time.Sleep(30 * time.Minute)

		s.n = newNode(r, "as", root)
		defer s.n.stop()
		s.n.f.answer = s.answer
		// boot: the AS is provisioned with trust anchors on disk
		anchors := []*trcSpec{main.trcs[0]}
		if second != nil {
			anchors = append(anchors, second.trcs[0])
		}
		s.load("anchors", anchors, false)
		s.faultsOn = faulty
		if k := r.Choice("world.age", nMain+3); k > 0 {
			// the anchors are old: part of the history is already in the past when the events start
			time.Sleep(time.Duration(k) * s.step)
			r.Logf("clock advances %v", time.Duration(k)*s.step)
		}

		events := r.Range("events", 4, 16)
		for e := 0; e < events && !r.Failed(); e++ {
			switch r.Choice("event", 9) {
			case 2:
				d := time.Duration(1+r.Choice("sleep.hours", 24*25)) * time.Hour
				time.Sleep(d)
				r.Logf("clock advances %v", d)
			case 3:
				s.n.restart()
				if faulty {
					r.Fault("as.restart")
				} else {
					r.Probe("as-restart")
				}
				r.Logf("restart")
				s.compare("restart")
			case 4, 5:
				c := s.chains[r.Choice("load.chain", len(s.chains))]
				a := r.Choice("load.from", len(c.trcs))
				if r.Choice("load.gap", 3) != 2 {
					// usually the files continue what the AS already holds
					known := -1
					for k, t := range c.trcs {
						if _, ok := s.model[t.idString()]; ok {
							known = k
						}
					}
					a = min(a, known+1)
				}
				b := r.Range("load.to", a, len(c.trcs)-1)
				s.load(fmt.Sprintf("ISD%d-B%d[%d..%d]", c.isd, c.base, c.base+a, c.base+b), c.trcs[a:b+1], true)
			default:
				s.notify(s.pickNotification())
			}
		}
		// bounded liveness: faults stop, one notification of the true latest serial must bring the store to it
		s.faultsOn = false
		if !r.Failed() && r.Choice("final.restart", 2) == 1 {
			s.n.restart()
			s.compare("restart")
		}
		for _, isd := range []int{1, 2} {
			lb, _, ok := s.modelLatest(isd)
			if !ok || r.Failed() {
				continue
			}
			c := s.chainOf(isd, lb)
			end := c.trcs[len(c.trcs)-1]
			s.notify(end.id(), "final")
			if r.Failed() {
				break
			}
			if lt, ok := s.n.latest(isd); !ok || lt.TRC.ID != end.id() {
				r.Fail("c35-not-live", "final", "with faults stopped, one notification of %s left the store at %v", end.idString(), lt.TRC.ID)
			}
		}
		r.SimNS = int64(time.Since(start))
		r.Nontrivial = len(s.model) > len(anchors)
		r.Sample = map[string]any{"main_updates": nMain, "reset_chain": reset != nil, "second_isd": second != nil, "events": events, "stored": len(s.model)}
	})
}

// pickNotification draws a notification: which ISD, which base, which serial relative to what the AS holds.
func (s *c35sim) pickNotification() (cppki.TRCID, string) {
	r := s.r
	isd := 1
	switch k := r.Choice("nt.isd", 12); {
	case k == 11:
		isd = 2 + r.Choice("nt.isd.which", 2) // possibly an ISD the AS has never heard of
	case k >= 8 && s.chainOf(2, 1) != nil:
		isd = 2
	}
	lb, ls, known := s.modelLatest(isd)
	if !known {
		return cppki.TRCID{ISD: addr.ISD(isd), Base: 1, Serial: scrypto.Version(1 + r.Choice("nt.serial", 3))}, "unknown-isd"
	}
	if r.Choice("nt.base", 6) == 5 {
		ob := lb + 1 + r.Choice("nt.base.up", 2)
		for _, c := range s.chains {
			if c.isd == isd && c.base != lb && r.Choice("nt.base.real", 2) == 0 {
				ob = c.base
			}
		}
		if lb > 1 && r.Choice("nt.base.down", 3) == 2 {
			ob = lb - 1
		}
		return cppki.TRCID{ISD: addr.ISD(isd), Base: scrypto.Version(ob), Serial: scrypto.Version(ob + r.Choice("nt.serial", 4))}, "other-base"
	}
	c := s.chainOf(isd, lb)
	end := c.base + len(c.trcs) - 1
	serial, what := ls+1, "+1"
	switch r.Choice("nt.serial", 7) {
	case 1:
		k := 2 + r.Choice("nt.k", 3)
		serial, what = ls+k, fmt.Sprintf("+%d", k)
	case 2:
		serial, what = ls, "current"
	case 3:
		serial, what = c.base+r.Choice("nt.stale", ls-c.base+1), "stale"
	case 4:
		serial, what = end, "chain-end"
	case 5:
		serial, what = end+1+r.Choice("nt.beyond", 2), "beyond-end"
	}
	if serial > end && what != "beyond-end" {
		what += "(beyond-end)"
	}
	return cppki.TRCID{ISD: addr.ISD(isd), Base: scrypto.Version(lb), Serial: scrypto.Version(serial)}, what
}
