//go:build verif

// simpki: an in-process control-plane PKI generator for the trust simulations.
//
// A TRC is described abstractly (trcSpec: identifiers, validity, votes, certificate slots, and the list of
// signatures with the key that really produced each of them). build() turns a description into real bytes: X.509
// certificates with ECDSA keys, the TRC payload through the repository's cppki.TRC.Encode, one CMS SignerInfo per
// signature through the repository's protocol.SignedData.AddSignerInfo (the call scion-pki's `trcs sign` makes) and
// the final envelope through cppki.SignedTRC.Encode (what `trcs combine` amounts to). Only payloads the repository's
// encoder refuses (deliberately invalid ones) are marshalled by a local copy of the ASN.1 layout from
// doc/cryptography/trc.rst. Key generation and signing draw from crypto/rand, which the core seeds per run.
package trustsim

import (
	"crypto"
	"crypto/ecdsa"
	"crypto/elliptic"
	"crypto/rand"
	"crypto/sha256"
	"crypto/x509"
	"crypto/x509/pkix"
	"encoding/asn1"
	"encoding/hex"
	"fmt"
	"io"
	"math/big"
	"time"

	"github.com/scionproto/scion/pkg/addr"
	"github.com/scionproto/scion/pkg/scrypto"
	"github.com/scionproto/scion/pkg/scrypto/cms/protocol"
	"github.com/scionproto/scion/pkg/scrypto/cppki"
	"verif/sim/core"
)

type class int

const (
	clsSens class = iota
	clsReg
	clsRoot
)

func (c class) String() string { return [...]string{"sensitive", "regular", "root"}[c] }

// certSpec identifies one certificate of the simulated PKI. The distinguished name is a function of (isd, cls, name)
// only, so two specs differing in ver are "the same certificate, changed" in the sense of trc.rst.
type certSpec struct {
	isd   int
	cls   class
	name  int  // holder identity (AS number offset)
	ver   int  // key / certificate generation
	short bool // validity ends one hour after the epoch: cannot cover any TRC validity
}

func (c certSpec) String() string {
	s := fmt.Sprintf("%s:%d.%d", c.cls, c.name, c.ver)
	if c.short {
		s += "!short"
	}
	return s
}

type certEntry struct {
	key  *ecdsa.PrivateKey
	cert *x509.Certificate
}

type pki struct {
	r    *core.Run
	t0   time.Time
	pool map[certSpec]*certEntry // lookups only, never iterated
}

func newPKI(r *core.Run) *pki {
	return &pki{r: r, t0: time.Now(), pool: map[certSpec]*certEntry{}}
}

func infra(format string, args ...any) {
	panic(core.InfraError{Msg: fmt.Sprintf(format, args...)})
}

func asOf(n int) addr.AS { return addr.AS(0xff00_0000_0000 + uint64(0x100+n)) }

// cert returns (generating on first use) the certificate and key for a spec.
func (p *pki) cert(cs certSpec) *certEntry {
	if e, ok := p.pool[cs]; ok {
		return e
	}
	key, err := ecdsa.GenerateKey(elliptic.P256(), rand.Reader)
	if err != nil {
		infra("keygen: %v", err)
	}
	skid, err := cppki.SubjectKeyID(key.Public())
	if err != nil {
		infra("skid: %v", err)
	}
	sn := make([]byte, 16)
	if _, err := io.ReadFull(rand.Reader, sn); err != nil {
		infra("serial: %v", err)
	}
	sn[0] = sn[0]&0x7f | 0x40
	ia := addr.MustIAFrom(addr.ISD(cs.isd), asOf(cs.name))
	notAfter := p.t0.Add(30 * 365 * 24 * time.Hour)
	if cs.short {
		notAfter = p.t0.Add(time.Hour)
	}
	tmpl := x509.Certificate{
		SerialNumber: new(big.Int).SetBytes(sn),
		Subject: pkix.Name{
			CommonName: fmt.Sprintf("%s %s", ia, cs.cls),
			ExtraNames: []pkix.AttributeTypeAndValue{{Type: cppki.OIDNameIA, Value: ia.String()}},
		},
		SubjectKeyId: skid,
		NotBefore:    p.t0.Add(-24 * time.Hour),
		NotAfter:     notAfter,
		ExtKeyUsage:  []x509.ExtKeyUsage{x509.ExtKeyUsageTimeStamping},
	}
	want := cppki.Invalid
	switch cs.cls {
	case clsSens:
		tmpl.UnknownExtKeyUsage = []asn1.ObjectIdentifier{cppki.OIDExtKeyUsageSensitive}
		want = cppki.Sensitive
	case clsReg:
		tmpl.UnknownExtKeyUsage = []asn1.ObjectIdentifier{cppki.OIDExtKeyUsageRegular}
		want = cppki.Regular
	case clsRoot:
		tmpl.UnknownExtKeyUsage = []asn1.ObjectIdentifier{cppki.OIDExtKeyUsageRoot}
		tmpl.KeyUsage = x509.KeyUsageCertSign
		tmpl.BasicConstraintsValid, tmpl.IsCA, tmpl.MaxPathLen = true, true, 1
		want = cppki.Root
	}
	der, err := x509.CreateCertificate(rand.Reader, &tmpl, &tmpl, key.Public(), key)
	if err != nil {
		infra("create certificate %v: %v", cs, err)
	}
	cert, err := x509.ParseCertificate(der)
	if err != nil {
		infra("parse certificate %v: %v", cs, err)
	}
	// self-check of the generator: the repository classifies the certificate as intended
	if ct, err := cppki.ValidateCert(cert); err != nil || ct != want {
		infra("generated certificate %v is not a valid %v certificate: %v (%v)", cs, want, err, ct)
	}
	e := &certEntry{key: key, cert: cert}
	p.pool[cs] = e
	return e
}

// sigSpec is one signature attached to a signed TRC.
type sigSpec struct {
	sid  certSpec // certificate the SignerInfo names (issuer and serial number)
	key  certSpec // certificate whose private key really produced the signature
	over int      // 0: this payload; 1: a different payload (SignerInfo transplanted from another TRC)
}

func (s sigSpec) good() bool { return s.sid == s.key && s.over == 0 }

// trcSpec is the abstract description of a signed TRC.
type trcSpec struct {
	version   int
	isd       int
	base      int
	serial    int
	nb        time.Time
	dur       time.Duration
	grace     time.Duration
	noReset   bool
	votes     []int
	quorum    int
	core      []int
	auth      []int
	desc      string
	certs     []certSpec
	sigs      []sigSpec

	raw     []byte // signed TRC, DER
	pld     []byte // payload, DER
	pldHash string
	note    string // how it was made (log only)
}

func (s *trcSpec) clone() *trcSpec {
	c := *s
	c.votes = append([]int(nil), s.votes...)
	c.core = append([]int(nil), s.core...)
	c.auth = append([]int(nil), s.auth...)
	c.certs = append([]certSpec(nil), s.certs...)
	c.sigs = append([]sigSpec(nil), s.sigs...)
	c.raw, c.pld, c.pldHash = nil, nil, ""
	return &c
}

func (s *trcSpec) id() cppki.TRCID {
	return cppki.TRCID{ISD: addr.ISD(s.isd), Base: scrypto.Version(s.base), Serial: scrypto.Version(s.serial)}
}

func (s *trcSpec) idString() string { return fmt.Sprintf("ISD%d-B%d-S%d", s.isd, s.base, s.serial) }

func (s *trcSpec) indices(cls class) []int {
	var out []int
	for i, c := range s.certs {
		if c.cls == cls {
			out = append(out, i)
		}
	}
	return out
}

func (s *trcSpec) String() string {
	return fmt.Sprintf("%s q=%d reset-forbidden=%v votes=%v core=%v auth=%v certs=%v sigs=%s", s.idString(), s.quorum,
		s.noReset, s.votes, s.core, s.auth, s.certs, sigsString(s.sigs))
}

func sigsString(sigs []sigSpec) string {
	out := "["
	for i, g := range sigs {
		if i > 0 {
			out += " "
		}
		out += g.sid.String()
		if g.key != g.sid {
			out += "<key-of-" + g.key.String() + ">"
		}
		if g.over != 0 {
			out += "<other-payload>"
		}
	}
	return out + "]"
}

// forgeSigner presents one certificate's public key and signs with another certificate's private key.
type forgeSigner struct {
	pub  crypto.PublicKey
	priv *ecdsa.PrivateKey
}

func (f forgeSigner) Public() crypto.PublicKey { return f.pub }
func (f forgeSigner) Sign(rnd io.Reader, digest []byte, opts crypto.SignerOpts) ([]byte, error) {
	return f.priv.Sign(rnd, digest, opts)
}

func (p *pki) payloadStruct(s *trcSpec) cppki.TRC {
	t := cppki.TRC{
		Version:      s.version,
		ID:           s.id(),
		Validity:     cppki.Validity{NotBefore: s.nb, NotAfter: s.nb.Add(s.dur)},
		GracePeriod:  s.grace,
		NoTrustReset: s.noReset,
		Votes:        append([]int{}, s.votes...),
		Quorum:       s.quorum,
		Description:  s.desc,
	}
	for _, a := range s.core {
		t.CoreASes = append(t.CoreASes, asOf(a))
	}
	for _, a := range s.auth {
		t.AuthoritativeASes = append(t.AuthoritativeASes, asOf(a))
	}
	for _, c := range s.certs {
		t.Certificates = append(t.Certificates, p.cert(c).cert)
	}
	return t
}

// Local copy of the payload layout (doc/cryptography/trc.rst), used only for payloads that the repository's
// TRC.Encode refuses to produce.
type rawID struct{ ISD, Serial, Base int64 }
type rawValidity struct {
	NotBefore time.Time `asn1:"generalized"`
	NotAfter  time.Time `asn1:"generalized"`
}
type rawPayload struct {
	Version           int64
	ID                rawID
	Validity          rawValidity
	GracePeriod       int64
	NoTrustReset      bool
	Votes             []int64
	Quorum            int64
	CoreASes          []string
	AuthoritativeASes []string
	Description       string `asn1:"utf8"`
	Certificates      []asn1.RawValue
}

func rawEncode(t *cppki.TRC) []byte {
	a := rawPayload{
		Version:      int64(t.Version - 1),
		ID:           rawID{int64(t.ID.ISD), int64(t.ID.Serial), int64(t.ID.Base)},
		Validity:     rawValidity{t.Validity.NotBefore.UTC().Truncate(time.Second), t.Validity.NotAfter.UTC().Truncate(time.Second)},
		GracePeriod:  int64(t.GracePeriod / time.Second),
		NoTrustReset: t.NoTrustReset,
		Votes:        []int64{},
		Quorum:       int64(t.Quorum),
		Description:  t.Description,
		CoreASes:     []string{},
		AuthoritativeASes: []string{},
	}
	for _, v := range t.Votes {
		a.Votes = append(a.Votes, int64(v))
	}
	for _, as := range t.CoreASes {
		a.CoreASes = append(a.CoreASes, as.String())
	}
	for _, as := range t.AuthoritativeASes {
		a.AuthoritativeASes = append(a.AuthoritativeASes, as.String())
	}
	for _, c := range t.Certificates {
		var rv asn1.RawValue
		if _, err := asn1.Unmarshal(c.Raw, &rv); err != nil {
			infra("raw certificate: %v", err)
		}
		a.Certificates = append(a.Certificates, rv)
	}
	b, err := asn1.Marshal(a)
	if err != nil {
		infra("raw payload marshal: %v", err)
	}
	return b
}

// signerInfo produces one CMS SignerInfo over pld the way `scion-pki trcs sign` does.
func (p *pki) signerInfo(pld []byte, g sigSpec) protocol.SignerInfo {
	eci, err := protocol.NewDataEncapsulatedContentInfo(pld)
	if err != nil {
		infra("eci: %v", err)
	}
	sd, err := protocol.NewSignedData(eci)
	if err != nil {
		infra("signed data: %v", err)
	}
	sid := p.cert(g.sid)
	signer := forgeSigner{pub: sid.cert.PublicKey, priv: p.cert(g.key).key}
	if err := sd.AddSignerInfo([]*x509.Certificate{sid.cert}, signer); err != nil {
		infra("add signer info: %v", err)
	}
	return sd.SignerInfos[0]
}

// build produces the signed TRC bytes for a description (idempotent).
func (p *pki) build(s *trcSpec) []byte {
	if s.raw != nil {
		return s.raw
	}
	t := p.payloadStruct(s)
	pld, err := t.Encode()
	validPayload := err == nil
	if !validPayload {
		pld = rawEncode(&t)
	}
	var other []byte
	infos := []protocol.SignerInfo{}
	for _, g := range s.sigs {
		over := pld
		if g.over != 0 {
			if other == nil {
				t2 := t
				t2.Description = t.Description + " (another payload)"
				if other, err = t2.Encode(); err != nil {
					other = rawEncode(&t2)
				}
			}
			over = other
		}
		infos = append(infos, p.signerInfo(over, g))
	}
	var raw []byte
	if validPayload {
		signed := cppki.SignedTRC{TRC: t, SignerInfos: infos}
		if raw, err = signed.Encode(); err != nil {
			infra("encoding signed TRC: %v", err)
		}
	} else {
		eci, err := protocol.NewDataEncapsulatedContentInfo(pld)
		if err != nil {
			infra("eci: %v", err)
		}
		sd := protocol.SignedData{Version: 1, EncapContentInfo: eci, SignerInfos: infos}
		for _, info := range infos {
			sd.AddDigestAlgorithm(info.DigestAlgorithm)
		}
		if raw, err = sd.ContentInfoDER(); err != nil {
			infra("encoding signed data: %v", err)
		}
	}
	h := sha256.Sum256(pld)
	s.raw, s.pld, s.pldHash = raw, pld, hex.EncodeToString(h[:8])
	return raw
}
