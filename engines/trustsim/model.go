//go:build verif

// Reference judge for TRC successions, written from the statement of C32 and doc/cryptography/trc.rst (sections
// "TRC Payload", "TRC Update", "Regular TRC Update", "Sensitive TRC Update"). It works on the abstract descriptions
// only and never calls repository code.
package trustsim

import "fmt"

// payloadValid checks the payload rules of trc.rst that need no predecessor.
func payloadValid(s *trcSpec) (bool, string) {
	if s.version != 1 {
		return false, "payload:version"
	}
	if s.isd <= 0 || s.base <= 0 || s.serial < s.base {
		return false, "payload:id"
	}
	if s.dur <= 0 {
		return false, "payload:validity"
	}
	if s.serial == s.base {
		if s.grace != 0 {
			return false, "payload:grace-on-base"
		}
		if len(s.votes) != 0 {
			return false, "payload:votes-on-base"
		}
	}
	if s.quorum < 1 || s.quorum > 255 {
		return false, "payload:quorum-range"
	}
	for _, l := range [][]int{s.core, s.auth} {
		if len(l) == 0 {
			return false, "payload:empty-as-list"
		}
		seen := map[int]bool{}
		for _, a := range l {
			if seen[a] {
				return false, "payload:duplicate-as"
			}
			seen[a] = true
		}
	}
	type dn struct {
		cls  class
		name int
	}
	seenDN := map[dn]bool{}
	n := map[class]int{}
	for _, c := range s.certs {
		n[c.cls]++
		if c.isd != s.isd {
			return false, "payload:cert-other-isd"
		}
		if c.short {
			return false, "payload:cert-validity"
		}
		if seenDN[dn{c.cls, c.name}] {
			return false, "payload:duplicate-subject"
		}
		seenDN[dn{c.cls, c.name}] = true
	}
	if n[clsSens] < s.quorum || n[clsReg] < s.quorum {
		return false, "payload:quorum-exceeds-voters"
	}
	return true, ""
}

func hasGoodSig(s *trcSpec, c certSpec) bool {
	ok := false
	for _, g := range s.sigs {
		if g.sid != c {
			continue
		}
		if !g.good() {
			return false // a signature in that certificate's name that does not verify
		}
		ok = true
	}
	return ok
}

func inPred(pred *trcSpec, c certSpec) bool {
	for _, pc := range pred.certs {
		if pc == c {
			return true
		}
	}
	return false
}

// judge tells whether s is acceptable as the successor of pred (pred == nil: as a base TRC).
func judge(pred, s *trcSpec) (bool, string) {
	if ok, why := payloadValid(s); !ok {
		return false, why
	}
	if s.serial == s.base {
		if pred != nil {
			return false, "base:has-predecessor"
		}
		for _, c := range s.certs {
			if c.cls != clsRoot && !hasGoodSig(s, c) {
				return false, "base:not-signed-by-all"
			}
		}
		return true, "base"
	}
	if pred == nil {
		return false, "update:no-predecessor"
	}
	switch {
	case s.isd != pred.isd:
		return false, "update:isd"
	case s.base != pred.base:
		return false, "update:base"
	case s.serial != pred.serial+1:
		return false, "update:serial"
	case s.noReset != pred.noReset:
		return false, "update:trust-reset-flag"
	}
	// votes: distinct indices of voting certificates of the predecessor, all of one class
	seen := map[int]bool{}
	nSens, nReg := 0, 0
	for _, v := range s.votes {
		if v < 0 || v >= len(pred.certs) {
			return false, "votes:out-of-range"
		}
		if seen[v] {
			return false, "votes:duplicate"
		}
		seen[v] = true
		switch pred.certs[v].cls {
		case clsSens:
			nSens++
		case clsReg:
			nReg++
		default:
			return false, "votes:by-root"
		}
	}
	if nSens > 0 && nReg > 0 {
		return false, "votes:mixed-classes"
	}
	if len(s.votes) < pred.quorum {
		return false, "votes:below-quorum"
	}
	for _, v := range s.votes {
		if !hasGoodSig(s, pred.certs[v]) {
			return false, "votes:vote-without-signature"
		}
	}
	// every newly introduced voting certificate has signed
	for _, c := range s.certs {
		if c.cls != clsRoot && !inPred(pred, c) && !hasGoodSig(s, c) {
			return false, "new-voter:no-signature"
		}
	}
	if nSens > 0 {
		return true, "sensitive"
	}
	// regular update
	if s.quorum != pred.quorum {
		return false, "regular:quorum-changed"
	}
	if fmt.Sprint(s.core) != fmt.Sprint(pred.core) {
		return false, "regular:core-changed"
	}
	if fmt.Sprint(s.auth) != fmt.Sprint(pred.auth) {
		return false, "regular:authoritative-changed"
	}
	count := func(t *trcSpec, cls class) int { return len(t.indices(cls)) }
	for _, c := range s.certs {
		if c.cls == clsSens && !inPred(pred, c) {
			return false, "regular:sensitive-cert-changed"
		}
	}
	if count(s, clsSens) != count(pred, clsSens) {
		return false, "regular:sensitive-cert-changed"
	}
	findName := func(t *trcSpec, cls class, name int) int {
		for i, c := range t.certs {
			if c.cls == cls && c.name == name {
				return i
			}
		}
		return -1
	}
	for _, cls := range []class{clsRoot, clsReg} {
		if count(s, cls) != count(pred, cls) {
			return false, fmt.Sprintf("regular:%s-added-or-removed", cls)
		}
		for _, c := range s.certs {
			if c.cls == cls && findName(pred, cls, c.name) < 0 {
				return false, fmt.Sprintf("regular:%s-added-or-removed", cls)
			}
		}
	}
	for i, pc := range pred.certs {
		j := findName(s, pc.cls, pc.name)
		if j < 0 || s.certs[j] == pc {
			continue
		}
		switch pc.cls {
		case clsReg:
			if !seen[i] {
				return false, "regular:replaced-voter-did-not-vote"
			}
		case clsRoot:
			if !hasGoodSig(s, pc) {
				return false, "regular:replaced-root-did-not-acknowledge"
			}
		}
	}
	return true, "regular"
}
