//go:build verif

// C32: TRC updates are accepted only with the required votes and signatures.
//
// One run = one ISD's governance history on the simulated clock: a base TRC, then 1-5 honest updates (regular and
// sensitive, with rotations, added/removed members and roots, quorum changes) distributed to 1-2 ASes that may lag
// behind. In the faulty campaign the adversary additionally distributes successors that break exactly one rule.
// Two observation points: cppki.DecodeSignedTRC + SignedTRC.Verify(predecessor) directly, and an AS's real trust
// store through FetchingProvider.NotifyTRC with the simulator as fetch transport. Oracle: the reference judge in
// model.go (written from the statement and trc.rst) applied to the abstract description: accepted <=> valid with
// respect to the TRC the AS currently holds.
package trustsim

import (
	"fmt"
	"testing"
	"time"

	"github.com/scionproto/scion/pkg/scrypto/cppki"
	"verif/sim/core"
)

// directAccepts is the first observation point: parse the bytes and verify them against the predecessor.
func directAccepts(predRaw, raw []byte) (bool, string) {
	signed, err := cppki.DecodeSignedTRC(raw)
	if err != nil {
		return false, "decode"
	}
	var pred *cppki.TRC
	if predRaw != nil {
		ps, err := cppki.DecodeSignedTRC(predRaw)
		if err != nil {
			infra("honest predecessor does not parse: %v", err)
		}
		pred = &ps.TRC
	}
	if err := signed.Verify(pred); err != nil {
		return false, "verify"
	}
	return true, "accepted"
}

type c32sim struct {
	r     *core.Run
	p     *pki
	g     *gov
	chain []*trcSpec
	nodes []*node
	at    []int // index into chain of the latest TRC each node holds
}

// label applies the reference judge and cross-checks the generator's intention (harness self-check).
func (s *c32sim) label(pred, t *trcSpec, intendValid bool) (bool, string) {
	valid, why := judge(pred, t)
	if valid != intendValid {
		infra("generator and reference judge disagree on %s (%s): judge says valid=%v (%s)\npred: %v\nthis: %v",
			t.idString(), t.note, valid, why, pred, t)
	}
	return valid, why
}

func (s *c32sim) observeDirect(pred, t *trcSpec, valid bool, why string) {
	r := s.r
	var predRaw []byte
	if pred != nil {
		predRaw = s.p.build(pred)
	}
	acc, stage := directAccepts(predRaw, s.p.build(t))
	r.Logf("direct %s as successor of %s [%s]: label valid=%v (%s) -> accepted=%v (%s)", t.idString(), idOrNone(pred),
		t.note, valid, why, acc, stage)
	r.Covered(fmt.Sprintf("direct/%s/%s/%s", noteClass(t.note), why, stage))
	switch {
	case acc && !valid:
		r.Fail("c32-invalid-accepted", "direct:"+t.note, "SignedTRC.Verify accepted %s (%s) as successor of %s although %s\npred: %v\nthis: %v",
			t.idString(), t.note, idOrNone(pred), why, pred, t)
	case !acc && valid:
		r.Fail("c32-valid-rejected", "direct:"+why, "valid %s TRC %s (%s) rejected at %s as successor of %s\npred: %v\nthis: %v", why, t.idString(), t.note,
			stage, idOrNone(pred), pred, t)
	}
}

// noteClass shortens the notes of randomly mutated successors for the coverage measure.
func noteClass(note string) string {
	if len(note) > 8 && note[:8] == "mutated." {
		return "mutated"
	}
	return note
}

func idOrNone(t *trcSpec) string {
	if t == nil {
		return "none"
	}
	return t.idString()
}

// serveHonest makes node i's fetcher answer from the honest chain, with one optional override.
func (s *c32sim) serve(i int, override *trcSpec, overrideID cppki.TRCID) {
	s.nodes[i].f.answer = func(id cppki.TRCID) ([]byte, string, bool) {
		if override != nil && id == overrideID {
			return s.p.build(override), "forged", false
		}
		for _, t := range s.chain {
			if t.id() == id {
				return s.p.build(t), "honest", true
			}
		}
		return nil, "missing", false
	}
}

func storedString(l []storedTRC) string {
	out := ""
	for _, t := range l {
		out += fmt.Sprintf(" %s:%s", t.key(), t.pldHash)
	}
	return out
}

// catchUp notifies node i of chain[upto] with an honest transport; the store must arrive there.
func (s *c32sim) catchUp(i, upto int) {
	r := s.r
	if r.Failed() || s.at[i] >= upto {
		return
	}
	s.serve(i, nil, cppki.TRCID{})
	n := s.nodes[i]
	err, _ := n.notify(s.chain[upto].id())
	got := n.stored()
	r.Logf("%s notified of %s while holding %s: err=%v fetches=%d store:%s", n.name, s.chain[upto].idString(),
		s.chain[s.at[i]].idString(), err != nil, len(n.f.calls), storedString(got))
	if upto-s.at[i] > 1 {
		r.Probe("multi-step-catch-up")
	}
	want := ""
	for _, t := range s.chain[:upto+1] {
		want += fmt.Sprintf(" %s:%s", t.idString(), t.pldHash)
	}
	if err != nil || storedString(got) != want {
		k := min(max(len(got), s.at[i]+1), upto) // first honest TRC that did not make it into the store
		which := s.chain[k]
		_, why := judge(s.chain[k-1], which)
		r.Fail("c32-valid-rejected", "store:"+why, "%s holding %s was notified of %s over an honest transport: err=%v, store%s, expected%s\nfirst missing: %v",
			n.name, s.chain[s.at[i]].idString(), s.chain[upto].idString(), err, storedString(got), want, which)
		return
	}
	s.at[i] = upto
}

// offerForged lets node i (holding chain[t]) learn of "serial t+1" while the transport serves the forged successor.
func (s *c32sim) offerForged(i, t int, f *trcSpec, why string) {
	r := s.r
	s.catchUp(i, t)
	if r.Failed() {
		return
	}
	n := s.nodes[i]
	pred := s.chain[t]
	next := pred.id()
	next.Serial++
	before := storedString(n.stored())
	s.serve(i, f, next)
	err, _ := n.notify(next)
	after := storedString(n.stored())
	r.Logf("%s holding %s notified of %s, transport serves %s [%s]: err=%v fetches=%d store:%s", n.name, pred.idString(),
		next, f.idString(), f.note, err != nil, len(n.f.calls), after)
	r.Covered("store/" + noteClass(f.note))
	if after != before {
		r.Fail("c32-invalid-accepted", "store:"+f.note, "%s stored %s (%s) as successor of %s although %s; store before%s after%s\npred: %v\nthis: %v",
			n.name, f.idString(), f.note, pred.idString(), why, before, after, pred, f)
		return
	}
	if err == nil {
		r.Fail("c32-invalid-accepted", "store-noerror:"+f.note, "%s: NotifyTRC reported success although the only available successor of %s was %s (%s)",
			n.name, pred.idString(), f.note, why)
	}
}

func runC32(r *core.Run, faulty bool) {
	core.Bubble(r, func(t *testing.T) {
		start := time.Now()
		time.Sleep(30 * time.Minute)
		p := newPKI(r)
		g := newGov(r, p)
		s := &c32sim{r: r, p: p, g: g}
		isd := 1 + r.Choice("isd", 3)
		base := 1 + r.Choice("base", 3)
		nv := r.Range("voters", 2, 4)
		nr := r.Range("roots", 1, min(2, nv))
		quorum := r.Range("quorum", 1, nv)
		steps := r.Range("steps", 1, 5)
		nAS := r.Range("ases", 1, 2)
		b := g.genBase(isd, base, time.Now(), nv, nr, quorum, r.Choice("noreset", 2) == 1)
		r.Logf("governance: isd=%d base=%d voters=%d roots=%d quorum=%d steps=%d ases=%d", isd, base, nv, nr, quorum, steps, nAS)
		valid, why := s.label(nil, b, true)
		s.observeDirect(nil, b, valid, why)
		if faulty && !r.Failed() && r.FaultChance("forged.base", 1, 3) {
			rule := baseRules[r.Choice("forge.baserule", len(baseRules))]
			fb := g.forgeBase(b, rule)
			v, w := s.label(nil, fb, false)
			r.Fault("forged." + rule)
			s.observeDirect(nil, fb, v, w)
		}
		s.chain = []*trcSpec{b}
		defer func() {
			for _, n := range s.nodes {
				n.stop()
			}
		}()
		for i := 0; i < nAS; i++ {
			n := newNode(r, fmt.Sprintf("as%d", i+1), "")
			s.nodes = append(s.nodes, n)
			s.at = append(s.at, 0)
			n.insertAnchor(p.build(b))
		}
		for step := 0; step < steps && !r.Failed(); step++ {
			time.Sleep(time.Duration(1+r.Choice("gap.days", 90)) * day)
			pred := s.chain[step]
			now := time.Now()
			if faulty {
				nf := 0
				for nf < 3 && r.FaultChance("forged", 2, 3) {
					nf++
					rule := forgeRules[r.Choice("forge.rule", len(forgeRules))]
					f := g.forge(pred, rule, now)
					if f == nil {
						r.Logf("forge rule %s not applicable to %s", rule, pred.idString())
						continue
					}
					v, w := s.label(pred, f, false)
					r.Fault("forged." + rule)
					s.observeDirect(pred, f, v, w)
					if r.Failed() {
						return
					}
					s.offerForged(r.Choice("forge.victim", nAS), step, f, w)
					if r.Failed() {
						return
					}
				}
			}
			if faulty && r.FaultChance("mutated", 1, 2) {
				// an honest successor with random edits; only the reference judge knows whether it is still valid
				m := g.mutate(pred, now)
				v, w := judge(pred, m)
				r.Fault(map[bool]string{true: "mutated.still-valid", false: "mutated.invalid"}[v])
				s.observeDirect(pred, m, v, w)
				if r.Failed() {
					return
				}
				if !v {
					s.offerForged(r.Choice("forge.victim", nAS), step, m, w)
					if r.Failed() {
						return
					}
				}
			}
			next := g.genUpdate(pred, now, profile{sensitive: r.Choice("upd.type", 2) == 1})
			v, w := s.label(pred, next, true)
			s.observeDirect(pred, next, v, w)
			if r.Failed() {
				return
			}
			s.chain = append(s.chain, next)
			if faulty && step >= 1 && r.FaultChance("forged.pred.stale", 1, 4) {
				// the honest successor of chain[step] offered to a party that holds chain[step-1]
				older := s.chain[step-1]
				v2, w2 := judge(older, next)
				if v2 {
					infra("judge accepts a serial gap")
				}
				nn := next.clone()
				nn.sigs = next.sigs
				nn.raw, nn.pld, nn.pldHash = next.raw, next.pld, next.pldHash
				nn.note = "forged.pred.stale"
				s.observeDirect(older, nn, v2, w2)
			}
			for i := 0; i < nAS; i++ {
				if r.Choice("notify.now", 3) != 0 {
					s.catchUp(i, step+1)
				} else {
					r.Probe("as-lags")
				}
			}
		}
		for i := 0; i < nAS; i++ {
			s.catchUp(i, len(s.chain)-1)
		}
		r.SimNS = int64(time.Since(start))
		r.Nontrivial = len(s.chain) > 1
		r.Sample = map[string]any{"isd": isd, "base": base, "voters": nv, "quorum": quorum, "updates": len(s.chain) - 1}
	})
}
