//go:build verif

// Package trustsim: an ISD's control-plane PKI over simulated months. Real cppki TRC validation and update rules,
// real trust.FetchingProvider / LoadTRCs on the real sqlite trust database; the simulator plays the ISD governance
// (honest and adversarial), the fetch transport, the disk and the clock. Properties C32 and C35.
package trustsim

import (
	"testing"

	"verif/sim/core"
)

func TestWorker(t *testing.T) {
	core.Main(t, core.Engine{Name: "trustsim", Campaigns: map[string]core.RunFunc{
		"C32/honest": func(r *core.Run) { runC32(r, false) },
		"C32/forged": func(r *core.Run) { runC32(r, true) },
		"C35/clean":  func(r *core.Run) { runC35(r, false) },
		"C35/faulty": func(r *core.Run) { runC35(r, true) },
	}})
}
