//go:build verif

package storesim

import (
	"os"
	"testing"

	"github.com/scionproto/scion/private/storage/db"
)

func TestProbePragma(t *testing.T) {
	d, _ := os.MkdirTemp("", "probe")
	defer os.RemoveAll(d)
	for _, mem := range []bool{false, true} {
		p := d + "/x.db"
		if mem {
			p = "file:probe-mem"
		}
		s, err := db.NewSqlite(p, &db.SqliteConfig{InMemory: mem})
		if err != nil {
			t.Fatal(err)
		}
		for _, q := range []string{"PRAGMA foreign_keys", "PRAGMA journal_mode", "PRAGMA busy_timeout", "PRAGMA synchronous"} {
			var v string
			if err := s.Full.QueryRow(q).Scan(&v); err != nil {
				t.Log(q, "err", err)
			}
			var v2 string
			s.ReadOnly.QueryRow(q).Scan(&v2)
			t.Logf("mem=%v %s -> write=%s read=%s", mem, q, v, v2)
		}
		s.Close()
	}
}
