//go:build verif

package storesim

/*
#include <malloc.h>

// SQLite allocates and frees a page-cache slab for every transient b-tree of the path store's
// DISTINCT / group_concat query; with glibc's default thresholds each of them is an mmap/munmap
// pair. Keeping freed memory in the heap makes the simulated runs about twice as cheap and changes
// nothing that is observable to the code under test.
static void storesim_tune_malloc(void) {
	mallopt(M_MMAP_THRESHOLD, 256 << 20);
	mallopt(M_TRIM_THRESHOLD, 256 << 20);
	mallopt(M_TOP_PAD, 64 << 20);
}
*/
import "C"

func init() { C.storesim_tune_malloc() }
