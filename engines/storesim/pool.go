//go:build verif

// Package storesim: the sqlite-backed beacon and path stores, the in-memory revocation cache and the
// hidden-path registry/server, each driven by seed-drawn operation histories (with restart / kill /
// cancelled-context / clock faults) and compared with small reference models written from the
// property statements C27, C31 and C45.
package storesim

import (
	"context"
	"crypto"
	"crypto/ecdsa"
	"crypto/elliptic"
	"crypto/rand"
	"crypto/sha256"
	"encoding/hex"
	"fmt"
	"io"
	"sort"
	"strings"
	"time"

	"github.com/scionproto/scion/pkg/addr"
	cryptopb "github.com/scionproto/scion/pkg/proto/crypto"
	"github.com/scionproto/scion/pkg/scrypto/signed"
	seg "github.com/scionproto/scion/pkg/segment"
	"github.com/scionproto/scion/pkg/slayers/path"
	"verif/sim/core"
)

// simEpoch is where the synctest clock starts.
var simEpoch = time.Date(2000, 1, 1, 0, 0, 0, 0, time.UTC)

// hopUnit is the unit of a hop field's relative expiry (SCION header specification: 24h / 256).
const hopUnit = 24 * time.Hour / 256

var iaPool = []addr.IA{
	addr.MustIAFrom(1, 0xff0000000110),
	addr.MustIAFrom(1, 0xff0000000111),
	addr.MustIAFrom(1, 0xff0000000112),
	addr.MustIAFrom(2, 0xff0000000210),
	addr.MustIAFrom(2, 0xff0000000211),
}

// localIA is the AS whose stores are simulated (beacons name it as their next AS).
var localIA = addr.MustIAFrom(1, 0xff0000000199)

// rfc6979Key signs deterministically (rand == nil).
type rfc6979Key struct{ k *ecdsa.PrivateKey }

func (k rfc6979Key) Public() crypto.PublicKey { return k.k.Public() }
func (k rfc6979Key) Sign(_ io.Reader, digest []byte, opts crypto.SignerOpts) ([]byte, error) {
	return k.k.Sign(nil, digest, opts)
}

// tsSigner signs AS entries through the real signed.Sign with a chosen signing time.
type tsSigner struct {
	key crypto.Signer
	ts  time.Time
	ia  addr.IA
}

func (s tsSigner) Sign(_ context.Context, msg []byte, ad ...[]byte) (*cryptopb.SignedMessage, error) {
	l := 0
	for _, d := range ad {
		l += len(d)
	}
	hdr := signed.Header{SignatureAlgorithm: signed.ECDSAWithSHA256, Timestamp: s.ts, AssociatedDataLength: l,
		VerificationKeyID: []byte(s.ia.String())}
	return signed.Sign(hdr, msg, s.key, ad...)
}

type ifKey struct {
	ia addr.IA
	id uint16
}

type ent struct {
	ia     addr.IA
	in, eg uint16
}

// ver is one version of a segment: same hop interfaces, its own timestamps, expiry and peer entries.
type ver struct {
	shape  *shape
	idx    int
	seg    *seg.PathSegment
	infoTS time.Time // segment timestamp (version key of the beacon store)
	signTS time.Time // signing time of the last AS entry (version key of the path store)
	expiry time.Time // infoTS + the longest hop-field lifetime
	key    string    // content identity: hash over the info field and all signed AS entries
	ifaces []ifKey   // all non-zero interfaces named by hop fields and peer hop fields
}

// shape is a segment identifier: the sequence of (ISD-AS, ingress, egress).
type shape struct {
	idx   int
	id    []byte
	idHex string // upper-case hex
	ents  []ent
	inIf  uint16 // interface a beacon of this shape arrives on
	vers  []*ver
}

func (s *shape) first() addr.IA { return s.ents[0].ia }
func (s *shape) last() addr.IA  { return s.ents[len(s.ents)-1].ia }

type pool struct {
	shapes []*shape
	byKey  map[string]*ver
	key    crypto.Signer
	pub    crypto.PublicKey
	beacon bool // segments are beacons still travelling: the last entry names the next AS
}

// contentKey identifies a segment by everything that is signed (independent of ID()/FullID()).
func contentKey(ps *seg.PathSegment) string {
	h := sha256.New()
	h.Write(ps.Info.Raw)
	for _, e := range ps.ASEntries {
		h.Write(e.Signed.HeaderAndBody)
		h.Write(e.Signed.Signature)
	}
	return hex.EncodeToString(h.Sum(nil)[:8])
}

// newPool draws nShapes segment identifiers over the small IA / interface pools and up to maxVers
// versions of each. beaconLike leaves the last egress interface set (a beacon that is still travelling).
func newPool(r *core.Run, nShapes, maxVers int, beaconLike bool) *pool {
	k, err := ecdsa.GenerateKey(elliptic.P256(), rand.Reader)
	if err != nil {
		panic(core.InfraError{Msg: "keygen: " + err.Error()})
	}
	p := &pool{byKey: map[string]*ver{}, key: rfc6979Key{k}, pub: k.Public(), beacon: beaconLike}
	seen := map[string]bool{}
	for si := 0; si < nShapes; si++ {
		n := 1 + (si+r.Choice("shape.len", 4))%4
		start := (si + r.Choice("shape.start", len(iaPool))) % len(iaPool)
		stepIA := 1 + r.Choice("shape.step", 2)
		sh := &shape{idx: len(p.shapes)}
		for i := 0; i < n; i++ {
			e := ent{ia: iaPool[(start+i*stepIA)%len(iaPool)]}
			if i > 0 {
				e.in = uint16(1 + (si+r.Choice("shape.in", 3))%3)
			}
			if i < n-1 || beaconLike {
				e.eg = uint16(1 + (si/2+r.Choice("shape.eg", 3))%3)
			}
			sh.ents = append(sh.ents, e)
		}
		// distinct ASes along the segment
		dup := false
		for i := range sh.ents {
			for j := 0; j < i; j++ {
				if sh.ents[i].ia == sh.ents[j].ia {
					dup = true
				}
			}
		}
		if dup {
			continue
		}
		sh.inIf = uint16(1 + (si+r.Choice("shape.inif", 3))%3)
		nv := 1 + r.Choice("shape.nvers", maxVers)
		for vi := 0; vi < nv; vi++ {
			v := p.buildVer(r, sh, vi)
			if vi == 0 {
				sh.id = v.seg.ID()
				sh.idHex = strings.ToUpper(hex.EncodeToString(sh.id))
				if seen[sh.idHex] {
					break
				}
				seen[sh.idHex] = true
			}
			if _, ok := p.byKey[v.key]; ok {
				continue
			}
			v.idx = len(sh.vers)
			sh.vers = append(sh.vers, v)
			p.byKey[v.key] = v
		}
		if len(sh.vers) > 0 {
			p.shapes = append(p.shapes, sh)
		}
	}
	if len(p.shapes) == 0 {
		panic(core.InfraError{Msg: "empty segment pool"})
	}
	return p
}

var expChoices = []uint8{0, 3, 15, 63}

func (p *pool) buildVer(r *core.Run, sh *shape, vi int) *ver {
	// info timestamps: whole seconds around the start of the simulated clock, in steps that make
	// versions both close together and hours apart
	steps := []time.Duration{time.Second, time.Minute, 20 * time.Minute}
	infoTS := simEpoch.Add(time.Duration(r.Choice("ver.info", 5)) * steps[r.Choice("ver.infostep", len(steps))])
	// signing time of the last entry: independent of the info timestamp, sub-second differences occur
	signTS := simEpoch.Add(time.Duration(r.Choice("ver.sign", 7)) * 500 * time.Millisecond)
	ps, err := seg.CreateSegment(infoTS, uint16(1+sh.idx))
	if err != nil {
		panic(core.InfraError{Msg: "create segment: " + err.Error()})
	}
	v := &ver{shape: sh, seg: ps, infoTS: infoTS, signTS: signTS}
	var maxLife time.Duration
	note := func(ia addr.IA, id uint16) {
		if id == 0 {
			return
		}
		for _, k := range v.ifaces {
			if k.ia == ia && k.id == id {
				return
			}
		}
		v.ifaces = append(v.ifaces, ifKey{ia, id})
	}
	peerAt := -1
	if len(sh.ents) > 1 && r.Chance("ver.peer", 1, 3) {
		peerAt = 1 + r.Choice("ver.peerat", len(sh.ents)-1)
	}
	for i, e := range sh.ents {
		exp := expChoices[r.Choice("ver.exp", len(expChoices))]
		if life := time.Duration(int(exp)+1) * hopUnit; life > maxLife {
			maxLife = life
		}
		ase := seg.ASEntry{Local: e.ia, MTU: 1400, HopEntry: seg.HopEntry{IngressMTU: 1400,
			HopField: seg.HopField{ConsIngress: e.in, ConsEgress: e.eg, ExpTime: exp,
				MAC: [path.MacLen]byte{1, 2, 3, byte(i), byte(vi), byte(sh.idx)}}}}
		if i+1 < len(sh.ents) {
			ase.Next = sh.ents[i+1].ia
		} else if p.beacon {
			ase.Next = localIA
		}
		note(e.ia, e.in)
		note(e.ia, e.eg)
		if i == peerAt {
			pexp := expChoices[r.Choice("ver.pexp", len(expChoices))]
			if life := time.Duration(int(pexp)+1) * hopUnit; life > maxLife {
				maxLife = life
			}
			pin := uint16(4 + r.Choice("ver.pin", 2))
			ase.PeerEntries = []seg.PeerEntry{{Peer: iaPool[(i+3)%len(iaPool)], PeerInterface: 7, PeerMTU: 1400,
				HopField: seg.HopField{ConsIngress: pin, ConsEgress: e.eg, ExpTime: pexp,
					MAC: [path.MacLen]byte{9, 9, 9, byte(i), byte(vi), byte(sh.idx)}}}}
			note(e.ia, pin)
		}
		ts := infoTS.Add(time.Duration(i) * time.Millisecond)
		if i == len(sh.ents)-1 {
			ts = signTS
		}
		if err := ps.AddASEntry(context.Background(), ase, tsSigner{p.key, ts, e.ia}); err != nil {
			panic(core.InfraError{Msg: "add AS entry: " + err.Error()})
		}
	}
	v.expiry = infoTS.Add(maxLife)
	v.key = contentKey(ps)
	return v
}

func (v *ver) String() string {
	return fmt.Sprintf("s%dv%d", v.shape.idx, v.idx)
}

func (v *ver) hasIface(ia addr.IA, id uint16) bool {
	for _, k := range v.ifaces {
		if k.ia == ia && k.id == id {
			return true
		}
	}
	return false
}

// pickVer draws a version of a shape.
func (p *pool) pickVer(r *core.Run) *ver {
	sh := p.shapes[r.Choice("pick.shape", len(p.shapes))]
	return sh.vers[r.Choice("pick.ver", len(sh.vers))]
}

// iaMatch: an ISD-AS filter entry with AS 0 (or ISD 0) is a wildcard for that part.
func iaMatch(f, ia addr.IA) bool {
	return (f.ISD() == 0 || f.ISD() == ia.ISD()) && (f.AS() == 0 || f.AS() == ia.AS())
}

func sortedStrings(m map[string]bool) []string {
	out := make([]string, 0, len(m))
	for k := range m {
		out = append(out, k)
	}
	sort.Strings(out)
	return out
}

// diffSets compares what a query returned with what must / may be returned.
// must: entries that have to be there; may: entries on a time boundary (don't-care).
func diffSets(got []string, must, may map[string]bool) string {
	seen := map[string]bool{}
	for _, g := range got {
		if seen[g] {
			return "duplicate " + g
		}
		seen[g] = true
		if !must[g] && !may[g] {
			return "unexpected " + g
		}
	}
	for _, m := range sortedStrings(must) {
		if !seen[m] {
			return "missing " + m
		}
	}
	return ""
}

func setOf(xs ...string) map[string]bool {
	m := map[string]bool{}
	for _, x := range xs {
		m[x] = true
	}
	return m
}

func absDur(d time.Duration) time.Duration {
	if d < 0 {
		return -d
	}
	return d
}
