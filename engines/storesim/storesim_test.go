//go:build verif

package storesim

import (
	"testing"

	"verif/sim/core"
)

func TestWorker(t *testing.T) {
	core.Main(t, core.Engine{Name: "storesim", Campaigns: map[string]core.RunFunc{
		"C27/beacon-clean":  runBeaconClean,
		"C27/beacon-faulty": runBeaconFaulty,
		"C27/path-clean":    runPathClean,
		"C27/path-faulty":   runPathFaulty,
		"C31/history":       runRevCache,
		"C45/access":        runHidden,
	}})
}
