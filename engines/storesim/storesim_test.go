//go:build verif

package storesim

import (
	"os"
	"runtime"
	"testing"

	"verif/sim/core"
)

func TestWorker(t *testing.T) {
	// one sequential simulation per process; the runner shards over processes
	if os.Getenv("GOMAXPROCS") == "" {
		runtime.GOMAXPROCS(2)
	}
	core.Main(t, core.Engine{Name: "storesim", Campaigns: map[string]core.RunFunc{
		"C27/beacon-clean":  runBeaconClean,
		"C27/beacon-faulty": runBeaconFaulty,
		"C27/path-clean":    runPathClean,
		"C27/path-faulty":   runPathFaulty,
		"C31/history":       runRevCache,
		"C31/concurrent":    runRevConcurrent,
		"C45/access":        runHidden,
	}})
}
