//go:build verif

package storesim

import (
	"context"
	"fmt"
	"sort"
	"strings"
	"testing"
	"testing/synctest"
	"time"

	"github.com/scionproto/scion/pkg/addr"
	seg "github.com/scionproto/scion/pkg/segment"
	"github.com/scionproto/scion/pkg/segment/iface"
	"github.com/scionproto/scion/private/pathdb"
	"github.com/scionproto/scion/private/pathdb/query"
	"github.com/scionproto/scion/private/storage/db"
	psqlite "github.com/scionproto/scion/private/storage/path/sqlite"
	"verif/sim/core"
)

// ---- reference model of the path store: segment id -> (version, set of types, set of groups) ----

type pEntry struct {
	v      *ver
	types  map[seg.Type]bool
	groups map[uint64]bool
}

func (e *pEntry) clone() *pEntry {
	c := &pEntry{v: e.v, types: map[seg.Type]bool{}, groups: map[uint64]bool{}}
	for k := range e.types {
		c.types[k] = true
	}
	for k := range e.groups {
		c.groups[k] = true
	}
	return c
}

func (e *pEntry) sortedTypes() []seg.Type {
	var out []seg.Type
	for t := range e.types {
		out = append(out, t)
	}
	sort.Slice(out, func(i, j int) bool { return out[i] < out[j] })
	return out
}

func (e *pEntry) sortedGroups() []uint64 {
	var out []uint64
	for g := range e.groups {
		out = append(out, g)
	}
	sort.Slice(out, func(i, j int) bool { return out[i] < out[j] })
	return out
}

type pathModel struct {
	segs map[string]*pEntry   // upper-case hex segment id -> entry
	nq   map[string]time.Time // "src>dst" -> stored next-query time
}

func newPathModel() *pathModel {
	return &pathModel{segs: map[string]*pEntry{}, nq: map[string]time.Time{}}
}

func (m *pathModel) clone() *pathModel {
	c := newPathModel()
	for k, e := range m.segs {
		c.segs[k] = e.clone()
	}
	for k, t := range m.nq {
		c.nq[k] = t
	}
	return c
}

// insert applies the statement: absent -> stored; strictly newer signing time of the last AS entry ->
// replaces and adds type and groups; equal or older -> ignored.
func (m *pathModel) insert(v *ver, t seg.Type, groups []uint64) (class string) {
	id := v.shape.idHex
	old := m.segs[id]
	switch {
	case old == nil:
		e := &pEntry{v: v, types: map[seg.Type]bool{t: true}, groups: map[uint64]bool{}}
		for _, g := range groups {
			e.groups[g] = true
		}
		m.segs[id] = e
		return "new"
	case v.signTS.After(old.v.signTS):
		old.v = v
		old.types[t] = true
		for _, g := range groups {
			old.groups[g] = true
		}
		return "newer"
	case v.signTS.Equal(old.v.signTS):
		return "equal"
	}
	return "older"
}

var groupPool = []uint64{0, 0xff0000000110<<16 | 1, 0xff0000000110<<16 | 2, 0xff0000000211<<16 | 1, 0xffffffffffffffff}
var typePool = []seg.Type{seg.TypeUp, seg.TypeDown, seg.TypeCore}

type pathWorld struct {
	r      *core.Run
	faults bool
	p      *pool
	loc    *loc
	db     *psqlite.Backend
	m      *pathModel
	// what operations are applied to: the backend, or an open transaction with its working model
	rw       pathdb.ReadWrite
	cur      *pathModel
	everMax  map[string]time.Time
	accepted int
	nonEmpty int
	// only used to give a content mismatch a stable signature: the connection does not enforce
	// foreign keys (so ON DELETE CASCADE is dead) and segments have been deleted in this run
	fkOff   bool
	deleted int
}

func runPathClean(r *core.Run)  { core.Bubble(r, func(t *testing.T) { runPath(r, false) }) }
func runPathFaulty(r *core.Run) { core.Bubble(r, func(t *testing.T) { runPath(r, true) }) }

func (w *pathWorld) open() {
	b, err := psqlite.New(w.loc.path, &db.SqliteConfig{InMemory: w.loc.mem, MaxOpenReadConns: 2})
	if err != nil {
		panic(core.InfraError{Msg: "open path db: " + err.Error()})
	}
	w.db = b
	w.rw = b
	var fk int
	if err := b.DB().Full.QueryRow("PRAGMA foreign_keys").Scan(&fk); err != nil {
		panic(core.InfraError{Msg: "pragma foreign_keys: " + err.Error()})
	}
	w.fkOff = fk == 0
}

func runPath(r *core.Run, faults bool) {
	w := &pathWorld{r: r, faults: faults, m: newPathModel(), everMax: map[string]time.Time{}}
	w.cur = w.m
	mem := !faults && r.Choice("db.mem", 2) == 0
	w.p = newPool(r, 3+r.Choice("pool.shapes", 8), 4, false)
	w.loc = newLoc(mem, "p")
	defer w.loc.cleanup()
	w.open()
	defer func() { w.db.Close() }()
	time.Sleep(250 * time.Millisecond)
	r.Logf("path store mem=%v shapes=%d", mem, len(w.p.shapes))
	nops := 8 + r.Choice("nops", 33)
	for i := 0; i < nops && !r.Failed(); i++ {
		w.step(i, false)
	}
	if !r.Failed() {
		w.fullCheck("final")
	}
	r.SimNS = int64(time.Since(simEpoch))
	r.Nontrivial = w.accepted >= 2 && w.nonEmpty >= 1
	r.Sample = map[string]any{"shapes": len(w.p.shapes), "ops": nops, "accepted": w.accepted, "stored": len(w.m.segs)}
}

func (w *pathWorld) step(i int, inTx bool) {
	r := w.r
	n := 22
	if w.faults && !inTx {
		n = 25
	}
	if inTx {
		n = 20
	}
	switch k := r.Choice("op", n); {
	case k < 8:
		w.opInsert(i)
	case k < 13:
		w.opGet(i)
	case k < 16 && inTx && r.IsKnown(sigOrphans):
		w.opClock(i) // no deletions inside transactions while the orphaned-rows finding is open
	case k < 14:
		w.opDelete(i)
	case k < 16:
		w.opDeleteExpired(i)
	case k < 18:
		w.opNextQuery(i)
	case k < 20:
		w.opClock(i)
	case k == 21 && !inTx && !w.loc.mem:
		w.opTwoWriters(i)
	case k < 22:
		w.opTx(i)
	case k == 22:
		w.opClock(i)
	case k == 23:
		w.opRestart(i)
	default:
		w.opKill(i)
	}
}

func (w *pathWorld) opInsert(i int) {
	r := w.r
	v := w.p.pickVer(r)
	t := typePool[r.Choice("ins.type", 3)]
	var groups []uint64
	plain := r.Choice("ins.plain", 3) == 0
	if plain {
		groups = []uint64{0}
	} else {
		for k := 0; k <= r.Choice("ins.ngroups", 2); k++ {
			g := groupPool[r.Choice("ins.group", len(groupPool))]
			dup := false
			for _, x := range groups {
				dup = dup || x == g
			}
			if !dup {
				groups = append(groups, g)
			}
		}
	}
	ctx, done, dead := opCtx(r, w.faults)
	defer done()
	id := v.shape.idHex
	if old := w.cur.segs[id]; old == nil {
		if mx, ok := w.everMax[id]; ok && v.signTS.Before(mx) {
			r.Probe("older-after-delete")
		}
	}
	var st pathdb.InsertStats
	var err error
	if plain {
		st, err = w.rw.Insert(ctx, &seg.Meta{Segment: v.seg, Type: t})
	} else {
		st, err = w.rw.InsertWithHPGroupIDs(ctx, &seg.Meta{Segment: v.seg, Type: t}, groups)
	}
	if err != nil {
		r.Logf("#%d insert %v type=%v groups=%x", i, v, t, groups)
		opFailed(r, "Insert", err, dead)
		w.segCheck(v.shape, "after failed insert")
		return
	}
	before := w.cur.segs[id]
	var hadType, hadGroups, sameFull bool
	if before != nil {
		hadType = before.types[t]
		hadGroups = true
		for _, g := range groups {
			hadGroups = hadGroups && before.groups[g]
		}
		sameFull = string(before.v.seg.FullID()) == string(v.seg.FullID())
	}
	class := w.cur.insert(v, t, groups)
	r.Logf("#%d insert %v sign=%d type=%v groups=%x class=%s", i, v, v.signTS.UnixMilli(), t, groups, class)
	r.Covered("p.insert:" + class)
	wantIns, wantUpd := 0, 0
	switch class {
	case "new":
		wantIns = 1
	case "newer":
		wantUpd = 1
		if !hadType {
			r.Probe("update-adds-type")
		}
		if !hadGroups {
			r.Probe("update-adds-group")
		}
		if !sameFull {
			r.Probe("update-changes-peers")
		}
	default:
		if before != nil && (!hadType || !hadGroups) {
			r.Probe("ignored-insert-with-new-type-or-group")
		}
	}
	if wantIns+wantUpd > 0 {
		w.accepted++
		if mx, ok := w.everMax[id]; !ok || v.signTS.After(mx) {
			w.everMax[id] = v.signTS
		}
	}
	if st.Inserted != wantIns || st.Updated != wantUpd {
		r.Fail("c27-insert-stats", "path-insert-stats:"+class,
			"Insert(%v, class %s) reported inserted=%d updated=%d, reference says inserted=%d updated=%d",
			v, class, st.Inserted, st.Updated, wantIns, wantUpd)
		return
	}
	w.segCheck(v.shape, "after insert")
}

// segCheck looks the one segment id up and compares version, types and groups with the reference
// (the complete content is compared after deletions, clean-ups, transactions, faults and at the end).
func (w *pathWorld) segCheck(sh *shape, when string) {
	r := w.r
	if r.Failed() {
		return
	}
	q := &query.Params{SegIDs: [][]byte{sh.id}}
	res, err := w.rw.Get(context.Background(), q)
	if err != nil {
		r.Fail("c27-op-error", "op-error:Get", "Get failed: %v", errText(err))
		return
	}
	defer func(n int) { w.nonEmpty = n }(w.nonEmpty)
	w.checkResults("c27-state-mismatch", fmt.Sprintf("stored entry of segment s%d %s", sh.idx, when), "path-state", res, q)
}

const sigOrphans = "path-fk-orphans"

var orphanTables = []string{"SegTypes", "HPGroupIDs", "IntfToSeg"}

// orphans counts rows of the dependent tables whose segment row no longer exists (only possible when
// the ON DELETE CASCADE clauses of the schema are not in force). -1 inside a transaction.
func (w *pathWorld) orphans(remove bool) int {
	if w.cur != w.m {
		return -1
	}
	total := 0
	for _, tbl := range orphanTables {
		cond := " FROM " + tbl + " WHERE SegRowID NOT IN (SELECT RowID FROM Segments)"
		if remove {
			res, err := w.db.DB().Full.Exec("DELETE" + cond)
			if err != nil {
				panic(core.InfraError{Msg: "orphan clean-up: " + err.Error()})
			}
			n, _ := res.RowsAffected()
			total += int(n)
			continue
		}
		var n int
		if err := w.db.DB().Full.QueryRow("SELECT count(*)" + cond).Scan(&n); err != nil {
			panic(core.InfraError{Msg: "orphan count: " + err.Error()})
		}
		total += n
	}
	return total
}

// attribute gives a content mismatch the signature of the orphaned-rows defect when the store's
// connections do not enforce foreign keys and segments were deleted earlier in the run (a deleted
// segment's types / groups / interfaces stay behind and a later segment reusing the row id inherits
// them). The verdict itself never depends on this.
func (w *pathWorld) attribute(sig string) string {
	if w.fkOff && w.deleted > 0 {
		return sigOrphans
	}
	return sig
}

// afterDelete: when the orphaned-rows defect is a listed known finding, the harness removes the
// orphans itself (and notes the finding) so that the rest of the history stays meaningful.
func (w *pathWorld) afterDelete() {
	if w.r.IsKnown(sigOrphans) && w.cur == w.m {
		if n := w.orphans(true); n > 0 {
			w.r.NoteKnown(sigOrphans)
		}
	}
}

func resKey(v *ver, t seg.Type) string { return fmt.Sprintf("%v/%s %v", v, v.key, t) }

// checkResults compares a query answer with the model entries selected by match.
func (w *pathWorld) checkResults(check, what, sig string, res query.Results, q *query.Params) bool {
	r := w.r
	must := map[string]bool{}
	byKey := map[string]*pEntry{}
	for _, id := range core.SortedKeys(w.cur.segs) {
		e := w.cur.segs[id]
		if !matchPath(e, q) {
			continue
		}
		for _, t := range e.sortedTypes() {
			if q != nil && len(q.SegTypes) > 0 {
				hit := false
				for _, f := range q.SegTypes {
					hit = hit || f == t
				}
				if !hit {
					continue
				}
			}
			must[resKey(e.v, t)] = true
			byKey[resKey(e.v, t)] = e
		}
	}
	var got []string
	for _, x := range res {
		v, ok := w.p.byKey[contentKey(x.Seg)]
		if !ok {
			got = append(got, "unknown-content:"+contentKey(x.Seg))
			continue
		}
		got = append(got, resKey(v, x.Type))
	}
	if d := diffSets(got, must, nil); d != "" {
		sort.Strings(got)
		r.Fail(check, w.attribute(sig), "%s: %s\n got  %v\n want %v", what, d, got, sortedStrings(must))
		return false
	}
	// hidden-path groups reported with each result: the full set without a group filter; with a
	// filter at least the matching ones and never a group the segment is not registered under
	for k, x := range res {
		e := byKey[got[k]]
		have := map[uint64]bool{}
		for _, g := range x.HPGroupIDs {
			if !e.groups[g] {
				r.Fail(check, w.attribute(sig+":groups"), "%s: result %s reports group %x it was never stored under (stored: %x)",
					what, got[k], g, e.sortedGroups())
				return false
			}
			have[g] = true
		}
		for _, g := range e.sortedGroups() {
			need := q == nil || len(q.HPGroupIDs) == 0
			if !need {
				for _, f := range q.HPGroupIDs {
					need = need || f == g
				}
			}
			if need && !have[g] {
				r.Fail(check, w.attribute(sig+":groups"), "%s: result %s lacks group %x (stored: %x, reported: %x)",
					what, got[k], g, e.sortedGroups(), x.HPGroupIDs)
				return false
			}
		}
	}
	if len(got) > 0 && q != nil {
		w.nonEmpty++
	}
	return true
}

// matchPath: segment-level filters of a path query (any-of within a filter, all filters must hold).
func matchPath(e *pEntry, q *query.Params) bool {
	if q == nil {
		return true
	}
	sh := e.v.shape
	if len(q.SegIDs) > 0 {
		hit := false
		for _, id := range q.SegIDs {
			hit = hit || string(id) == string(sh.id)
		}
		if !hit {
			return false
		}
	}
	if len(q.HPGroupIDs) > 0 {
		hit := false
		for _, g := range q.HPGroupIDs {
			hit = hit || e.groups[g]
		}
		if !hit {
			return false
		}
	}
	if len(q.SegTypes) > 0 {
		hit := false
		for _, t := range q.SegTypes {
			hit = hit || e.types[t]
		}
		if !hit {
			return false
		}
	}
	if len(q.Intfs) > 0 {
		hit := false
		for _, f := range q.Intfs {
			hit = hit || e.v.hasIface(f.IA, uint16(f.IfID))
		}
		if !hit {
			return false
		}
	}
	if len(q.StartsAt) > 0 {
		hit := false
		for _, f := range q.StartsAt {
			hit = hit || iaMatch(f, sh.first())
		}
		if !hit {
			return false
		}
	}
	if len(q.EndsAt) > 0 {
		hit := false
		for _, f := range q.EndsAt {
			hit = hit || iaMatch(f, sh.last())
		}
		if !hit {
			return false
		}
	}
	return true
}

func (w *pathWorld) fullCheck(when string) {
	r := w.r
	if r.Failed() {
		return
	}
	res, err := w.rw.GetAll(context.Background())
	if err != nil {
		r.Fail("c27-op-error", "op-error:GetAll", "GetAll failed: %v", errText(err))
		return
	}
	w.checkResults("c27-state-mismatch", "path store content "+when, "path-state", res, nil)
}

func (w *pathWorld) drawIA(label string) addr.IA {
	r := w.r
	ia := iaPool[r.Choice(label, len(iaPool))]
	if r.Choice(label+".wild", 4) == 3 {
		ia = addr.MustIAFrom(ia.ISD(), 0)
	}
	return ia
}

func (w *pathWorld) opGet(i int) {
	r := w.r
	q := &query.Params{}
	mask := 0
	var desc []string
	if r.Chance("get.segids", 1, 4) {
		mask |= 1
		for k := 0; k <= r.Choice("get.nseg", 2); k++ {
			q.SegIDs = append(q.SegIDs, w.p.shapes[r.Choice("get.segshape", len(w.p.shapes))].id)
		}
		desc = append(desc, fmt.Sprintf("segids=%d", len(q.SegIDs)))
	}
	if r.Chance("get.types", 1, 3) {
		mask |= 2
		for k := 0; k <= r.Choice("get.ntypes", 2); k++ {
			q.SegTypes = append(q.SegTypes, typePool[r.Choice("get.type", 3)])
		}
		desc = append(desc, fmt.Sprintf("types=%v", q.SegTypes))
	}
	if r.Chance("get.groups", 1, 3) {
		mask |= 4
		for k := 0; k <= r.Choice("get.ngroups", 2); k++ {
			q.HPGroupIDs = append(q.HPGroupIDs, groupPool[r.Choice("get.group", len(groupPool))])
		}
		desc = append(desc, fmt.Sprintf("groups=%x", q.HPGroupIDs))
	}
	if r.Chance("get.intfs", 1, 3) {
		mask |= 8
		var ds []string
		for k := 0; k <= r.Choice("get.nintfs", 2); k++ {
			s := &query.IntfSpec{IA: iaPool[r.Choice("get.intfia", len(iaPool))], IfID: iface.ID(1 + r.Choice("get.intfid", 5))}
			q.Intfs = append(q.Intfs, s)
			ds = append(ds, fmt.Sprintf("%v#%d", s.IA, s.IfID))
		}
		desc = append(desc, "intfs="+strings.Join(ds, ","))
	}
	if r.Chance("get.starts", 1, 3) {
		mask |= 16
		for k := 0; k <= r.Choice("get.nstarts", 2); k++ {
			q.StartsAt = append(q.StartsAt, w.drawIA("get.start"))
		}
		desc = append(desc, fmt.Sprintf("starts=%v", q.StartsAt))
	}
	if r.Chance("get.ends", 1, 3) {
		mask |= 32
		for k := 0; k <= r.Choice("get.nends", 2); k++ {
			q.EndsAt = append(q.EndsAt, w.drawIA("get.end"))
		}
		desc = append(desc, fmt.Sprintf("ends=%v", q.EndsAt))
	}
	ctx, done, dead := opCtx(r, w.faults)
	defer done()
	res, err := w.rw.Get(ctx, q)
	r.Logf("#%d get %s -> %d err=%v", i, strings.Join(desc, " "), len(res), err != nil)
	if err != nil {
		opFailed(r, "Get", err, dead)
		return
	}
	if w.checkResults("c27-query-mismatch", "Get("+strings.Join(desc, " ")+")", fmt.Sprintf("path-query:%d", mask), res, q) {
		r.Covered(fmt.Sprintf("p.get:mask=%d,hit=%v", mask, len(res) > 0))
	}
}

func (w *pathWorld) opDelete(i int) {
	r := w.r
	sh := w.p.shapes[r.Choice("del.shape", len(w.p.shapes))]
	l := []int{64, 64, 1, 2, 3, 0}[r.Choice("del.len", 6)]
	prefix := sh.idHex[:l]
	if r.Choice("del.lower", 2) == 1 {
		prefix = strings.ToLower(prefix)
	}
	ctx, done, dead := opCtx(r, w.faults)
	defer done()
	err := w.rw.DeleteSegment(ctx, prefix)
	r.Logf("#%d delete prefix=%q err=%v", i, prefix, err != nil)
	if err != nil {
		opFailed(r, "DeleteSegment", err, dead)
		w.fullCheck("after failed delete")
		return
	}
	n := 0
	for _, id := range core.SortedKeys(w.cur.segs) {
		if strings.HasPrefix(id, strings.ToUpper(prefix)) {
			delete(w.cur.segs, id)
			n++
			w.deleted++
		}
	}
	r.Covered(fmt.Sprintf("p.delete:len=%d,n=%d", l, min(n, 2)))
	w.afterDelete()
	w.fullCheck("after delete")
}

func (w *pathWorld) opDeleteExpired(i int) {
	r := w.r
	now := time.Now()
	if r.Choice("exp.arbitrary", 3) == 2 {
		now = w.p.pickVer(r).expiry.Add(time.Duration(r.Choice("exp.off", 5)-2) * 1500 * time.Millisecond)
	}
	var exps []time.Time
	for _, id := range core.SortedKeys(w.cur.segs) {
		exps = append(exps, w.cur.segs[id].v.expiry)
	}
	now = cleanupInstant(now, exps)
	ctx, done, dead := opCtx(r, w.faults)
	defer done()
	n, err := w.rw.DeleteExpired(ctx, now)
	r.Logf("#%d delete-expired now=%d.%03d -> %d err=%v", i, now.Unix(), now.Nanosecond()/1e6, n, err != nil)
	if err != nil {
		opFailed(r, "DeleteExpired", err, dead)
		w.fullCheck("after failed clean-up")
		return
	}
	want := 0
	for _, id := range core.SortedKeys(w.cur.segs) {
		if w.cur.segs[id].v.expiry.Before(now) {
			delete(w.cur.segs, id)
			want++
			w.deleted++
		}
	}
	if want > 0 {
		r.Probe("cleanup-removed")
		if len(w.cur.segs) > 0 {
			r.Probe("cleanup-partial")
		}
	}
	w.afterDelete()
	if n != want {
		r.Fail("c27-cleanup", "path-cleanup-count", "DeleteExpired(%v) removed %d segments, %d stored segments were expired", now.UTC(), n, want)
		return
	}
	w.fullCheck("after clean-up")
}

func (w *pathWorld) opNextQuery(i int) {
	r := w.r
	src := iaPool[r.Choice("nq.src", 2)]
	dst := iaPool[2+r.Choice("nq.dst", 2)]
	key := src.String() + ">" + dst.String()
	ctx, done, dead := opCtx(r, w.faults)
	defer done()
	if r.Choice("nq.write", 2) == 0 {
		t := simEpoch.Add(time.Duration(r.Choice("nq.t", 8)) * 450 * time.Millisecond).Add(time.Duration(r.Choice("nq.h", 3)) * time.Hour)
		ok, err := w.rw.InsertNextQuery(ctx, src, dst, t)
		r.Logf("#%d next-query insert %s t=%d -> %v err=%v", i, key, t.UnixMilli(), ok, err != nil)
		if err != nil {
			opFailed(r, "InsertNextQuery", err, dead)
		} else {
			old, have := w.cur.nq[key]
			switch {
			case !have || t.After(old):
				w.cur.nq[key] = t
				r.Covered("p.nq:advance")
				if !ok {
					r.Fail("c27-nextquery", "nq-insert-result", "InsertNextQuery(%s, %v) returned false although the stored time (%v, present %v) is older", key, t.UTC(), old.UTC(), have)
					return
				}
			case t.Equal(old):
				r.Covered("p.nq:equal") // return value on an equal time: the statement is silent
			default:
				r.Covered("p.nq:older")
				if ok {
					r.Fail("c27-nextquery", "nq-insert-result", "InsertNextQuery(%s, %v) returned true although the stored time %v is newer", key, t.UTC(), old.UTC())
					return
				}
			}
		}
	}
	got, err := w.rw.GetNextQuery(context.Background(), src, dst)
	if err != nil {
		r.Fail("c27-op-error", "op-error:GetNextQuery", "GetNextQuery failed: %v", errText(err))
		return
	}
	want, have := w.cur.nq[key]
	if (!have && !got.IsZero()) || (have && !got.Equal(want)) {
		r.Fail("c27-nextquery", "nq-value", "GetNextQuery(%s) = %v, reference (maximum of the accepted next-query times) = %v (present %v)", key, got.UTC(), want.UTC(), have)
	}
}

func (w *pathWorld) opClock(i int) {
	r := w.r
	d := []time.Duration{time.Second, 7 * time.Second, 6 * time.Minute, 25 * time.Minute, 100 * time.Minute, 7 * time.Hour}[r.Choice("clock.d", 6)]
	if w.faults && d >= 25*time.Minute {
		r.Fault("clock.jump")
	}
	time.Sleep(d)
	r.Logf("#%d clock +%v", i, d)
}

// opTx runs a few operations inside one pathdb transaction and commits or rolls it back; with faults
// the process may be killed while the transaction is open, or its context cancelled before commit.
// opTwoWriters: a plain insert of one version of a segment is issued while a transaction holds the
// store's single write connection; the transaction then stores another version of the same segment
// and commits. The plain insert can only take effect after the commit, so the outcome must be that
// of "transaction first, plain insert second" - in particular an older version never replaces the
// newer one the transaction stored. (Schedule: the second writer is a real goroutine; the simulator
// waits until it is durably blocked on the write connection before the transaction goes on.)
func (w *pathWorld) opTwoWriters(i int) {
	r := w.r
	if w.cur != w.m {
		w.opClock(i)
		return
	}
	sh := w.p.shapes[r.Choice("race.shape", len(w.p.shapes))]
	if len(sh.vers) < 2 {
		w.opClock(i)
		return
	}
	va := sh.vers[r.Choice("race.ver.plain", len(sh.vers))]
	vb := sh.vers[r.Choice("race.ver.tx", len(sh.vers))]
	ta, tb := typePool[r.Choice("race.type.plain", 3)], typePool[r.Choice("race.type.tx", 3)]
	ctx := context.Background()
	tx, err := w.db.BeginTransaction(ctx, nil)
	if err != nil {
		r.Fail("c27-op-error", "op-error:BeginTransaction", "BeginTransaction failed: %v", errText(err))
		return
	}
	type res struct {
		st  pathdb.InsertStats
		err error
	}
	done := make(chan res, 1)
	db := w.db
	go func() {
		st, err := db.Insert(ctx, &seg.Meta{Segment: va.seg, Type: ta})
		done <- res{st, err}
	}()
	synctest.Wait() // the plain writer now waits for the write connection
	select {
	case x := <-done:
		tx.Rollback()
		r.Fail("c27-two-writers", "two-writers:not-serialised", "a plain insert finished (err=%v) while a transaction held the write connection", x.err != nil)
		return
	default:
	}
	stB, errB := tx.Insert(ctx, &seg.Meta{Segment: vb.seg, Type: tb})
	if errB == nil {
		errB = tx.Commit()
	}
	if errB != nil {
		tx.Rollback()
		synctest.Wait()
		<-done
		r.Fail("c27-op-error", "op-error:two-writers-tx", "transaction of the two-writer step failed: %v", errText(errB))
		return
	}
	synctest.Wait()
	a := <-done
	if a.err != nil {
		r.Fail("c27-op-error", "op-error:two-writers-plain", "plain insert of the two-writer step failed: %v", errText(a.err))
		return
	}
	r.Fault("sched.two-writers")
	// reference: transaction first, plain insert second
	for _, step := range []struct {
		v   *ver
		t   seg.Type
		st  pathdb.InsertStats
		who string
	}{{vb, tb, stB, "transaction"}, {va, ta, a.st, "plain insert"}} {
		class := w.cur.insert(step.v, step.t, []uint64{0})
		wantIns, wantUpd := 0, 0
		switch class {
		case "new":
			wantIns = 1
		case "newer":
			wantUpd = 1
		}
		if wantIns+wantUpd > 0 {
			w.accepted++
			if mx, ok := w.everMax[sh.idHex]; !ok || step.v.signTS.After(mx) {
				w.everMax[sh.idHex] = step.v.signTS
			}
		}
		r.Logf("#%d two writers: %s %v sign=%d type=%v class=%s", i, step.who, step.v, step.v.signTS.UnixMilli(), step.t, class)
		r.Covered("p.twowriters:" + step.who + ":" + class)
		if step.st.Inserted != wantIns || step.st.Updated != wantUpd {
			r.Fail("c27-two-writers", "two-writers:stats:"+class, "two writers on segment %s: the %s of %v reported inserted=%d updated=%d, reference (transaction first, plain insert second) says inserted=%d updated=%d",
				sh.idHex, step.who, step.v, step.st.Inserted, step.st.Updated, wantIns, wantUpd)
			return
		}
	}
	w.segCheck(sh, "after two concurrent writers")
}

func (w *pathWorld) opTx(i int) {
	r := w.r
	if w.cur != w.m {
		w.opClock(i) // already inside a transaction
		return
	}
	ctx, cancel := context.WithCancel(context.Background())
	defer cancel()
	tx, err := w.db.BeginTransaction(ctx, nil)
	if err != nil {
		r.Fail("c27-op-error", "op-error:BeginTransaction", "BeginTransaction failed: %v", errText(err))
		return
	}
	r.Logf("#%d tx begin", i)
	w.rw, w.cur = tx, w.m.clone()
	n := 1 + r.Choice("tx.ops", 4)
	for k := 0; k < n && !r.Failed(); k++ {
		w.step(i, true)
	}
	end := r.Choice("tx.end", 3) // 0,1 commit; 2 rollback
	fault := 0
	if w.faults {
		fault = r.Choice("tx.fault", 5) // 3: kill with the transaction open; 4: cancel before commit
	}
	work := w.cur
	w.rw, w.cur = w.db, w.m
	if r.Failed() {
		tx.Rollback()
		return
	}
	switch {
	case fault == 3:
		r.Fault("db.kill-in-tx")
		r.Logf("#%d tx killed while open", i)
		w.loc.killCopy(r.Choice("kill.shm", 2) == 1)
		tx.Rollback()
		w.db.Close()
		w.open()
	case fault == 4:
		r.Fault("ctx.cancel-before-commit")
		cancel()
		synctest.Wait()
		err := tx.Commit()
		r.Logf("#%d tx commit after cancel err=%v", i, err != nil)
		if err == nil {
			w.m = work
			w.cur = w.m
		}
	case end < 2:
		if err := tx.Commit(); err != nil {
			r.Fail("c27-op-error", "op-error:Commit", "Commit failed: %v", errText(err))
			return
		}
		r.Logf("#%d tx commit", i)
		r.Covered("p.tx:commit")
		w.m = work
		w.cur = w.m
	default:
		if err := tx.Rollback(); err != nil {
			r.Fail("c27-op-error", "op-error:Rollback", "Rollback failed: %v", errText(err))
			return
		}
		r.Logf("#%d tx rollback", i)
		r.Covered("p.tx:rollback")
	}
	w.fullCheck("after transaction")
	w.checkNextQueries()
}

func (w *pathWorld) checkNextQueries() {
	r := w.r
	for a := 0; a < 2 && !r.Failed(); a++ {
		for b := 2; b < 4; b++ {
			src, dst := iaPool[a], iaPool[b]
			got, err := w.rw.GetNextQuery(context.Background(), src, dst)
			if err != nil {
				r.Fail("c27-op-error", "op-error:GetNextQuery", "GetNextQuery failed: %v", errText(err))
				return
			}
			want, have := w.cur.nq[src.String()+">"+dst.String()]
			if (!have && !got.IsZero()) || (have && !got.Equal(want)) {
				r.Fail("c27-nextquery", "nq-value", "GetNextQuery(%v>%v) = %v, reference = %v (present %v)", src, dst, got.UTC(), want.UTC(), have)
				return
			}
		}
	}
}

func (w *pathWorld) opRestart(i int) {
	r := w.r
	r.Fault("db.restart")
	r.Logf("#%d restart", i)
	if err := w.db.Close(); err != nil {
		r.Fail("c27-op-error", "op-error:Close", "Close failed: %v", errText(err))
	}
	w.open()
	w.fullCheck("after restart")
	w.checkNextQueries()
}

func (w *pathWorld) opKill(i int) {
	r := w.r
	r.Fault("db.kill")
	shm := r.Choice("kill.shm", 2) == 1
	r.Logf("#%d kill shm=%v", i, shm)
	w.loc.killCopy(shm)
	w.db.Close()
	w.open()
	w.fullCheck("after kill")
	w.checkNextQueries()
}
