//go:build verif

package storesim

import (
	"context"
	"fmt"
	"io"
	"os"
	"path/filepath"
	"regexp"
	"sync/atomic"
	"time"

	"verif/sim/core"
)

var memCounter atomic.Int64

var tmpName = regexp.MustCompile(`storesim-[a-z]+-[0-9-]+`)

// errText renders an error for violation messages without the per-run temp directory / database names.
func errText(err error) string {
	if err == nil {
		return "<nil>"
	}
	return tmpName.ReplaceAllString(err.Error(), "storesim-X")
}

// loc is where a store lives: a named in-memory database or a file in a per-run temp directory.
type loc struct {
	mem  bool
	path string   // file path or in-memory name
	dirs []string // temp directories to remove at the end of the run
}

func tmpBase() string {
	if st, err := os.Stat("/dev/shm"); err == nil && st.IsDir() {
		return "/dev/shm"
	}
	return ""
}

func newLoc(mem bool, tag string) *loc {
	if mem {
		return &loc{mem: true, path: fmt.Sprintf("file:storesim-%s-%d-%d", tag, os.Getpid(), memCounter.Add(1))}
	}
	d, err := os.MkdirTemp(tmpBase(), "storesim-"+tag+"-")
	if err != nil {
		panic(core.InfraError{Msg: "mkdtemp: " + err.Error()})
	}
	return &loc{path: filepath.Join(d, "store.db"), dirs: []string{d}}
}

// killCopy copies the database files as they are on disk right now (main file, write-ahead log,
// optionally the shared-memory index, a rollback journal if there is one) into a fresh directory:
// what a killed process leaves behind. The store continues on the copy.
func (l *loc) killCopy(withShm bool) {
	d, err := os.MkdirTemp(tmpBase(), "storesim-kill-")
	if err != nil {
		panic(core.InfraError{Msg: "mkdtemp: " + err.Error()})
	}
	np := filepath.Join(d, "store.db")
	for _, suf := range []string{"", "-wal", "-shm", "-journal"} {
		if suf == "-shm" && !withShm {
			continue
		}
		src, err := os.Open(l.path + suf)
		if err != nil {
			if os.IsNotExist(err) {
				continue
			}
			panic(core.InfraError{Msg: "kill copy: " + err.Error()})
		}
		dst, err := os.Create(np + suf)
		if err == nil {
			_, err = io.Copy(dst, src)
			dst.Close()
		}
		src.Close()
		if err != nil {
			panic(core.InfraError{Msg: "kill copy: " + err.Error()})
		}
	}
	l.dirs = append(l.dirs, d)
	l.path = np
}

func (l *loc) cleanup() {
	for _, d := range l.dirs {
		os.RemoveAll(d)
	}
}

// opCtx draws the context of one store operation. With faults enabled it is sometimes already
// cancelled or already past its deadline (on the simulated clock); otherwise it is a background
// context or a live deadline context.
func opCtx(r *core.Run, faults bool) (ctx context.Context, done func(), dead bool) {
	if faults && r.FaultChance("ctx.cancel", 1, 8) {
		if r.Choice("ctx.kind", 2) == 0 {
			c, cancel := context.WithCancel(context.Background())
			cancel()
			return c, func() {}, true
		}
		c, cancel := context.WithDeadline(context.Background(), time.Now().Add(-time.Second))
		return c, cancel, true
	}
	if r.Choice("ctx.live", 2) == 1 {
		c, cancel := context.WithTimeout(context.Background(), 10*time.Second)
		return c, cancel, false
	}
	return context.Background(), func() {}, false
}
