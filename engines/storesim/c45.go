//go:build verif

package storesim

import (
	"context"
	"fmt"
	"net"
	"sort"
	"strings"
	"testing"
	"time"

	"google.golang.org/protobuf/proto"

	"github.com/scionproto/scion/pkg/addr"
	"github.com/scionproto/scion/pkg/experimental/hiddenpath"
	cryptopb "github.com/scionproto/scion/pkg/proto/crypto"
	"github.com/scionproto/scion/pkg/scrypto/cppki"
	"github.com/scionproto/scion/pkg/scrypto/signed"
	seg "github.com/scionproto/scion/pkg/segment"
	"github.com/scionproto/scion/pkg/snet"
	infra "github.com/scionproto/scion/private/segment/verifier"
	"github.com/scionproto/scion/private/storage/db"
	psqlite "github.com/scionproto/scion/private/storage/path/sqlite"
	"verif/sim/core"
)

// simVerifier is the verifier seam: an AS entry verifies iff its signature is a genuine signature of
// the run's signing key over exactly these bytes (segments the harness tampered with fail).
type simVerifier struct{ p *pool }

func (v simVerifier) Verify(_ context.Context, m *cryptopb.SignedMessage, ad ...[]byte) (*signed.Message, error) {
	return signed.Verify(m, v.p.pub, ad...)
}
func (v simVerifier) WithServer(net.Addr) infra.Verifier         { return v }
func (v simVerifier) WithIA(addr.IA) infra.Verifier              { return v }
func (v simVerifier) WithValidity(cppki.Validity) infra.Verifier { return v }

// refGroup is the harness's own record of a group configuration.
type refGroup struct {
	id                           hiddenpath.GroupID
	owner                        addr.IA
	writers, readers, registries []addr.IA
}

func has(l []addr.IA, ia addr.IA) bool {
	for _, x := range l {
		if x == ia {
			return true
		}
	}
	return false
}

type hpServer struct {
	ia    addr.IA
	db    *psqlite.Backend
	reg   hiddenpath.RegistryServer
	auth  hiddenpath.AuthoritativeServer
	known map[uint64]bool // groups present in this server's configuration
	m     *pathModel      // what is stored under which group, by the C27 reference store
}

var strangerIA = addr.MustIAFrom(3, 0xff0000000310)

func runHidden(r *core.Run) { core.Bubble(r, func(t *testing.T) { runHiddenBubble(r) }) }

func subset(r *core.Run, label string, nonEmpty bool) []addr.IA {
	n := 1 << len(iaPool)
	var mask int
	if nonEmpty {
		mask = 1 + r.Choice(label, n-1)
	} else {
		mask = r.Choice(label, n)
	}
	var out []addr.IA
	for i, ia := range iaPool {
		if mask&(1<<i) != 0 {
			out = append(out, ia)
		}
	}
	return out
}

func iaSet(l []addr.IA) map[addr.IA]struct{} {
	m := map[addr.IA]struct{}{}
	for _, x := range l {
		m[x] = struct{}{}
	}
	return m
}

// tamper returns a copy of the segment with one bit of one AS entry's signature flipped.
func tamper(ps *seg.PathSegment, idx int) *seg.PathSegment {
	c := &seg.PathSegment{Info: ps.Info, ASEntries: append([]seg.ASEntry(nil), ps.ASEntries...)}
	s := proto.Clone(c.ASEntries[idx].Signed).(*cryptopb.SignedMessage)
	s.Signature[len(s.Signature)-1] ^= 1
	c.ASEntries[idx].Signed = s
	return c
}

func runHiddenBubble(r *core.Run) {
	p := newPool(r, 3+r.Choice("pool.shapes", 6), 3, false)
	// the ASes that run a registry / hidden-segment server in this run
	nS := 1 + r.Choice("servers", 3)
	var serverIAs []addr.IA
	for k := 0; k < nS; k++ {
		ia := iaPool[(k+r.Choice("s.ia", len(iaPool)))%len(iaPool)]
		if !has(serverIAs, ia) {
			serverIAs = append(serverIAs, ia)
		}
	}
	// group configurations; most groups name at least one of the simulated servers as registry
	nG := 1 + r.Choice("groups", 4)
	var groups []*refGroup
	for g := 0; g < nG; g++ {
		owner := iaPool[r.Choice("g.owner", len(iaPool))]
		rg := &refGroup{id: hiddenpath.GroupID{OwnerAS: owner.AS(), Suffix: uint16(g + 1)}, owner: owner,
			writers: subset(r, "g.writers", true), readers: subset(r, "g.readers", false), registries: subset(r, "g.registries", true)}
		if r.Choice("g.regserver", 4) != 3 {
			if ia := serverIAs[r.Choice("g.regwhich", len(serverIAs))]; !has(rg.registries, ia) {
				rg.registries = append(rg.registries, ia)
			}
		}
		groups = append(groups, rg)
		r.Logf("group %v owner=%v writers=%v readers=%v registries=%v", rg.id, rg.owner, rg.writers, rg.readers, rg.registries)
	}
	unknownID := hiddenpath.GroupID{OwnerAS: iaPool[0].AS(), Suffix: 0x7777}
	var servers []*hpServer
	defer func() {
		for _, s := range servers {
			s.db.Close()
		}
	}()
	for _, ia := range serverIAs {
		l := newLoc(true, "h")
		b, err := psqlite.New(l.path, &db.SqliteConfig{InMemory: true, MaxOpenReadConns: 2})
		if err != nil {
			panic(core.InfraError{Msg: "open path db: " + err.Error()})
		}
		s := &hpServer{ia: ia, db: b, known: map[uint64]bool{}, m: newPathModel()}
		servers = append(servers, s)
		cfg := map[hiddenpath.GroupID]*hiddenpath.Group{}
		var names []string
		for _, g := range groups {
			if r.Choice("s.knows", 5) == 4 {
				continue // this server's configuration lacks the group
			}
			grp := &hiddenpath.Group{ID: g.id, Owner: g.owner, Writers: iaSet(g.writers), Readers: iaSet(g.readers),
				Registries: iaSet(g.registries)}
			if err := grp.Validate(); err != nil {
				panic(core.InfraError{Msg: "generated group invalid: " + err.Error()})
			}
			cfg[g.id] = grp
			s.known[g.id.ToUint64()] = true
			names = append(names, g.id.String())
		}
		store := &hiddenpath.Storer{DB: b}
		s.reg = hiddenpath.RegistryServer{Groups: cfg, DB: store, Verifier: hiddenpath.VerifierAdapter{Verifier: simVerifier{p}}, LocalIA: ia}
		s.auth = hiddenpath.AuthoritativeServer{Groups: cfg, DB: store, LocalIA: ia}
		r.Logf("server %v knows %v", ia, names)
	}
	peers := append(append([]addr.IA(nil), iaPool...), strangerIA)
	drawGroup := func(label string) (hiddenpath.GroupID, *refGroup) {
		k := r.Choice(label, len(groups)+1)
		if k == len(groups) {
			return unknownID, nil
		}
		return groups[k].id, groups[k]
	}
	ctx := context.Background()
	accepted, answeredNonEmpty := 0, 0
	nops := 8 + r.Choice("nops", 33)
	for i := 0; i < nops && !r.Failed(); i++ {
		s := servers[r.Choice("srv", len(servers))]
		switch op := r.Choice("op", 10); {
		case op < 4: // registration
			peer := peers[r.Choice("reg.peer", len(peers))]
			gid, g := drawGroup("reg.group")
			if g != nil && r.Choice("reg.plausible", 3) != 0 {
				// a writer of the group registers (everything else stays as drawn)
				peer = g.writers[r.Choice("reg.writer", len(g.writers))]
			}
			n := 1 + r.Choice("reg.n", 3)
			var metas []*seg.Meta
			var vers []*ver
			allDown, allGenuine := true, true
			var desc []string
			for k := 0; k < n; k++ {
				v := p.pickVer(r)
				t := seg.TypeDown
				if r.Choice("reg.type", 6) == 5 {
					t = []seg.Type{seg.TypeUp, seg.TypeCore}[r.Choice("reg.badtype", 2)]
					allDown = false
				}
				ps := v.seg
				d := fmt.Sprintf("%v:%v", v, t)
				if r.Choice("reg.tamper", 7) == 6 {
					ps = tamper(ps, r.Choice("reg.tamperat", len(ps.ASEntries)))
					allGenuine = false
					d += ":tampered"
				}
				metas = append(metas, &seg.Meta{Segment: ps, Type: t})
				vers = append(vers, v)
				desc = append(desc, d)
			}
			reason := "ok"
			switch {
			case g == nil || !s.known[gid.ToUint64()]:
				reason = "unknown-group"
			case !has(g.writers, peer):
				reason = "not-writer"
			case !has(g.registries, s.ia):
				reason = "not-registry"
			case !allDown:
				reason = "not-down"
			case !allGenuine:
				reason = "not-verifying"
			}
			err := s.reg.Register(ctx, hiddenpath.Registration{Segments: metas, GroupID: gid, Peer: &snet.SVCAddr{IA: peer, SVC: addr.SvcCS}})
			r.Logf("#%d register at %v by %v group %v segs %s: expect %s, err=%v", i, s.ia, peer, gid, strings.Join(desc, ","), reason, err != nil)
			r.Covered("hp.register:" + reason)
			if reason == "ok" {
				if err != nil {
					r.Fail("c45-register-refused", "register-refused", "registration at %v by writer %v for group %v (%s) satisfies every condition but was refused: %v",
						s.ia, peer, gid, strings.Join(desc, ","), errText(err))
					break
				}
				accepted++
				for _, v := range vers {
					s.m.insert(v, seg.TypeDown, []uint64{gid.ToUint64()})
				}
			} else if err == nil {
				r.Fail("c45-register-accepted", "register-accepted:"+reason, "registration at %v by %v for group %v (%s) was accepted although: %s",
					s.ia, peer, gid, strings.Join(desc, ","), reason)
				break
			}
			checkHiddenStore(r, s, p, "after registration ("+reason+")")
		case op < 5: // an ordinary (public) segment lands in the same database
			v := p.pickVer(r)
			t := typePool[r.Choice("pub.type", 3)]
			if _, err := s.db.Insert(ctx, &seg.Meta{Segment: v.seg, Type: t}); err != nil {
				r.Fail("c45-op-error", "op-error:Insert", "Insert failed: %v", errText(err))
				break
			}
			s.m.insert(v, t, []uint64{0})
			r.Logf("#%d public insert at %v %v type %v", i, s.ia, v, t)
		default: // request
			peer := peers[r.Choice("req.peer", len(peers))]
			n := 1 + r.Choice("req.n", 3)
			plausible := r.Choice("req.plausible", 3) != 0
			var ids []hiddenpath.GroupID
			reason := "ok"
			for k := 0; k < n; k++ {
				gid, g := drawGroup("req.group")
				if plausible && g != nil && k == 0 {
					// some member of the first group asks
					members := append(append(append([]addr.IA{g.owner}, g.writers...), g.readers...), g.registries...)
					peer = members[r.Choice("req.member", len(members))]
				}
				ids = append(ids, gid)
				if reason != "ok" {
					continue
				}
				switch {
				case g == nil || !s.known[gid.ToUint64()]:
					reason = "unknown-group"
				case !(g.owner == peer || has(g.writers, peer) || has(g.readers, peer) || has(g.registries, peer)):
					reason = "not-member"
				case !has(g.registries, s.ia):
					reason = "not-registry"
				}
			}
			dst := iaPool[r.Choice("req.dst", len(iaPool))]
			if stored := core.SortedKeys(s.m.segs); plausible && len(stored) > 0 {
				dst = s.m.segs[stored[r.Choice("req.dstseg", len(stored))]].v.shape.last()
			}
			res, err := s.auth.Segments(ctx, hiddenpath.SegmentRequest{GroupIDs: ids, DstIA: dst, Peer: peer})
			r.Logf("#%d request at %v by %v groups %v dst %v: expect %s, err=%v n=%d", i, s.ia, peer, ids, dst, reason, err != nil, len(res))
			r.Covered("hp.request:" + reason)
			var got []string
			for _, x := range res {
				v, ok := p.byKey[contentKey(x.Segment)]
				if !ok {
					got = append(got, "unknown-content:"+contentKey(x.Segment))
					continue
				}
				got = append(got, resKey(v, x.Type))
			}
			sort.Strings(got)
			if reason != "ok" {
				if err == nil || len(res) > 0 {
					r.Fail("c45-request-answered", "request-answered:"+reason, "request at %v by %v for groups %v dst %v was answered (err=%v, segments %v) although: %s",
						s.ia, peer, ids, dst, errText(err), got, reason)
				}
				break
			}
			if err != nil {
				r.Fail("c45-request-refused", "request-refused", "request at %v by member %v for groups %v dst %v satisfies every condition but was refused: %v",
					s.ia, peer, ids, dst, errText(err))
				break
			}
			must := map[string]bool{}
			for _, id := range core.SortedKeys(s.m.segs) {
				e := s.m.segs[id]
				if e.v.shape.last() != dst {
					continue
				}
				under := false
				for _, gid := range ids {
					under = under || e.groups[gid.ToUint64()]
				}
				if !under {
					continue
				}
				// segments registered under a hidden group are down segments; a public registration of
				// the same segment id may have added further types
				for _, t := range e.sortedTypes() {
					must[resKey(e.v, t)] = true
				}
			}
			if d := diffSets(got, must, nil); d != "" {
				r.Fail("c45-request-result", "request-result", "request at %v by %v for groups %v dst %v: %s\n got  %v\n want %v",
					s.ia, peer, ids, dst, d, got, sortedStrings(must))
				break
			}
			if len(got) > 0 {
				answeredNonEmpty++
			}
		}
	}
	r.SimNS = int64(time.Since(simEpoch))
	r.Nontrivial = accepted >= 1 && answeredNonEmpty >= 1
	r.Sample = map[string]any{"groups": nG, "servers": len(servers), "ops": nops, "accepted": accepted, "answered_nonempty": answeredNonEmpty}
}

// checkHiddenStore compares a server's complete database content (segments, types, groups) with
// the reference store.
func checkHiddenStore(r *core.Run, s *hpServer, p *pool, when string) {
	res, err := s.db.GetAll(context.Background())
	if err != nil {
		r.Fail("c45-op-error", "op-error:GetAll", "GetAll failed: %v", errText(err))
		return
	}
	var got []string
	for _, x := range res {
		v, ok := p.byKey[contentKey(x.Seg)]
		if !ok {
			got = append(got, "unknown-content:"+contentKey(x.Seg))
			continue
		}
		gs := append([]uint64(nil), x.HPGroupIDs...)
		sort.Slice(gs, func(i, j int) bool { return gs[i] < gs[j] })
		got = append(got, fmt.Sprintf("%s groups=%x", resKey(v, x.Type), gs))
	}
	must := map[string]bool{}
	for _, id := range core.SortedKeys(s.m.segs) {
		e := s.m.segs[id]
		for _, t := range e.sortedTypes() {
			must[fmt.Sprintf("%s groups=%x", resKey(e.v, t), e.sortedGroups())] = true
		}
	}
	if d := diffSets(got, must, nil); d != "" {
		sort.Strings(got)
		r.Fail("c45-store-mismatch", "hidden-store", "database of registry %v %s differs from the reference: %s\n got  %v\n want %v",
			s.ia, when, d, got, sortedStrings(must))
	}
}
