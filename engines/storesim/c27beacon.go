//go:build verif

package storesim

import (
	"bytes"
	"context"
	"fmt"
	"sort"
	"strings"
	"testing"
	"time"

	"github.com/scionproto/scion/control/beacon"
	"github.com/scionproto/scion/pkg/addr"
	storagebeacon "github.com/scionproto/scion/private/storage/beacon"
	bsqlite "github.com/scionproto/scion/private/storage/beacon/sqlite"
	"github.com/scionproto/scion/private/storage/db"
	"verif/sim/core"
)

// ---- reference model of the beacon store: segment id -> (version, usage, ingress interface) ----

type bEntry struct {
	v     *ver
	usage beacon.Usage
	inIf  uint16
}

func (e *bEntry) ident() string { return fmt.Sprintf("%v/%s in=%d", e.v, e.v.key, e.inIf) }
func (e *bEntry) String() string { return fmt.Sprintf("%s u=%d", e.ident(), int(e.usage)) }

type beaconWorld struct {
	r      *core.Run
	faults bool
	p      *pool
	loc    *loc
	db     *bsqlite.Backend
	m      map[string]*bEntry // upper-case hex segment id -> stored entry
	// highest info timestamp ever stored per segment id (for the older-after-delete probe)
	everMax  map[string]time.Time
	accepted int
	nonEmpty int
}

func runBeaconClean(r *core.Run)  { core.Bubble(r, func(t *testing.T) { runBeacon(r, false) }) }
func runBeaconFaulty(r *core.Run) { core.Bubble(r, func(t *testing.T) { runBeacon(r, true) }) }

func (w *beaconWorld) open() {
	b, err := bsqlite.New(w.loc.path, localIA, &db.SqliteConfig{InMemory: w.loc.mem, MaxOpenReadConns: 2})
	if err != nil {
		panic(core.InfraError{Msg: "open beacon db: " + err.Error()})
	}
	w.db = b
}

func runBeacon(r *core.Run, faults bool) {
	w := &beaconWorld{r: r, faults: faults, m: map[string]*bEntry{}, everMax: map[string]time.Time{}}
	mem := !faults && r.Choice("db.mem", 2) == 0
	w.p = newPool(r, 3+r.Choice("pool.shapes", 8), 4, true)
	w.loc = newLoc(mem, "b")
	defer w.loc.cleanup()
	w.open()
	defer func() { w.db.Close() }()
	// the simulated clock never sits on a whole second (all stored instants are whole or half seconds)
	time.Sleep(250 * time.Millisecond)
	r.Logf("beacon store mem=%v shapes=%d", mem, len(w.p.shapes))
	nops := 8 + r.Choice("nops", 33)
	for i := 0; i < nops && !r.Failed(); i++ {
		w.step(i)
	}
	if !r.Failed() {
		w.fullCheck("final")
	}
	r.SimNS = int64(time.Since(simEpoch))
	r.Nontrivial = w.accepted >= 2 && w.nonEmpty >= 1
	r.Sample = map[string]any{"shapes": len(w.p.shapes), "ops": nops, "accepted": w.accepted, "stored": len(w.m)}
}

func (w *beaconWorld) step(i int) {
	r := w.r
	n := 20
	if w.faults {
		n = 23
	}
	switch k := r.Choice("op", n); {
	case k < 8:
		w.opInsert(i)
	case k < 10:
		w.opCandidates(i)
	case k < 11:
		w.opSources(i)
	case k < 15:
		w.opGet(i)
	case k < 16:
		w.opDelete(i)
	case k < 18:
		w.opDeleteExpired(i)
	case k < 20:
		w.opClock(i)
	case k < 21:
		w.opClock(i)
	case k == 21:
		w.opRestart(i)
	default:
		w.opKill(i)
	}
}

// opFailed handles an operation error: tolerated only under an injected context fault.
func opFailed(r *core.Run, what string, err error, dead bool) {
	if dead {
		r.Logf("  %s failed under ctx fault", what)
		return
	}
	r.Fail("c27-op-error", "op-error:"+what, "%s failed without an injected fault: %v", what, errText(err))
}

func (w *beaconWorld) opInsert(i int) {
	r := w.r
	v := w.p.pickVer(r)
	usage := beacon.Usage(1 + r.Choice("ins.usage", 15))
	ctx, done, dead := opCtx(r, w.faults)
	defer done()
	id := v.shape.idHex
	old := w.m[id]
	class := "new"
	switch {
	case old == nil:
		if mx, ok := w.everMax[id]; ok {
			class = "new-after-delete"
			if v.infoTS.Before(mx) {
				r.Probe("older-after-delete")
			}
		}
	case v.infoTS.After(old.v.infoTS):
		class = "newer"
	case v.infoTS.Equal(old.v.infoTS):
		class = "equal"
	default:
		class = "older"
	}
	r.Logf("#%d insert %v info=%d usage=%d class=%s", i, v, v.infoTS.Unix(), int(usage), class)
	r.Covered("b.insert:" + class)
	st, err := w.db.InsertBeacon(ctx, beacon.Beacon{Segment: v.seg, InIfID: v.shape.inIf}, usage)
	if err != nil {
		opFailed(r, "InsertBeacon", err, dead)
		w.segCheck(v.shape, "after failed insert")
		return
	}
	wantIns, wantUpd := 0, 0
	switch class {
	case "new", "new-after-delete":
		w.m[id] = &bEntry{v, usage, v.shape.inIf}
		wantIns = 1
	case "newer":
		if !old.v.expiry.Equal(v.expiry) {
			r.Probe("update-changes-expiry")
		}
		if old.usage != usage {
			r.Probe("update-changes-usage")
		}
		w.m[id] = &bEntry{v, usage, v.shape.inIf}
		wantUpd = 1
	}
	if wantIns+wantUpd > 0 {
		w.accepted++
		if mx, ok := w.everMax[id]; !ok || v.infoTS.After(mx) {
			w.everMax[id] = v.infoTS
		}
	}
	if st.Inserted != wantIns || st.Updated != wantUpd {
		r.Fail("c27-insert-stats", "beacon-insert-stats:"+class,
			"InsertBeacon(%v, class %s) reported inserted=%d updated=%d, reference says inserted=%d updated=%d",
			v, class, st.Inserted, st.Updated, wantIns, wantUpd)
		return
	}
	w.segCheck(v.shape, "after insert")
}

// segCheck looks the one segment id up and compares it with the reference (the complete content is
// compared after deletions, clean-ups, faults and at the end).
func (w *beaconWorld) segCheck(sh *shape, when string) {
	r := w.r
	if r.Failed() {
		return
	}
	res, err := w.db.GetBeacons(context.Background(), &storagebeacon.QueryParams{SegIDs: [][]byte{sh.id}})
	if err != nil {
		r.Fail("c27-op-error", "op-error:GetBeacons", "GetBeacons failed: %v", errText(err))
		return
	}
	var got []string
	for _, b := range res {
		got = append(got, w.entryOf(b.Beacon, b.Usage))
	}
	must := map[string]bool{}
	if e := w.m[sh.idHex]; e != nil {
		must[e.String()] = true
	}
	if d := diffSets(got, must, nil); d != "" {
		r.Fail("c27-state-mismatch", "beacon-state", "stored entry of beacon s%d %s differs from the reference: %s\n got  %v\n want %v",
			sh.idx, when, d, got, sortedStrings(must))
	}
}

// entryOf identifies a returned beacon with a pool version.
func (w *beaconWorld) entryOf(b beacon.Beacon, usage beacon.Usage) string {
	v, ok := w.p.byKey[contentKey(b.Segment)]
	if !ok {
		return "unknown-content:" + contentKey(b.Segment)
	}
	return (&bEntry{v, usage, b.InIfID}).String()
}

// fullCheck compares the complete store content with the reference map.
func (w *beaconWorld) fullCheck(when string) {
	r := w.r
	if r.Failed() {
		return
	}
	res, err := w.db.GetBeacons(context.Background(), nil)
	if err != nil {
		r.Fail("c27-op-error", "op-error:GetBeacons", "GetBeacons(nil) failed: %v", errText(err))
		return
	}
	var got []string
	for _, b := range res {
		got = append(got, w.entryOf(b.Beacon, b.Usage))
	}
	must := map[string]bool{}
	for _, id := range core.SortedKeys(w.m) {
		must[w.m[id].String()] = true
	}
	if d := diffSets(got, must, nil); d != "" {
		sort.Strings(got)
		r.Fail("c27-state-mismatch", "beacon-state", "beacon store content differs from the reference %s: %s\n got  %v\n want %v",
			when, d, got, sortedStrings(must))
	}
}

func (w *beaconWorld) opCandidates(i int) {
	r := w.r
	setSize := r.Choice("cand.size", 7)
	usage := beacon.Usage(1 << r.Choice("cand.usage", 4))
	var src addr.IA
	if r.Choice("cand.src", 2) == 1 {
		src = iaPool[r.Choice("cand.srcia", len(iaPool))]
	}
	ctx, done, dead := opCtx(r, w.faults)
	defer done()
	res, err := w.db.CandidateBeacons(ctx, setSize, usage, src)
	r.Logf("#%d candidates size=%d usage=%d src=%v -> %d err=%v", i, setSize, int(usage), src, len(res), err != nil)
	if err != nil {
		opFailed(r, "CandidateBeacons", err, dead)
		return
	}
	match := map[string]bool{}
	var lens []int
	for _, id := range core.SortedKeys(w.m) {
		e := w.m[id]
		if e.usage&usage == usage && (src.IsZero() || e.v.shape.first() == src) {
			match[e.ident()] = true
			lens = append(lens, len(e.v.shape.ents))
		}
	}
	sort.Ints(lens)
	want := min(setSize, len(lens))
	if len(res) != want {
		r.Fail("c27-candidates", "cand-count", "CandidateBeacons(size %d, usage %d, src %v) returned %d beacons, %d stored beacons match",
			setSize, int(usage), src, len(res), len(lens))
		return
	}
	seen := map[string]bool{}
	for k, b := range res {
		e := "unknown-content:" + contentKey(b.Segment)
		if v, ok := w.p.byKey[contentKey(b.Segment)]; ok {
			e = (&bEntry{v: v, inIf: b.InIfID}).ident()
		}
		if !match[e] || seen[e] {
			r.Fail("c27-candidates", "cand-member", "CandidateBeacons returned %s which is not a (distinct) stored beacon matching usage %d src %v; matching: %v",
				e, int(usage), src, sortedStrings(match))
			return
		}
		seen[e] = true
		if l := len(b.Segment.ASEntries); l != lens[k] {
			r.Fail("c27-candidates", "cand-order", "candidate %d has %d hops; the %d shortest matching beacons in non-decreasing order have lengths %v",
				k, l, want, lens[:want])
			return
		}
	}
	if want < len(lens) {
		r.Probe("cand-truncated")
	}
	if want > 1 {
		w.nonEmpty++
	}
	r.Covered(fmt.Sprintf("b.cand:trunc=%v,src=%v", want < len(lens), !src.IsZero()))
}

func (w *beaconWorld) opSources(i int) {
	r := w.r
	ctx, done, dead := opCtx(r, w.faults)
	defer done()
	res, err := w.db.BeaconSources(ctx)
	r.Logf("#%d sources -> %d err=%v", i, len(res), err != nil)
	if err != nil {
		opFailed(r, "BeaconSources", err, dead)
		return
	}
	must := map[string]bool{}
	for _, id := range core.SortedKeys(w.m) {
		must[w.m[id].v.shape.first().String()] = true
	}
	var got []string
	for _, ia := range res {
		got = append(got, ia.String())
	}
	if d := diffSets(got, must, nil); d != "" {
		r.Fail("c27-sources", "beacon-sources", "BeaconSources returned %v, stored beacons start at %v (%s)", got, sortedStrings(must), d)
	}
}

func (w *beaconWorld) opGet(i int) {
	r := w.r
	q := &storagebeacon.QueryParams{}
	mask := 0
	var desc []string
	if r.Chance("get.segids", 1, 3) {
		mask |= 1
		for k := 0; k <= r.Choice("get.nseg", 2); k++ {
			sh := w.p.shapes[r.Choice("get.segshape", len(w.p.shapes))]
			l := []int{1, 2, 4, 32}[r.Choice("get.seglen", 4)]
			q.SegIDs = append(q.SegIDs, append([]byte(nil), sh.id[:l]...))
		}
		desc = append(desc, fmt.Sprintf("segids=%x", q.SegIDs))
	}
	if r.Chance("get.starts", 1, 3) {
		mask |= 2
		if r.Choice("get.startzero", 6) == 5 {
			q.StartsAt = []addr.IA{0}
		} else {
			for k := 0; k <= r.Choice("get.nstart", 2); k++ {
				ia := iaPool[r.Choice("get.startia", len(iaPool))]
				switch r.Choice("get.startwild", 4) {
				case 2:
					ia = addr.MustIAFrom(ia.ISD(), 0)
				case 3:
					ia = addr.MustIAFrom(0, ia.AS())
				}
				q.StartsAt = append(q.StartsAt, ia)
			}
		}
		desc = append(desc, fmt.Sprintf("starts=%v", q.StartsAt))
	}
	if r.Chance("get.ingress", 1, 3) {
		mask |= 4
		for k := 0; k <= r.Choice("get.ningress", 2); k++ {
			q.IngressInterfaces = append(q.IngressInterfaces, uint16(1+r.Choice("get.ingressid", 4)))
		}
		desc = append(desc, fmt.Sprintf("ingress=%v", q.IngressInterfaces))
	}
	if r.Chance("get.usages", 1, 3) {
		mask |= 8
		for k := 0; k <= r.Choice("get.nusage", 2); k++ {
			q.Usages = append(q.Usages, beacon.Usage(1+r.Choice("get.usage", 15)))
		}
		desc = append(desc, fmt.Sprintf("usages=%v", q.Usages))
	}
	if r.Chance("get.validat", 1, 3) {
		mask |= 16
		v := w.p.pickVer(r)
		base := v.infoTS
		if r.Choice("get.validend", 2) == 1 {
			base = v.expiry
		}
		offs := []time.Duration{-2 * time.Second, 2 * time.Second, 0, 500 * time.Millisecond, -90 * time.Minute, 90 * time.Minute}
		q.ValidAt = base.Add(offs[r.Choice("get.validoff", len(offs))])
		desc = append(desc, fmt.Sprintf("validat=%d.%03d", q.ValidAt.Unix(), q.ValidAt.Nanosecond()/1e6))
	}
	ctx, done, dead := opCtx(r, w.faults)
	defer done()
	res, err := w.db.GetBeacons(ctx, q)
	r.Logf("#%d get %s -> %d err=%v", i, strings.Join(desc, " "), len(res), err != nil)
	if err != nil {
		opFailed(r, "GetBeacons", err, dead)
		return
	}
	must, may := map[string]bool{}, map[string]bool{}
	for _, id := range core.SortedKeys(w.m) {
		e := w.m[id]
		ok, dontcare := w.matchBeacon(e, q)
		if dontcare {
			may[e.String()] = true
			r.Probe("validat-boundary-dontcare")
		} else if ok {
			must[e.String()] = true
		}
	}
	var got []string
	for _, b := range res {
		got = append(got, w.entryOf(b.Beacon, b.Usage))
	}
	if d := diffSets(got, must, may); d != "" {
		sort.Strings(got)
		r.Fail("c27-query-mismatch", fmt.Sprintf("beacon-query:%d", mask),
			"GetBeacons(%s): %s\n got  %v\n must %v\n may  %v", strings.Join(desc, " "), d, got, sortedStrings(must), sortedStrings(may))
		return
	}
	if len(got) > 0 && mask != 0 {
		w.nonEmpty++
	}
	r.Covered(fmt.Sprintf("b.get:mask=%d,hit=%v", mask, len(got) > 0))
}

// matchBeacon: does the stored entry match every filter of the query (written from the documented
// meaning of QueryParams)? dontcare is set when the answer hinges on an instant within one second
// (the resolution of segment timestamps) of the validity boundaries.
func (w *beaconWorld) matchBeacon(e *bEntry, q *storagebeacon.QueryParams) (ok, dontcare bool) {
	if len(q.SegIDs) > 0 {
		hit := false
		for _, p := range q.SegIDs {
			hit = hit || bytes.HasPrefix(e.v.shape.id, p)
		}
		if !hit {
			return false, false
		}
	}
	if len(q.StartsAt) > 0 {
		hit := false
		for _, f := range q.StartsAt {
			hit = hit || iaMatch(f, e.v.shape.first())
		}
		if !hit {
			return false, false
		}
	}
	if len(q.IngressInterfaces) > 0 {
		hit := false
		for _, f := range q.IngressInterfaces {
			hit = hit || f == e.inIf
		}
		if !hit {
			return false, false
		}
	}
	if len(q.Usages) > 0 {
		hit := false
		for _, u := range q.Usages {
			hit = hit || e.usage&u == u
		}
		if !hit {
			return false, false
		}
	}
	if !q.ValidAt.IsZero() {
		t := q.ValidAt
		if absDur(t.Sub(e.v.infoTS)) < time.Second || absDur(t.Sub(e.v.expiry)) < time.Second {
			return false, true
		}
		if t.Before(e.v.infoTS) || t.After(e.v.expiry) {
			return false, false
		}
	}
	return true, false
}

func (w *beaconWorld) opDelete(i int) {
	r := w.r
	sh := w.p.shapes[r.Choice("del.shape", len(w.p.shapes))]
	l := []int{64, 64, 1, 2, 3, 0}[r.Choice("del.len", 6)]
	prefix := sh.idHex[:l]
	if r.Choice("del.lower", 2) == 1 {
		prefix = strings.ToLower(prefix)
	}
	ctx, done, dead := opCtx(r, w.faults)
	defer done()
	err := w.db.DeleteBeacon(ctx, prefix)
	r.Logf("#%d delete prefix=%q err=%v", i, prefix, err != nil)
	if err != nil {
		opFailed(r, "DeleteBeacon", err, dead)
		w.fullCheck("after failed delete")
		return
	}
	n := 0
	for _, id := range core.SortedKeys(w.m) {
		if strings.HasPrefix(id, strings.ToUpper(prefix)) {
			delete(w.m, id)
			n++
		}
	}
	r.Covered(fmt.Sprintf("b.delete:len=%d,n=%d", l, min(n, 2)))
	w.fullCheck("after delete")
}

// cleanupInstant returns now shifted forward until no stored expiry lies within a second of it.
func cleanupInstant(now time.Time, expiries []time.Time) time.Time {
	for tries := 0; tries < 100; tries++ {
		clash := false
		for _, e := range expiries {
			if absDur(now.Sub(e)) < time.Second {
				clash = true
			}
		}
		if !clash {
			return now
		}
		now = now.Add(time.Second)
	}
	return now
}

func (w *beaconWorld) opDeleteExpired(i int) {
	r := w.r
	now := time.Now()
	if r.Choice("exp.arbitrary", 3) == 2 {
		// an explicit reference instant near some version's expiry
		now = w.p.pickVer(r).expiry.Add(time.Duration(r.Choice("exp.off", 5)-2) * 1500 * time.Millisecond)
	}
	var exps []time.Time
	for _, id := range core.SortedKeys(w.m) {
		exps = append(exps, w.m[id].v.expiry)
	}
	now = cleanupInstant(now, exps)
	ctx, done, dead := opCtx(r, w.faults)
	defer done()
	n, err := w.db.DeleteExpiredBeacons(ctx, now)
	r.Logf("#%d delete-expired now=%d.%03d -> %d err=%v", i, now.Unix(), now.Nanosecond()/1e6, n, err != nil)
	if err != nil {
		opFailed(r, "DeleteExpiredBeacons", err, dead)
		w.fullCheck("after failed clean-up")
		return
	}
	want := 0
	for _, id := range core.SortedKeys(w.m) {
		if w.m[id].v.expiry.Before(now) {
			delete(w.m, id)
			want++
		}
	}
	if want > 0 {
		r.Probe("cleanup-removed")
		if len(w.m) > 0 {
			r.Probe("cleanup-partial")
		}
	}
	if n != want {
		r.Fail("c27-cleanup", "beacon-cleanup-count", "DeleteExpiredBeacons(%v) removed %d beacons, %d stored beacons were expired", now.UTC(), n, want)
		return
	}
	w.fullCheck("after clean-up")
}

func (w *beaconWorld) opClock(i int) {
	r := w.r
	d := []time.Duration{time.Second, 7 * time.Second, 6 * time.Minute, 25 * time.Minute, 100 * time.Minute, 7 * time.Hour}[r.Choice("clock.d", 6)]
	if w.faults && d >= 25*time.Minute {
		r.Fault("clock.jump")
	}
	time.Sleep(d)
	r.Logf("#%d clock +%v", i, d)
}

func (w *beaconWorld) opRestart(i int) {
	r := w.r
	r.Fault("db.restart")
	r.Logf("#%d restart", i)
	if err := w.db.Close(); err != nil {
		r.Fail("c27-op-error", "op-error:Close", "Close failed: %v", errText(err))
	}
	w.open()
	w.fullCheck("after restart")
}

func (w *beaconWorld) opKill(i int) {
	r := w.r
	r.Fault("db.kill")
	shm := r.Choice("kill.shm", 2) == 1
	r.Logf("#%d kill shm=%v", i, shm)
	w.loc.killCopy(shm)
	w.db.Close() // the killed process: whatever it does now happens to the old files
	w.open()
	w.fullCheck("after kill")
}
