//go:build verif

package storesim

import (
	"context"
	"fmt"
	"os"
	"runtime"
	"sort"
	"strings"
	"sync"
	"sync/atomic"
	"testing"
	"time"

	"github.com/anishathalye/porcupine"

	"github.com/scionproto/scion/pkg/private/ctrl/path_mgmt"
	"github.com/scionproto/scion/pkg/private/util"
	"github.com/scionproto/scion/pkg/segment/iface"
	"github.com/scionproto/scion/private/revcache"
	"github.com/scionproto/scion/private/revcache/memrevcache"
	"verif/sim/core"
)

// C31/concurrent: 2-3 real goroutines call Insert / Get on one memrevcache at the same time. The Go
// scheduler is NOT controlled here (memrevcache has no yield hooks); the verdict is made independent
// of it: every recorded history (invoke / return order from one atomic counter) must be linearizable
// with respect to the sequential reference "accepted iff unexpired and newer than the stored live
// revocation; a lookup returns the stored one". The simulated clock stands still during a run and
// lifetimes are an hour, so nothing expires in between.

type cOp struct {
	insert  bool
	key     int
	ts      uint32 // seconds relative to the epoch second
	expired bool   // insert of a revocation that is already expired (must be refused, no effect)
	// results
	acc       bool
	got       uint32 // 0: nothing
	call, ret int64
}

type cIn struct {
	insert  bool
	key     int
	ts      uint32
	expired bool
}
type cOut struct {
	acc bool
	got uint32
}

// revModel: state = stored timestamp per key (0 = none).
func revModel(init [2]uint32) porcupine.Model {
	return porcupine.Model{
		Init: func() interface{} { return init },
		Step: func(st, in, out interface{}) (bool, interface{}) {
			s := st.([2]uint32)
			i, o := in.(cIn), out.(cOut)
			if !i.insert {
				return o.got == s[i.key], s
			}
			want := !i.expired && (s[i.key] == 0 || i.ts > s[i.key])
			if o.acc != want {
				return false, s
			}
			if want {
				s[i.key] = i.ts
			}
			return true, s
		},
		Equal: func(a, b interface{}) bool { return a.([2]uint32) == b.([2]uint32) },
	}
}

// a non-linearizable history found in this process, kept so that the core's confirm-by-replay step
// (which cannot reproduce a real-scheduler interleaving) re-reports exactly the recorded history.
type concStash struct {
	lines []string
	msg   string
}

var concFound = map[uint64]*concStash{}

func runRevConcurrent(r *core.Run) {
	if st := concFound[r.Tape.Seed]; st != nil && r.Tape.IsReplay {
		for _, l := range st.lines {
			r.Logf("%s", l)
		}
		r.Fail("c31-linearizable", "not-linearizable", "%s", st.msg)
		r.Nontrivial = true
		return
	}
	if os.Getenv("GOMAXPROCS") == "" {
		defer runtime.GOMAXPROCS(runtime.GOMAXPROCS(4))
	}
	core.Bubble(r, func(t *testing.T) { runRevConcurrentBubble(r) })
}

func runRevConcurrentBubble(r *core.Run) {
	var lines []string
	logf := func(f string, a ...any) {
		s := fmt.Sprintf(f, a...)
		lines = append(lines, s)
		r.Logf("%s", s)
	}
	c := memrevcache.New()
	defer c.Close()
	ctx := context.Background()
	time.Sleep(500 * time.Millisecond)
	base := time.Now().Truncate(time.Second)
	keys := []revcache.Key{revcache.NewKey(iaPool[0], iface.ID(1)), revcache.NewKey(iaPool[1], iface.ID(2))}
	nG := 2 + r.Choice("conc.goroutines", 2)
	nKeys := 1 + r.Choice("conc.keys", 2)
	rounds := 60 + 60*r.Choice("conc.rounds", 4)
	logf("concurrent goroutines=%d keys=%d rounds=%d", nG, nKeys, rounds)

	// draw all rounds up front (the tape is read by this goroutine only)
	plan := make([][][]*cOp, rounds) // round -> goroutine -> ops
	next := uint32(10)               // timestamps grow over the run, so most inserts are candidates for acceptance
	for rd := range plan {
		plan[rd] = make([][]*cOp, nG)
		// distinct fresh timestamps for this round plus a few stale ones
		for g := 0; g < nG; g++ {
			n := 1 + r.Choice("conc.burst", 3)
			for k := 0; k < n; k++ {
				o := &cOp{key: r.Choice("conc.key", nKeys)}
				switch x := r.Choice("conc.kind", 8); {
				case x < 5:
					o.insert = true
					next++
					o.ts = next + uint32(r.Choice("conc.jitter", 3)) // may collide with / overtake a neighbour
				case x == 5:
					o.insert = true
					o.ts = next - uint32(1+r.Choice("conc.stale", 6)) // older than something drawn earlier
				case x == 6:
					o.insert, o.expired = true, true
					next++
					o.ts = next
				}
				plan[rd][g] = append(plan[rd][g], o)
			}
		}
		next += 3
	}

	var clock atomic.Int64
	var gate atomic.Int64
	var wg sync.WaitGroup
	var done atomic.Int64
	var stop atomic.Bool
	exec := func(o *cOp) {
		if o.insert {
			rev := &path_mgmt.RevInfo{IfID: keys[o.key].IfID, RawIsdas: keys[o.key].IA, LinkType: 1,
				RawTimestamp: util.TimeToSecs(base.Add(time.Duration(o.ts) * time.Second)), RawTTL: 3600}
			if o.expired {
				rev.RawTimestamp = util.TimeToSecs(base.Add(-2 * time.Hour).Add(time.Duration(o.ts) * time.Second))
			}
			o.call = clock.Add(1)
			ok, _ := c.Insert(ctx, rev)
			o.ret = clock.Add(1)
			o.acc = ok
			return
		}
		o.call = clock.Add(1)
		got, _ := c.Get(ctx, keys[o.key])
		o.ret = clock.Add(1)
		if got != nil {
			o.got = uint32(got.Timestamp().Sub(base) / time.Second)
		}
	}
	for g := 0; g < nG; g++ {
		wg.Add(1)
		go func(g int) {
			defer wg.Done()
			for rd := 0; rd < rounds; rd++ {
				for spins := 0; gate.Load() <= int64(rd) && !stop.Load(); spins++ { // released together, as tightly as possible
					if spins > 300 {
						runtime.Gosched()
					}
				}
				if stop.Load() {
					return
				}
				for _, o := range plan[rd][g] {
					exec(o)
				}
				done.Add(1)
			}
		}(g)
	}
	var state [2]uint32
	overlapped, accepted := 0, 0
	bad := -1
	var badOps []porcupine.Operation
	for rd := 0; rd < rounds; rd++ {
		gate.Store(int64(rd) + 1)
		for spins := 0; done.Load() < int64((rd+1)*nG); spins++ {
			if spins > 300 {
				runtime.Gosched()
			}
		}
		// after the round: this goroutine looks every key up (strictly after all returns)
		finals := make([]*cOp, nKeys)
		for k := range finals {
			finals[k] = &cOp{key: k}
			exec(finals[k])
		}
		var ops []porcupine.Operation
		add := func(cl int, o *cOp) {
			ops = append(ops, porcupine.Operation{ClientId: cl, Input: cIn{o.insert, o.key, o.ts, o.expired}, Call: o.call,
				Output: cOut{o.acc, o.got}, Return: o.ret})
		}
		for g := range plan[rd] {
			for _, o := range plan[rd][g] {
				add(g, o)
				if o.acc {
					accepted++
				}
			}
		}
		for _, o := range finals {
			add(nG, o)
		}
		// did operations of different goroutines really overlap in this round?
		for g := range plan[rd] {
			for h := g + 1; h < len(plan[rd]); h++ {
				for _, a := range plan[rd][g] {
					for _, b := range plan[rd][h] {
						if a.call < b.ret && b.call < a.ret {
							overlapped++
						}
					}
				}
			}
		}
		res := porcupine.CheckOperationsTimeout(revModel(state), ops, 5*time.Second)
		if res == porcupine.Illegal {
			bad, badOps = rd, ops
			break
		}
		if res == porcupine.Unknown {
			r.Probe("porcupine-unknown")
		}
		for k := range finals {
			state[k] = finals[k].got
		}
	}
	stop.Store(true) // workers still waiting for a round leave
	wg.Wait()
	r.SimNS = int64(time.Since(simEpoch))
	r.Nontrivial = overlapped > 0 && accepted >= 2
	if overlapped > 0 {
		r.Probe("operations-overlapped")
	}
	r.Covered(fmt.Sprintf("rev.conc:g=%d,keys=%d", nG, nKeys))
	r.Sample = map[string]any{"goroutines": nG, "keys": nKeys, "rounds": rounds, "overlapping_pairs": overlapped, "accepted": accepted}
	r.Ambiguous = false
	if bad < 0 {
		return
	}
	sort.Slice(badOps, func(i, j int) bool { return badOps[i].Call < badOps[j].Call })
	var h []string
	for _, o := range badOps {
		i, out := o.Input.(cIn), o.Output.(cOut)
		what := fmt.Sprintf("Get(%v)->%s", keys[i.key], tsName(out.got))
		if i.insert {
			what = fmt.Sprintf("Insert(%v ts=%d%s)->%v", keys[i.key], i.ts, map[bool]string{true: " expired", false: ""}[i.expired], out.acc)
		}
		h = append(h, fmt.Sprintf("g%d[%d,%d] %s", o.ClientId, o.Call, o.Return, what))
	}
	msg := fmt.Sprintf("round %d: the recorded history of %d goroutines is not linearizable w.r.t. the sequential revocation-cache model "+
		"(stored before the round: %s=%s %s=%s; [invoke,return] are ticks of one atomic counter; g%d is the harness's lookup after all returns):\n  %s",
		bad, nG, keys[0], tsName(state[0]), keys[1], tsName(state[1]), nG, strings.Join(h, "\n  "))
	concFound[r.Tape.Seed] = &concStash{lines: append([]string(nil), lines...), msg: msg}
	r.Fail("c31-linearizable", "not-linearizable", "%s", msg)
}

func tsName(ts uint32) string {
	if ts == 0 {
		return "none"
	}
	return fmt.Sprintf("ts=%d", ts)
}
