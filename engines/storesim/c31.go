//go:build verif

package storesim

import (
	"context"
	"fmt"
	"sort"
	"testing"
	"time"

	"github.com/scionproto/scion/pkg/private/ctrl/path_mgmt"
	"github.com/scionproto/scion/pkg/private/util"
	"github.com/scionproto/scion/pkg/segment/iface"
	"github.com/scionproto/scion/private/revcache"
	"github.com/scionproto/scion/private/revcache/memrevcache"
	"verif/sim/core"
)

// refRev is what the reference keeps per interface: the last accepted revocation. It is "live"
// while now < expiry; an entry that is no longer live counts as absent.
type refRev struct {
	ts, exp time.Time
	ttl     uint32
	cleaned bool // physically removed by a clean-up (only matters for the clean-up count)
}

func (e *refRev) String() string {
	if e == nil {
		return "none"
	}
	return fmt.Sprintf("ts=%d ttl=%d (expires %v)", e.ts.Unix(), e.ttl, e.exp.UTC().Format(time.RFC3339))
}

func runRevCache(r *core.Run) { core.Bubble(r, func(t *testing.T) { runRev(r) }) }

func revString(x *path_mgmt.RevInfo) string {
	if x == nil {
		return "none"
	}
	return fmt.Sprintf("%v#%d ts=%d ttl=%d", x.RawIsdas, x.IfID, x.RawTimestamp, x.RawTTL)
}

func runRev(r *core.Run) {
	c := memrevcache.New()
	defer c.Close()
	ctx := context.Background()
	// the clock never sits on a whole second, revocation timestamps and lifetimes are whole seconds:
	// no instant of the run coincides with an expiry (those instants are don't-care)
	time.Sleep(500 * time.Millisecond)
	nKeys := 1 + r.Choice("keys", 4)
	keys := make([]revcache.Key, nKeys)
	for i := range keys {
		keys[i] = revcache.NewKey(iaPool[i%2], iface.ID(1+i/2))
	}
	ref := map[int]*refRev{}
	nops := 6 + r.Choice("nops", 45)
	accepted, liveGets, replaced := 0, 0, 0
	live := func(k int) *refRev {
		if e := ref[k]; e != nil && time.Now().Before(e.exp) {
			return e
		}
		return nil
	}
	checkGet := func(i, k int, why string) bool {
		got, err := c.Get(ctx, keys[k])
		if err != nil {
			r.Fail("c31-op-error", "op-error:Get", "Get failed: %v", err)
			return false
		}
		e := live(k)
		switch {
		case e == nil && got != nil:
			sig := "get-expired"
			if ref[k] == nil {
				sig = "get-never-accepted"
			}
			r.Fail("c31-get", sig, "%s: Get(%v) at %v returned %s; the reference holds no live revocation for that interface (last accepted: %v)",
				why, keys[k], time.Now().UTC(), revString(got), ref[k])
			return false
		case e != nil && got == nil:
			r.Fail("c31-get", "get-lost", "%s: Get(%v) at %v returned nothing; accepted revocation ts=%d ttl=%d is live until %v",
				why, keys[k], time.Now().UTC(), e.ts.Unix(), e.ttl, e.exp.UTC())
			return false
		case e != nil:
			if !got.Timestamp().Equal(e.ts) || got.RawTTL != e.ttl || got.IfID != keys[k].IfID || got.RawIsdas != keys[k].IA {
				r.Fail("c31-get", "get-wrong", "%s: Get(%v) returned %s; the accepted live revocation is ts=%d ttl=%d",
					why, keys[k], revString(got), e.ts.Unix(), e.ttl)
				return false
			}
			liveGets++
		}
		return true
	}
	for i := 0; i < nops && !r.Failed(); i++ {
		switch op := r.Choice("op", 10); {
		case op < 4: // insert
			k := r.Choice("ins.key", nKeys)
			now := time.Now()
			// timestamp relative to now: past, present, future; lifetime short or long
			offs := []int{0, -3, -20, -120, 5, 60, -1, 1}
			ts := now.Truncate(time.Second).Add(time.Duration(offs[r.Choice("ins.off", len(offs))]) * time.Second)
			ttl := uint32([]int{10, 1, 4, 30, 100, 3600}[r.Choice("ins.ttl", 6)])
			rev := &path_mgmt.RevInfo{IfID: keys[k].IfID, RawIsdas: keys[k].IA, LinkType: 1,
				RawTimestamp: util.TimeToSecs(ts), RawTTL: ttl}
			exp := ts.Add(time.Duration(ttl) * time.Second)
			cur := live(k)
			want := now.Before(exp) && (cur == nil || ts.After(cur.ts))
			class := "fresh"
			switch {
			case !now.Before(exp):
				class = "expired"
			case cur == nil && ref[k] != nil:
				class = "over-dead"
			case cur != nil && ts.After(cur.ts):
				class = "newer"
			case cur != nil && ts.Equal(cur.ts):
				class = "equal"
			case cur != nil:
				class = "older"
			}
			ok, err := c.Insert(ctx, rev)
			r.Logf("#%d insert %s class=%s -> %v", i, revString(rev), class, ok)
			r.Covered("rev.insert:" + class)
			if err != nil {
				r.Fail("c31-op-error", "op-error:Insert", "Insert failed: %v", err)
				return
			}
			if ok != want {
				r.Fail("c31-accept", "accept:"+class, "Insert(%s) at %v returned %v; reference: unexpired=%v, live stored revocation: %v => accepted=%v",
					revString(rev), now.UTC(), ok, now.Before(exp), cur, want)
				return
			}
			if want {
				accepted++
				if cur != nil {
					replaced++
					if exp.Before(cur.exp) {
						r.Probe("newer-expires-earlier")
					} else if exp.After(cur.exp) {
						r.Probe("newer-expires-later")
					}
				}
				ref[k] = &refRev{ts: ts, exp: exp, ttl: ttl}
			}
			if !checkGet(i, k, "after insert") {
				return
			}
		case op < 7: // lookup
			k := r.Choice("get.key", nKeys)
			r.Logf("#%d get %v live=%v", i, keys[k], live(k) != nil)
			if !checkGet(i, k, "lookup") {
				return
			}
		case op < 8: // clean-up
			n, err := c.DeleteExpired(ctx)
			if err != nil {
				r.Fail("c31-op-error", "op-error:DeleteExpired", "DeleteExpired failed: %v", err)
				return
			}
			want := int64(0)
			for k := 0; k < nKeys; k++ {
				if e := ref[k]; e != nil && !e.cleaned && !time.Now().Before(e.exp) {
					e.cleaned = true
					want++
				}
			}
			r.Logf("#%d delete-expired -> %d", i, n)
			if want > 0 {
				r.Probe("cleanup-removed")
			}
			if n != want {
				r.Fail("c31-cleanup", "cleanup-count", "DeleteExpired at %v removed %d entries; %d accepted revocations had expired and were still stored",
					time.Now().UTC(), n, want)
				return
			}
			for k := 0; k < nKeys; k++ {
				if !checkGet(i, k, "after clean-up") {
					return
				}
			}
		case op < 9: // all live revocations
			ch, err := c.GetAll(ctx)
			if err != nil {
				r.Fail("c31-op-error", "op-error:GetAll", "GetAll failed: %v", err)
				return
			}
			var got []string
			for x := range ch {
				if x.Err != nil {
					r.Fail("c31-op-error", "op-error:GetAll", "GetAll element error: %v", x.Err)
					return
				}
				got = append(got, revString(x.Rev))
			}
			sort.Strings(got)
			must := map[string]bool{}
			for k := 0; k < nKeys; k++ {
				if e := live(k); e != nil {
					must[fmt.Sprintf("%v#%d ts=%d ttl=%d", keys[k].IA, keys[k].IfID, e.ts.Unix(), e.ttl)] = true
				}
			}
			r.Logf("#%d get-all -> %d", i, len(got))
			if d := diffSets(got, must, nil); d != "" {
				r.Fail("c31-get", "getall", "GetAll at %v: %s\n got  %v\n live %v", time.Now().UTC(), d, got, sortedStrings(must))
				return
			}
		default: // clock
			d := []time.Duration{time.Second, 2 * time.Second, 5 * time.Second, 13 * time.Second, 40 * time.Second, 5 * time.Minute, 2 * time.Hour}[r.Choice("clock.d", 7)]
			time.Sleep(d)
			r.Logf("#%d clock +%v", i, d)
			// every expiry crossed is a state change: look at all interfaces right after
			for k := 0; k < nKeys; k++ {
				if !checkGet(i, k, "after clock advance") {
					return
				}
			}
		}
	}
	r.SimNS = int64(time.Since(simEpoch))
	r.Nontrivial = accepted >= 2 && liveGets >= 1
	r.Sample = map[string]any{"keys": nKeys, "ops": nops, "accepted": accepted, "replaced": replaced}
}
