//go:build verif

package beaconsim

import (
	"crypto"
	"crypto/elliptic"
	"encoding/asn1"
	"fmt"
	"math/big"
	"time"

	"google.golang.org/protobuf/proto"
	"google.golang.org/protobuf/types/known/timestamppb"

	"github.com/scionproto/scion/pkg/addr"
	cppb "github.com/scionproto/scion/pkg/proto/control_plane"
	cryptopb "github.com/scionproto/scion/pkg/proto/crypto"
	"github.com/scionproto/scion/private/topology"
	"verif/sim/core"
)

// In-flight tampering (every mutation kind of the statement of C24) and forging by an AS whose
// key the adversary holds. All mutations address fields, never raw offsets into signatures made by
// the code under test (except the explicit signature mutations).

func mustMarshal(m proto.Message) []byte {
	b, err := marshal.Marshal(m)
	if err != nil {
		panic(core.InfraError{Msg: "marshal: " + err.Error()})
	}
	return b
}

func cloneSeg(pb *cppb.PathSegment) *cppb.PathSegment {
	return proto.Clone(pb).(*cppb.PathSegment)
}

// rebody rewrites the signed body of an entry, leaving header and signature alone.
func rebody(e *cppb.ASEntry, f func(b *cppb.ASEntrySignedBody)) bool {
	hdr, body := splitHB(e.Signed.HeaderAndBody)
	if body == nil {
		return false
	}
	var b cppb.ASEntrySignedBody
	if err := proto.Unmarshal(body, &b); err != nil {
		return false
	}
	f(&b)
	e.Signed = &cryptopb.SignedMessage{
		HeaderAndBody: mustMarshal(&cryptopb.HeaderAndBody{Header: hdr, Body: mustMarshal(&b)}),
		Signature:     e.Signed.Signature,
	}
	return true
}

func reheader(e *cppb.ASEntry, f func(h *cryptopb.Header)) bool {
	hdr, body := splitHB(e.Signed.HeaderAndBody)
	if hdr == nil {
		return false
	}
	var h cryptopb.Header
	if err := proto.Unmarshal(hdr, &h); err != nil {
		return false
	}
	f(&h)
	e.Signed = &cryptopb.SignedMessage{
		HeaderAndBody: mustMarshal(&cryptopb.HeaderAndBody{Header: mustMarshal(&h), Body: body}),
		Signature:     e.Signed.Signature,
	}
	return true
}

// resign signs entry idx (with the given body) with credential c; the verification key id names
// keyIA. The associated data is what the entry position demands.
func resign(pb *cppb.PathSegment, idx int, body *cppb.ASEntrySignedBody, c *cred, keyIA addr.IA) {
	adLen := len(pb.SegmentInfo)
	for j := 0; j < idx; j++ {
		adLen += len(pb.AsEntries[j].Signed.HeaderAndBody) + len(pb.AsEntries[j].Signed.Signature)
	}
	keyID := mustMarshal(&cppb.VerificationKeyID{IsdAs: uint64(keyIA), SubjectKeyId: c.SKID, TrcBase: 1, TrcSerial: 1})
	hdr := &cryptopb.Header{
		SignatureAlgorithm:   cryptopb.SignatureAlgorithm_SIGNATURE_ALGORITHM_ECDSA_WITH_SHA256,
		VerificationKeyId:    keyID,
		Timestamp:            timestamppb.New(time.Now()),
		AssociatedDataLength: int32(adLen),
	}
	hb := mustMarshal(&cryptopb.HeaderAndBody{Header: mustMarshal(hdr), Body: mustMarshal(body)})
	pb.AsEntries[idx].Signed = &cryptopb.SignedMessage{HeaderAndBody: hb}
	digest := sigDigest(pb, idx)
	sig, err := c.Key.Sign(nil, digest, crypto.SHA256)
	if err != nil {
		panic(core.InfraError{Msg: "forger sign: " + err.Error()})
	}
	pb.AsEntries[idx].Signed.Signature = sig
}

func malleate(sig []byte) []byte {
	var rs struct{ R, S *big.Int }
	if rest, err := asn1.Unmarshal(sig, &rs); err != nil || len(rest) != 0 {
		return nil
	}
	rs.S = new(big.Int).Sub(elliptic.P256().Params().N, rs.S)
	out, err := asn1.Marshal(rs)
	if err != nil {
		return nil
	}
	return out
}

var tamperKinds = []string{"info.ts", "info.segid", "body.isd_as", "body.next", "body.mtu", "body.hop.ingress", "body.hop.egress",
	"body.hop.exptime", "body.hop.mac", "body.peer", "sig.flip", "sig.malleate", "hdr.keyid", "hdr.ts", "entry.swap",
	"entry.remove", "entry.dup", "entry.insert", "truncate", "unsigned.drop"}

func (w *World) tamperAndDeliver(m *Msg) {
	r := w.r
	var orig cppb.PathSegment
	if err := proto.Unmarshal(m.Raw, &orig); err != nil {
		panic(core.InfraError{Msg: "unmarshal own wire bytes: " + err.Error()})
	}
	pb := cloneSeg(&orig)
	n := len(pb.AsEntries)
	kind := tamperKinds[r.Choice("tamper.kind", len(tamperKinds))]
	j := r.Choice("tamper.entry", n)
	to, toIf := m.To, m.ToIf
	ok := true
	switch kind {
	case "info.ts", "info.segid":
		var info cppb.SegmentInformation
		if proto.Unmarshal(pb.SegmentInfo, &info) != nil {
			ok = false
			break
		}
		if kind == "info.ts" {
			info.Timestamp += int64(1 + r.Choice("tamper.dt", 4000))
			if r.Chance("tamper.dt.neg", 1, 2) {
				info.Timestamp -= 2 * int64(1+r.Choice("tamper.dt2", 4000))
			}
		} else {
			info.SegmentId ^= 1 << uint(r.Choice("tamper.bit", 16))
		}
		pb.SegmentInfo = mustMarshal(&info)
	case "body.isd_as":
		o := w.ASes[r.Choice("tamper.as", len(w.ASes))]
		ok = rebody(pb.AsEntries[j], func(b *cppb.ASEntrySignedBody) {
			if uint64(o.IA) == b.IsdAs {
				b.IsdAs ^= 1
			} else {
				b.IsdAs = uint64(o.IA)
			}
		})
	case "body.next":
		o := w.ASes[r.Choice("tamper.as", len(w.ASes))]
		ok = rebody(pb.AsEntries[j], func(b *cppb.ASEntrySignedBody) {
			if uint64(o.IA) == b.NextIsdAs {
				b.NextIsdAs ^= 1
			} else {
				b.NextIsdAs = uint64(o.IA)
			}
		})
	case "body.mtu":
		ok = rebody(pb.AsEntries[j], func(b *cppb.ASEntrySignedBody) { b.Mtu++ })
	case "body.hop.ingress":
		ok = rebody(pb.AsEntries[j], func(b *cppb.ASEntrySignedBody) {
			if hf := b.GetHopEntry().GetHopField(); hf != nil {
				if hf.Ingress != 0 {
					hf.Ingress ^= 2
				} else {
					b.HopEntry.IngressMtu++
				}
			}
		})
	case "body.hop.egress":
		ok = rebody(pb.AsEntries[j], func(b *cppb.ASEntrySignedBody) {
			if hf := b.GetHopEntry().GetHopField(); hf != nil {
				hf.Egress ^= 2
				for _, p := range b.PeerEntries {
					if p.HopField != nil {
						p.HopField.Egress = hf.Egress
					}
				}
			}
		})
	case "body.hop.exptime":
		ok = rebody(pb.AsEntries[j], func(b *cppb.ASEntrySignedBody) {
			if hf := b.GetHopEntry().GetHopField(); hf != nil {
				if hf.ExpTime < 255 && r.Chance("tamper.exp.up", 1, 2) {
					hf.ExpTime++
				} else if hf.ExpTime > 0 {
					hf.ExpTime--
				} else {
					hf.ExpTime++
				}
			}
		})
	case "body.hop.mac":
		bit := r.Choice("tamper.bit", 48)
		ok = rebody(pb.AsEntries[j], func(b *cppb.ASEntrySignedBody) {
			if hf := b.GetHopEntry().GetHopField(); hf != nil && len(hf.Mac) == 6 {
				hf.Mac = append([]byte(nil), hf.Mac...)
				hf.Mac[bit/8] ^= 1 << uint(bit%8)
			}
		})
	case "body.peer":
		ok = rebody(pb.AsEntries[j], func(b *cppb.ASEntrySignedBody) {
			if len(b.PeerEntries) > 0 {
				switch r.Choice("tamper.peer.how", 3) {
				case 0:
					b.PeerEntries = b.PeerEntries[1:]
				case 1:
					b.PeerEntries[0].PeerInterface++
				default:
					if hf := b.PeerEntries[0].HopField; hf != nil && len(hf.Mac) == 6 {
						hf.Mac = append([]byte(nil), hf.Mac...)
						hf.Mac[0] ^= 0x80
					}
				}
			} else if hf := b.GetHopEntry().GetHopField(); hf != nil {
				b.PeerEntries = append(b.PeerEntries, &cppb.PeerEntry{PeerIsdAs: b.IsdAs ^ 3, PeerInterface: 5, PeerMtu: 1400,
					HopField: &cppb.HopField{Ingress: 77, Egress: hf.Egress, ExpTime: hf.ExpTime, Mac: hf.Mac}})
			}
		})
	case "sig.flip":
		s := append([]byte(nil), pb.AsEntries[j].Signed.Signature...)
		if len(s) < 12 {
			ok = false
			break
		}
		// inside the two integers, not the DER framing, so that the signature still parses
		at := 5 + r.Choice("tamper.sigbyte", len(s)-6)
		if at == 4+int(s[3]) || at == 5+int(s[3]) {
			at = 6 + int(s[3])
		}
		if at >= len(s) {
			at = len(s) - 1
		}
		s[at] ^= 1 << uint(r.Choice("tamper.bit", 7))
		pb.AsEntries[j].Signed = &cryptopb.SignedMessage{HeaderAndBody: pb.AsEntries[j].Signed.HeaderAndBody, Signature: s}
	case "sig.malleate":
		s := malleate(pb.AsEntries[j].Signed.Signature)
		if s == nil {
			ok = false
			break
		}
		pb.AsEntries[j].Signed = &cryptopb.SignedMessage{HeaderAndBody: pb.AsEntries[j].Signed.HeaderAndBody, Signature: s}
	case "hdr.keyid":
		o := w.ASes[r.Choice("tamper.as", len(w.ASes))]
		ok = reheader(pb.AsEntries[j], func(h *cryptopb.Header) {
			var id cppb.VerificationKeyID
			if proto.Unmarshal(h.VerificationKeyId, &id) != nil {
				return
			}
			if r.Chance("tamper.keyid.skid", 1, 2) {
				id.SubjectKeyId = o.Creds[0].SKID
				if uint64(o.IA) == id.IsdAs {
					id.SubjectKeyId = append([]byte{1}, id.SubjectKeyId[1:]...)
				}
			} else if uint64(o.IA) != id.IsdAs {
				id.IsdAs = uint64(o.IA)
			} else {
				id.TrcSerial++
			}
			h.VerificationKeyId = mustMarshal(&id)
		})
	case "hdr.ts":
		ok = reheader(pb.AsEntries[j], func(h *cryptopb.Header) {
			h.Timestamp = timestamppb.New(time.Now().Add(time.Duration(1+r.Choice("tamper.dt", 100)) * time.Second))
		})
	case "entry.swap":
		if n < 2 {
			ok = false
			break
		}
		k := (j + 1 + r.Choice("tamper.other", n-1)) % n
		pb.AsEntries[j], pb.AsEntries[k] = pb.AsEntries[k], pb.AsEntries[j]
	case "entry.remove":
		if n < 2 {
			ok = false
			break
		}
		j = r.Choice("tamper.remove", n-1) // never the last one: that is "truncate"
		pb.AsEntries = append(pb.AsEntries[:j:j], pb.AsEntries[j+1:]...)
	case "entry.dup":
		k := r.Choice("tamper.at", n+1)
		es := append([]*cppb.ASEntry(nil), pb.AsEntries[:k]...)
		es = append(es, proto.Clone(pb.AsEntries[j]).(*cppb.ASEntry))
		pb.AsEntries = append(es, pb.AsEntries[k:]...)
	case "entry.insert":
		o := w.net.history[r.Choice("tamper.from", len(w.net.history))]
		var opb cppb.PathSegment
		if proto.Unmarshal(o.Raw, &opb) != nil || len(opb.AsEntries) == 0 {
			ok = false
			break
		}
		ins := opb.AsEntries[r.Choice("tamper.from.entry", len(opb.AsEntries))]
		k := r.Choice("tamper.at", n+1)
		es := append([]*cppb.ASEntry(nil), pb.AsEntries[:k]...)
		es = append(es, ins)
		pb.AsEntries = append(es, pb.AsEntries[k:]...)
	case "truncate":
		if n < 2 {
			ok = false
			break
		}
		keep := 1 + r.Choice("tamper.keep", n-1)
		pb.AsEntries = pb.AsEntries[:keep]
		if r.Chance("tamper.truncate.reroute", 2, 3) {
			// hand the prefix to the AS its last entry names, on the link it was made for
			if b := bodyOf(pb.AsEntries[keep-1]); b != nil {
				if a := w.byIA[addr.IA(b.IsdAs)]; a != nil {
					if in := a.Intfs[uint16(b.GetHopEntry().GetHopField().GetEgress())]; in != nil {
						to, toIf = in.Remote, in.RemoteID
					}
				}
			}
		}
	case "unsigned.drop":
		// unsigned extensions are not signed content: removing them must not matter
		if pb.AsEntries[j].Unsigned == nil {
			ok = false
			break
		}
		pb.AsEntries[j].Unsigned = nil
	}
	if !ok || signedKey(pb) == signedKey(&orig) && kind != "unsigned.drop" {
		w.handle(m.To, m.ToIf, m.From.IA, m.Raw, fmt.Sprintf("honest #%d", m.Seq), nil)
		return
	}
	r.Fault("beacon.tamper." + kind)
	w.cnt.tampered++
	pos := "last"
	if j < n-1 {
		pos = "earlier"
	}
	r.Covered("tamper:" + kind + ":" + pos)
	w.handle(to, toIf, m.From.IA, mustMarshal(pb), fmt.Sprintf("tamper.%s #%d entry %d", kind, m.Seq, j), nil)
}

var forgeKinds = []string{"identity", "validity", "legit", "append"}

// forge: the adversary holds the key of one AS y (a compromised or misbehaving AS) and re-signs
// the last entry of an honest beacon, or appends an entry.
func (w *World) forge() {
	r := w.r
	if len(w.net.history) == 0 {
		return
	}
	m := w.net.history[r.Choice("forge.base", len(w.net.history))]
	var pb cppb.PathSegment
	if err := proto.Unmarshal(m.Raw, &pb); err != nil {
		return
	}
	n := len(pb.AsEntries)
	last := bodyOf(pb.AsEntries[n-1])
	if last == nil {
		return
	}
	x := m.From
	kind := forgeKinds[r.Choice("forge.kind", len(forgeKinds))]
	var ts time.Time
	var info cppb.SegmentInformation
	if proto.Unmarshal(pb.SegmentInfo, &info) == nil {
		ts = time.Unix(info.Timestamp, 0)
	}
	to, toIf := m.To, m.ToIf
	switch kind {
	case "identity":
		// the entry claims x, the signature is made with y's key
		var others []*AS
		for i := 0; i < n-1; i++ { // prefer ASes whose honest entries precede on the same path
			if b := bodyOf(pb.AsEntries[i]); b != nil {
				if a := w.byIA[addr.IA(b.IsdAs)]; a != nil && a != x {
					others = append(others, a)
				}
			}
		}
		if len(others) == 0 || r.Chance("forge.any", 1, 3) {
			for _, a := range w.ASes {
				if a != x {
					others = append(others, a)
				}
			}
		}
		if len(others) == 0 {
			return
		}
		y := others[r.Choice("forge.y", len(others))]
		keyIA := x.IA
		if r.Chance("forge.keyid.y", 1, 3) {
			keyIA = y.IA
		}
		last.Mtu++ // a different body, so that the forged beacon is not the honest one re-signed identically
		resign(&pb, n-1, last, y.Creds[0], keyIA)
	case "validity":
		// x itself signs a hop lifetime its certificate does not cover
		c := x.Creds[r.Choice("forge.cred", len(x.Creds))]
		hf := last.GetHopEntry().GetHopField()
		if hf == nil {
			return
		}
		need := c.NotAfter.Sub(ts)/(24*time.Hour/256) + 1 // smallest ExpTime reaching beyond NotAfter
		if need < 0 {
			need = 0
		}
		if need > 255 {
			need = 255 // certificate outlives any hop field: the forged entry is then legitimate
		}
		hf.ExpTime = uint32(need)
		if r.Chance("forge.exp.max", 1, 3) {
			hf.ExpTime = 255
		}
		resign(&pb, n-1, last, c, x.IA)
	case "legit":
		// authentic misbehaviour: x signs a different entry of its own; it must verify
		last.Mtu += 3
		resign(&pb, n-1, last, x.Creds[0], x.IA)
	case "append":
		// y = the receiver of the honest beacon appends an entry of its own towards one of its
		// neighbours; signed with its own key (authentic) or with a foreign key
		y := m.To
		ids := y.ifsOfType(topology.Child, topology.Core)
		if r.Chance("forge.append.anylink", 1, 2) {
			// ... or upwards / across a peering link, where no honest AS ever sends beacons
			ids = y.ifIDs
		}
		if len(ids) == 0 {
			return
		}
		in := y.Intfs[ids[r.Choice("forge.via", len(ids))]]
		signer := y
		if r.Chance("forge.append.foreign", 1, 2) {
			signer = w.ASes[r.Choice("forge.y", len(w.ASes))]
		}
		body := &cppb.ASEntrySignedBody{IsdAs: uint64(y.IA), NextIsdAs: uint64(in.Remote.IA), Mtu: 1400,
			HopEntry: &cppb.HopEntry{IngressMtu: 1400, HopField: &cppb.HopField{Ingress: uint64(m.ToIf),
				Egress: uint64(in.ID), ExpTime: uint32(r.Choice("forge.exp", 64)), Mac: []byte{1, 2, 3, 4, 5, 6}}}}
		pb.AsEntries = append(pb.AsEntries, &cppb.ASEntry{})
		resign(&pb, n, body, signer.Creds[0], y.IA)
		to, toIf = in.Remote, in.RemoteID
		x = y
	}
	r.Fault("beacon.forge." + kind)
	w.cnt.tampered++
	r.Covered("forge:" + kind)
	w.handle(to, toIf, x.IA, mustMarshal(&pb), fmt.Sprintf("forge.%s #%d", kind, m.Seq), nil)
}
