//go:build verif

package beaconsim

import (
	"context"
	"crypto"
	"crypto/x509"
	"fmt"
	"hash"
	"net"
	"sort"
	"sync/atomic"
	"time"

	gocache "github.com/patrickmn/go-cache"

	"github.com/scionproto/scion/control/beacon"
	"github.com/scionproto/scion/control/beaconing"
	"github.com/scionproto/scion/control/ifstate"
	"github.com/scionproto/scion/pkg/addr"
	cryptopb "github.com/scionproto/scion/pkg/proto/crypto"
	"github.com/scionproto/scion/pkg/scrypto"
	"github.com/scionproto/scion/pkg/scrypto/cppki"
	"github.com/scionproto/scion/pkg/scrypto/signed"
	seg "github.com/scionproto/scion/pkg/segment"
	"github.com/scionproto/scion/pkg/segment/extensions/discovery"
	infra "github.com/scionproto/scion/private/segment/verifier"
	sqlitebeacon "github.com/scionproto/scion/private/storage/beacon/sqlite"
	"github.com/scionproto/scion/private/storage/db"
	sqlitetrust "github.com/scionproto/scion/private/storage/trust/sqlite"
	"github.com/scionproto/scion/private/topology"
	"github.com/scionproto/scion/private/trust"
	"github.com/scionproto/scion/private/trust/compat"
	"verif/sim/core"
	"verif/sim/refmodel"
)

// ---- topology ground truth ----

type Intf struct {
	ID       uint16
	Type     topology.LinkType // as seen by the owning AS: Parent = the remote AS is my parent
	Remote   *AS
	RemoteID uint16
	MTU      uint16
	// RemoteKnown is false for peering interfaces whose remote interface id is not (yet) known to
	// the control service (such peers are legitimately left out of AS entries).
	RemoteKnown bool
}

// polSpec is the ground-truth transcription of one drawn policy.
type polSpec struct {
	Name         string
	Type         beacon.PolicyType
	Usage        beacon.Usage
	Best, Cand   int
	MaxExp       uint8
	MaxLen       int
	BlockAS      []addr.AS
	BlockISD     []addr.ISD
	AllowISDLoop bool
}

type beaconStore interface {
	beaconing.BeaconInserter
	BeaconsToPropagate(ctx context.Context) ([]beacon.Beacon, error)
	SegmentsToRegister(ctx context.Context, segType seg.Type) ([]beacon.Beacon, []beacon.RegistrationPolicy, error)
	MaxExpTime(policyType beacon.PolicyType) uint8
}

type AS struct {
	Idx    int
	IA     addr.IA
	Core   bool
	Master []byte
	RefKey []byte // hop-field key derived by the reference model from Master
	MacFac func() hash.Hash
	MTU    uint16

	Intfs map[uint16]*Intf
	ifIDs []uint16

	Creds []*cred

	IfState  *ifstate.Interfaces
	BeaconDB *sqlitebeacon.Backend
	TrustDB  sqlitetrust.DB
	Pols     []polSpec // Pols[0] is always the propagation policy
	Store    beaconStore
	Verifier infra.Verifier
	cacheOn  bool
	Handler  beaconing.Handler
	Ext      *recExtender
	Orig     *beaconing.Originator
	Prop     *beaconing.Propagator
	provider *oneProvider
	cur      []*ifstate.Interface // value served through the Origination/PropagationInterfaces seams
	sel      *recAlgo
}

func (a *AS) SortedIfIDs() []uint16 { return a.ifIDs }

func (a *AS) ifsOfType(types ...topology.LinkType) []uint16 {
	var out []uint16
	for _, id := range a.ifIDs {
		for _, t := range types {
			if a.Intfs[id].Type == t {
				out = append(out, id)
			}
		}
	}
	return out
}

func (a *AS) pol(u beacon.Usage) *polSpec {
	for i := range a.Pols {
		if a.Pols[i].Usage == u {
			return &a.Pols[i]
		}
	}
	return nil
}

type World struct {
	r     *core.Run
	cfg   *Config
	ASes  []*AS
	byIA  map[addr.IA]*AS
	ISDs  map[addr.ISD]*isdPKI
	isdNo []addr.ISD
	T0    time.Time
	net   *Network
	id    uint64
	ctx   context.Context
	// xsched is set while several Extend calls of one AS run at the same time (concurrentExtend): every
	// operation on a hop-field MAC is then a scheduling point of the seeded scheduler.
	xsched *core.Sched

	// epoch bookkeeping for the verifier cache (see advance)
	epochStart time.Time

	cnt       counters
	extends   int
	extendsOK int
	selects   int
	// validAt[as index][signed content] = the beacon was received by that AS with every
	// condition of the storing rule true
	validAt  map[int]map[[32]byte]bool
	storedAt map[int]int
	// warm[as index][IA] = epoch in which a signature of IA last verified at that AS
	warm    map[int]map[addr.IA]int
	epochNo int

	inOriginate bool
	infra       string
}

// viol reports a violation unless its signature is a listed known finding (then the run goes on).
// It returns true when the run should stop.
func (w *World) viol(check, sig, format string, args ...any) bool {
	if w.r.IsKnown(sig) {
		w.r.NoteKnown(sig)
		return false
	}
	w.r.Fail(check, sig, format, args...)
	return true
}

var worldCounter atomic.Uint64

func linkName(t topology.LinkType) string {
	switch t {
	case topology.Core:
		return "core"
	case topology.Parent:
		return "parent"
	case topology.Child:
		return "child"
	case topology.Peer:
		return "peer"
	}
	return "?"
}

func (w *World) newIfID(a *AS) uint16 {
	id := uint16(1 + w.r.Choice("ifid", 65535))
	if w.r.Chance("ifid.small", 1, 2) {
		id = uint16(1 + w.r.Choice("ifid.low", 4)) // operators number interfaces 1, 2, 3, ...: the same ids recur in every AS
	}
	for {
		if _, ok := a.Intfs[id]; !ok && id != 0 {
			return id
		}
		id++
	}
}

// link adds a link; ta is the type as seen by a (Child: b is a's child).
func (w *World) link(a, b *AS, ta topology.LinkType) {
	var tb topology.LinkType
	switch ta {
	case topology.Core:
		tb = topology.Core
	case topology.Child:
		tb = topology.Parent
	case topology.Parent:
		tb = topology.Child
	case topology.Peer:
		tb = topology.Peer
	}
	ia, ib := w.newIfID(a), w.newIfID(b)
	mtu := uint16(1280 + 20*w.r.Choice("link.mtu", 12))
	a.Intfs[ia] = &Intf{ID: ia, Type: ta, Remote: b, RemoteID: ib, MTU: mtu, RemoteKnown: true}
	b.Intfs[ib] = &Intf{ID: ib, Type: tb, Remote: a, RemoteID: ia, MTU: mtu, RemoteKnown: true}
	if ta == topology.Peer && w.r.Chance("peer.remote.unknown", 1, 8) {
		a.Intfs[ia].RemoteKnown = false
		w.r.Probe("peer-remote-unknown")
	}
	w.r.Logf("link %s#%d (%s) <-> %s#%d (%s) mtu %d", a.IA, ia, linkName(ta), b.IA, ib, linkName(tb), mtu)
}

// genTopology draws ISDs, ASes and links.
func (w *World) genTopology() {
	r := w.r
	nISD := 1 + r.Choice("topo.isds", 2)
	// an AS number is not tied to one ISD: in some worlds the core ASes of different ISDs carry the
	// same AS numbers (only the ISD-AS pair identifies an AS, and with it a link)
	sharedASNumbers := nISD > 1 && r.Chance("topo.shared-as-numbers", 1, 3)
	var all []*AS
	cores := map[addr.ISD][]*AS{}
	for i := 0; i < nISD; i++ {
		isd := addr.ISD(1 + i)
		w.isdNo = append(w.isdNo, isd)
		nCore := 1 + r.Choice("topo.cores", 3)
		for c := 0; c < nCore; c++ {
			asOff := uint64(i) * 0x10
			if sharedASNumbers {
				asOff = 0
			}
			a := &AS{Idx: len(all), IA: addr.MustIAFrom(isd, addr.AS(0xff00_0000_0100+asOff+uint64(c))), Core: true,
				Intfs: map[uint16]*Intf{}}
			all = append(all, a)
			cores[isd] = append(cores[isd], a)
		}
	}
	nNon := r.Choice("topo.noncore", 6)
	nonByISD := map[addr.ISD][]*AS{}
	for n := 0; n < nNon; n++ {
		isd := w.isdNo[r.Choice("topo.noncore.isd", nISD)]
		a := &AS{Idx: len(all), IA: addr.MustIAFrom(isd, addr.AS(0xff00_0000_0200+uint64(n))), Intfs: map[uint16]*Intf{}}
		all = append(all, a)
		nonByISD[isd] = append(nonByISD[isd], a)
	}
	w.ASes = all
	w.byIA = map[addr.IA]*AS{}
	for _, a := range all {
		w.byIA[a.IA] = a
	}
	// core links inside an ISD: a chain plus extra links; parallel links possible
	for _, isd := range w.isdNo {
		cs := cores[isd]
		for i := 1; i < len(cs); i++ {
			w.link(cs[i-1], cs[i], topology.Core)
		}
		if len(cs) > 2 && (w.cfg.Rich || r.Chance("topo.core.ring", 1, 2)) {
			w.link(cs[len(cs)-1], cs[0], topology.Core)
		}
	}
	// core links between ISDs
	if nISD == 2 {
		c1, c2 := cores[w.isdNo[0]], cores[w.isdNo[1]]
		n := 1 + r.Choice("topo.interisd.links", 3)
		for k := 0; k < n; k++ {
			w.link(c1[r.Choice("topo.interisd.a", len(c1))], c2[r.Choice("topo.interisd.b", len(c2))], topology.Core)
		}
	}
	// parent-child DAG
	for _, isd := range w.isdNo {
		for i, a := range nonByISD[isd] {
			// candidates: the ASes created just before first (deep chains), the cores last
			var cands []*AS
			for k := i - 1; k >= 0; k-- {
				cands = append(cands, nonByISD[isd][k])
			}
			cands = append(cands, cores[isd]...)
			np := 1 + r.Choice("topo.parents", 2)
			if w.cfg.Rich {
				np += r.Choice("topo.parents.more", 2)
			}
			for k := 0; k < np; k++ {
				p := cands[r.Choice("topo.parent", len(cands))]
				w.link(p, a, topology.Child) // parallel links arise when the same parent is drawn twice
			}
		}
	}
	// extra parallel links
	npar := 0
	if len(all) > 1 && r.Chance("topo.parallel", 1, 3) {
		npar = 1
	}
	if len(all) > 1 && w.cfg.Rich {
		npar += r.Choice("topo.parallel.more", 4)
	}
	for k := 0; k < npar; k++ {
		a := all[r.Choice("topo.parallel.as", len(all))]
		if len(a.Intfs) > 0 {
			ids := sortedIDs(a.Intfs)
			in := a.Intfs[ids[r.Choice("topo.parallel.if", len(ids))]]
			w.link(a, in.Remote, in.Type)
			r.Probe("parallel-link")
		}
	}
	// peering links
	if len(all) > 1 {
		np := r.Choice("topo.peerings", 4)
		for k := 0; k < np; k++ {
			a := all[r.Choice("topo.peer.a", len(all))]
			b := all[r.Choice("topo.peer.b", len(all))]
			if a == b || (a.Core && b.Core) {
				continue
			}
			w.link(a, b, topology.Peer)
		}
	}
	for _, a := range all {
		a.ifIDs = sortedIDs(a.Intfs)
		a.MTU = uint16(1400 + 10*r.Choice("as.mtu", 10))
	}
}

func sortedIDs(m map[uint16]*Intf) []uint16 {
	out := make([]uint16, 0, len(m))
	for id := range m {
		out = append(out, id)
	}
	sort.Slice(out, func(i, j int) bool { return out[i] < out[j] })
	return out
}

// ---- policies ----

func (w *World) drawPolicy(a *AS, name string, t beacon.PolicyType, u beacon.Usage) (beacon.Policy, polSpec) {
	r := w.r
	sp := polSpec{Name: name, Type: t, Usage: u, AllowISDLoop: true}
	minBest := 2
	if w.cfg.AllowK1 {
		minBest = 1
	}
	sp.Best = minBest + r.Choice("pol.best", 5)
	if w.cfg.Rich {
		sp.Best = minBest + r.Choice("pol.best.small", 3)
	}
	sp.Cand = 1 + r.Choice("pol.cand", 12)
	if r.Chance("pol.cand.large", 1, 2) {
		sp.Cand += 20
	}
	sp.MaxExp = uint8(255 - r.Choice("pol.maxexp", 256))
	sp.MaxLen = 10 - r.Choice("pol.maxlen.wide", 3)
	if w.cfg.Policies {
		sp.MaxLen = 9 - r.Choice("pol.maxlen", 8)
		if r.Chance("pol.blockas", 1, 4) {
			n := 1 + r.Choice("pol.blockas.n", 2)
			for k := 0; k < n; k++ {
				sp.BlockAS = append(sp.BlockAS, w.ASes[r.Choice("pol.blockas.as", len(w.ASes))].IA.AS())
			}
		}
		if len(w.isdNo) > 1 && r.Chance("pol.blockisd", 1, 6) {
			sp.BlockISD = append(sp.BlockISD, w.isdNo[r.Choice("pol.blockisd.isd", len(w.isdNo))])
		}
		if r.Chance("pol.noisdloop", 1, 3) {
			sp.AllowISDLoop = false
		}
	}
	maxExp := sp.MaxExp
	allow := sp.AllowISDLoop
	p := beacon.Policy{
		BestSetSize:      sp.Best,
		CandidateSetSize: sp.Cand,
		MaxExpTime:       &maxExp,
		Type:             t,
		Filter: beacon.Filter{
			MaxHopsLength: sp.MaxLen,
			AsBlackList:   append([]addr.AS(nil), sp.BlockAS...),
			IsdBlackList:  append([]addr.ISD(nil), sp.BlockISD...),
			AllowIsdLoop:  &allow,
		},
	}
	r.Logf("policy %s %s best=%d cand=%d maxexp=%d maxlen=%d blockAS=%v blockISD=%v isdloop=%v", a.IA, name,
		sp.Best, sp.Cand, sp.MaxExp, sp.MaxLen, sp.BlockAS, sp.BlockISD, sp.AllowISDLoop)
	return p, sp
}

// ---- trust plumbing (stubs at the seams of the real trust code) ----

type keyRing struct{ a *AS }

func (k keyRing) PrivateKeys(ctx context.Context) ([]crypto.Signer, error) {
	out := make([]crypto.Signer, 0, len(k.a.Creds))
	for _, c := range k.a.Creds {
		out = append(out, rfc6979Key{c.Key})
	}
	return out, nil
}

// simFetcher answers chain requests like an honest remote control service: from the real trust
// database of the AS the chain is asked for.
type simFetcher struct{ w *World }

func (f simFetcher) Chains(ctx context.Context, q trust.ChainQuery, _ net.Addr) ([][]*x509.Certificate, error) {
	a := f.w.byIA[q.IA]
	if a == nil {
		return nil, nil
	}
	f.w.r.Probe("chain-fetched")
	return a.TrustDB.Chains(ctx, q)
}

func (f simFetcher) TRC(ctx context.Context, id cppki.TRCID, _ net.Addr) (cppki.SignedTRC, error) {
	return cppki.SignedTRC{}, fmt.Errorf("sim: TRC fetch not simulated")
}

type simRouter struct{}

func (simRouter) ChooseServer(ctx context.Context, isd addr.ISD) (net.Addr, error) {
	return &net.UDPAddr{IP: net.IPv4(127, 0, 0, 1), Port: 30252}, nil
}

// ---- construction of the control services ----

func (w *World) buildPKI() {
	r := w.r
	for _, isd := range w.isdNo {
		var cores []addr.AS
		var voter addr.IA
		for _, a := range w.ASes {
			if a.Core && a.IA.ISD() == isd {
				cores = append(cores, a.IA.AS())
				if voter == 0 {
					voter = a.IA
				}
			}
		}
		w.ISDs[isd] = newISD(isd, voter, cores, w.T0)
	}
	windows := []time.Duration{30 * 24 * time.Hour, 25 * time.Hour, 13 * time.Hour, 7 * time.Hour, 3 * time.Hour,
		time.Hour, 20 * time.Minute, 72 * time.Hour}
	for _, a := range w.ASes {
		p := w.ISDs[a.IA.ISD()]
		win := windows[0]
		if w.cfg.SignerWindows {
			win = windows[r.Choice("cred.window", len(windows))]
			// sub-unit residue so that rounding of the hop lifetime matters
			win += time.Duration(r.Choice("cred.residue.s", 400)) * time.Second
		}
		c := p.issue(a.IA, w.T0.Add(-time.Hour), w.T0.Add(win))
		a.Creds = append(a.Creds, c)
		r.Logf("cred %s notAfter=+%s", a.IA, win)
		if w.cfg.SignerWindows && r.Chance("cred.second", 1, 3) {
			// a renewed certificate: starts now or later, ends later than the first
			start := time.Duration(r.Choice("cred2.start.min", 4)) * 20 * time.Minute
			win2 := win + time.Duration(1+r.Choice("cred2.extra.h", 30))*time.Hour
			c2 := p.issue(a.IA, w.T0.Add(start-time.Minute), w.T0.Add(win2))
			a.Creds = append(a.Creds, c2)
			r.Logf("cred2 %s notBefore=+%s notAfter=+%s", a.IA, start-time.Minute, win2)
			r.Probe("second-credential")
		}
	}
}

func (w *World) buildAS(a *AS) {
	r := w.r
	var err error
	fail := func(what string, err error) {
		panic(core.InfraError{Msg: fmt.Sprintf("building %s: %s: %v", a.IA, what, err)})
	}
	a.Master = r.Tape.Bytes("master", 16)
	a.RefKey = refmodel.DeriveHopKey(a.Master)
	if a.MacFac, err = scrypto.HFMacFactory(a.Master); err != nil {
		fail("mac factory", err)
	}
	m := map[uint16]ifstate.InterfaceInfo{}
	for _, id := range a.ifIDs {
		in := a.Intfs[id]
		info := ifstate.InterfaceInfo{ID: id, IA: in.Remote.IA, LinkType: in.Type, MTU: in.MTU}
		if in.RemoteKnown {
			info.RemoteID = in.RemoteID
		}
		m[id] = info
	}
	a.IfState = ifstate.NewInterfaces(m, ifstate.Config{})

	memCfg := &db.SqliteConfig{InMemory: true, MaxOpenReadConns: 1, MaxIdleReadConns: 1}
	if a.BeaconDB, err = sqlitebeacon.New(fmt.Sprintf("beaconsim_b_%d_%d", w.id, a.Idx), a.IA, memCfg); err != nil {
		fail("beacon db", err)
	}
	if a.TrustDB, err = sqlitetrust.New(fmt.Sprintf("beaconsim_t_%d_%d", w.id, a.Idx), memCfg); err != nil {
		fail("trust db", err)
	}
	ctx := w.ctx
	for _, isd := range w.isdNo {
		if _, err := a.TrustDB.InsertTRC(ctx, w.ISDs[isd].TRC); err != nil {
			fail("insert TRC", err)
		}
	}
	for _, c := range a.Creds {
		if _, err := a.TrustDB.InsertChain(ctx, c.Chain); err != nil {
			fail("insert own chain", err)
		}
	}

	a.sel = &recAlgo{w: w, a: a, real: beacon.DefaultSelectionAlgorithm()}
	if a.Core {
		pp, sp := w.drawPolicy(a, "prop", beacon.PropPolicy, beacon.UsageProp)
		pc, sc := w.drawPolicy(a, "corereg", beacon.CoreRegPolicy, beacon.UsageCoreReg)
		a.Pols = []polSpec{sp, sc}
		st, err := beacon.NewCoreBeaconStore(beacon.CorePolicies{Prop: pp, CoreReg: pc}, a.BeaconDB,
			beacon.WithSelectionAlgorithm(a.sel))
		if err != nil {
			fail("core store", err)
		}
		a.Store = st
	} else {
		pp, sp := w.drawPolicy(a, "prop", beacon.PropPolicy, beacon.UsageProp)
		pu, su := w.drawPolicy(a, "upreg", beacon.UpRegPolicy, beacon.UsageUpReg)
		pd, sd := w.drawPolicy(a, "downreg", beacon.DownRegPolicy, beacon.UsageDownReg)
		a.Pols = []polSpec{sp, su, sd}
		st, err := beacon.NewBeaconStore(beacon.Policies{Prop: pp, UpReg: pu, DownReg: pd}, a.BeaconDB,
			beacon.WithSelectionAlgorithm(a.sel))
		if err != nil {
			fail("store", err)
		}
		a.Store = st
	}

	provider := trust.FetchingProvider{
		DB:       a.TrustDB,
		Recurser: trust.ASLocalRecurser{IA: a.IA},
		Fetcher:  simFetcher{w},
		Router:   simRouter{},
	}
	tv := trust.Verifier{Engine: provider}
	if w.cfg.VerifierCache && r.Choice("verifier.cache", 4) != 1 {
		a.cacheOn = true
		r.Logf("verifier cache enabled at %s", a.IA)
		// wired like the control service: shared cache; no janitor goroutine; the expiry window is
		// kept away from the instants the simulation visits (see World.advance)
		tv.Cache = gocache.New(time.Minute, 0)
		tv.MaxCacheExpiration = cacheMax
	}
	a.Verifier = recVerifier{Verifier: compat.Verifier{Verifier: tv}, w: w, a: a}
	a.Handler = beaconing.Handler{LocalIA: a.IA, Inserter: a.Store, Verifier: a.Verifier, Interfaces: a.IfState}

	signerGen := trust.SignerGen{IA: a.IA, KeyRing: keyRing{a}, DB: a.TrustDB}
	real := &beaconing.DefaultExtender{
		IA: a.IA,
		SignerGen: beaconing.SignerGenFunc(func(ctx context.Context) ([]beaconing.Signer, error) {
			// same adaptation as control/cmd/control/main.go
			signers, err := signerGen.Generate(ctx)
			if err != nil {
				return nil, err
			}
			if len(signers) == 0 {
				return nil, nil
			}
			out := make([]beaconing.Signer, 0, len(signers))
			for _, s := range signers {
				out = append(out, s)
			}
			return out, nil
		}),
		MAC:                  func() hash.Hash { return &yieldHash{Hash: a.MacFac(), w: w} },
		Intfs:                a.IfState,
		MTU:                  a.MTU,
		MaxExpTime:           func() uint8 { return a.Store.MaxExpTime(beacon.PropPolicy) },
		Task:                 "sim",
		StaticInfo:           func() *beaconing.StaticInfoCfg { return nil },
		DiscoveryInformation: func() *discovery.Extension { return nil },
		EPIC:                 w.cfg.EPIC && r.Chance("as.epic", 1, 3),
	}
	a.Ext = &recExtender{w: w, a: a, real: real}
	sf := &senderFactory{w: w, a: a}
	a.provider = &oneProvider{}
	if a.Core {
		a.Orig = &beaconing.Originator{
			Extender:              a.Ext,
			SenderFactory:         sf,
			IA:                    a.IA,
			AllInterfaces:         a.IfState,
			OriginationInterfaces: func() []*ifstate.Interface { return a.cur },
			Tick:                  beaconing.NewTick(0),
		}
	}
	a.Prop = &beaconing.Propagator{
		Extender:              a.Ext,
		SenderFactory:         sf,
		Provider:              a.provider,
		IA:                    a.IA,
		AllInterfaces:         a.IfState,
		PropagationInterfaces: func() []*ifstate.Interface { return a.cur },
		AllowIsdLoop:          a.Pols[0].AllowISDLoop, // as wired by the control service: the propagation policy's switch
		Tick:                  beaconing.NewTick(0),
	}
}

// recVerifier records, at the verifier seam of the handler, for which ASes a signature check was
// attempted at this control service in the current clock epoch (= whose chains its verifier cache
// may hold). Used only to classify violations (signature suffix ":cached").
type recVerifier struct {
	compat.Verifier
	w *World
	a *AS
}

func (v recVerifier) WithIA(ia addr.IA) infra.Verifier {
	v.Verifier = v.Verifier.WithIA(ia).(compat.Verifier)
	return v
}

func (v recVerifier) WithServer(s net.Addr) infra.Verifier {
	v.Verifier = v.Verifier.WithServer(s).(compat.Verifier)
	return v
}

func (v recVerifier) WithValidity(val cppki.Validity) infra.Verifier {
	v.Verifier = v.Verifier.WithValidity(val).(compat.Verifier)
	return v
}

func (v recVerifier) Verify(ctx context.Context, msg *cryptopb.SignedMessage, ad ...[]byte) (*signed.Message, error) {
	m, err := v.Verifier.Verify(ctx, msg, ad...)
	// the chain lookup (and with it the cache fill) precedes the signature check: any attempt counts
	if v.w.warm[v.a.Idx] == nil {
		v.w.warm[v.a.Idx] = map[addr.IA]int{}
	}
	v.w.warm[v.a.Idx][v.BoundIA] = v.w.epochNo
	return m, err
}

// oneProvider serves exactly the beacons the simulator hands to one Propagator.Run.
type oneProvider struct{ next []beacon.Beacon }

func (p *oneProvider) BeaconsToPropagate(ctx context.Context) ([]beacon.Beacon, error) {
	return p.next, nil
}

func newWorld(r *core.Run, cfg *Config) *World {
	w := &World{r: r, cfg: cfg, ISDs: map[addr.ISD]*isdPKI{}, T0: time.Now(), id: worldCounter.Add(1),
		ctx: context.Background()}
	w.epochStart = w.T0
	w.warm = map[int]map[addr.IA]int{}
	w.net = &Network{w: w}
	w.genTopology()
	w.buildPKI()
	for _, a := range w.ASes {
		w.buildAS(a)
	}
	// chains of the other ASes: preloaded, or left to the fetching provider
	for _, a := range w.ASes {
		if cfg.Fetching && r.Chance("trust.fetch.mode", 1, 3) {
			r.Probe("as-without-preloaded-chains")
			continue
		}
		for _, b := range w.ASes {
			if a == b {
				continue
			}
			for _, c := range b.Creds {
				if _, err := a.TrustDB.InsertChain(w.ctx, c.Chain); err != nil {
					panic(core.InfraError{Msg: "preloading chain: " + err.Error()})
				}
			}
		}
	}
	return w
}

func (w *World) close() {
	for _, a := range w.ASes {
		if a.BeaconDB != nil {
			a.BeaconDB.Close()
		}
		a.TrustDB.Close()
	}
}

// yieldHash wraps the hop-field MAC handed to the real extender: while concurrentExtend runs, every
// operation on it parks the calling goroutine until the seeded scheduler grants it.
type yieldHash struct {
	hash.Hash
	w *World
}

func (y *yieldHash) yield(site string) {
	if s := y.w.xsched; s != nil {
		s.Yield(site)
	}
}
func (y *yieldHash) Write(b []byte) (int, error) { y.yield("mac.write"); return y.Hash.Write(b) }
func (y *yieldHash) Sum(b []byte) []byte         { y.yield("mac.sum"); return y.Hash.Sum(b) }
func (y *yieldHash) Reset()                      { y.yield("mac.reset"); y.Hash.Reset() }
