//go:build verif

package beaconsim

import (
	"bytes"
	"context"
	"crypto/ecdsa"
	"crypto/sha256"
	"fmt"
	"runtime/debug"
	"sort"
	"strings"
	"time"

	"google.golang.org/protobuf/proto"

	"github.com/scionproto/scion/control/beacon"
	"github.com/scionproto/scion/control/beaconing"
	"github.com/scionproto/scion/pkg/addr"
	cppb "github.com/scionproto/scion/pkg/proto/control_plane"
	cryptopb "github.com/scionproto/scion/pkg/proto/crypto"
	seg "github.com/scionproto/scion/pkg/segment"
	"github.com/scionproto/scion/private/topology"
	"verif/sim/core"
	"verif/sim/refmodel"
)

// All oracles in this file are written from the property statements C23..C26 and the protocol
// documentation (hop-field MAC input, segment-id chaining, signature input = header-and-body
// followed by the associated data: segment info, then header-and-body and signature of every
// earlier entry). They never call the function under test.

// lifetime of a hop field with relative expiry e: (1+e) * 24h/256.
func lifetime(e uint8) time.Duration { return time.Duration(int(e)+1) * (24 * time.Hour / 256) }

func splitHB(hb []byte) (hdr, body []byte) {
	var m cryptopb.HeaderAndBody
	if err := proto.Unmarshal(hb, &m); err != nil {
		return nil, nil
	}
	return m.Header, m.Body
}

// sigDigest is the ECDSA/SHA-256 signature input of entry idx of a wire beacon.
func sigDigest(pb *cppb.PathSegment, idx int) []byte {
	h := sha256.New()
	h.Write(pb.AsEntries[idx].Signed.HeaderAndBody)
	h.Write(pb.SegmentInfo)
	for j := 0; j < idx; j++ {
		h.Write(pb.AsEntries[j].Signed.HeaderAndBody)
		h.Write(pb.AsEntries[j].Signed.Signature)
	}
	return h.Sum(nil)
}

type verdict struct {
	ok       bool   // every entry signed by a key certified for its ISD-AS, certificate covering the hop lifetime
	why      string // first reason for !ok
	dontcare bool   // expired segment / certificate no longer valid now: not judged
	entries  int
	badIA    addr.IA // AS named by the first entry that does not verify
}

// refVerify decides from ground truth (the PKI the simulator created) whether a wire beacon
// verifies according to the statement of C24.
func (w *World) refVerify(pb *cppb.PathSegment) verdict {
	v := verdict{ok: true, entries: len(pb.AsEntries)}
	bad := func(f string, a ...any) {
		if v.ok {
			v.ok = false
			v.why = fmt.Sprintf(f, a...)
		}
	}
	var info cppb.SegmentInformation
	if err := proto.Unmarshal(pb.SegmentInfo, &info); err != nil {
		bad("info unparsable")
		return v
	}
	ts := time.Unix(info.Timestamp, 0)
	now := time.Now()
	if len(pb.AsEntries) == 0 {
		bad("no entries")
		return v
	}
	for i, e := range pb.AsEntries {
		if e == nil || e.Signed == nil {
			bad("entry %d unsigned", i)
			continue
		}
		b := bodyOf(e)
		if b == nil {
			bad("entry %d body unparsable", i)
			continue
		}
		exp := b.GetHopEntry().GetHopField().GetExpTime()
		if exp > 255 {
			bad("entry %d exptime out of range", i)
			continue
		}
		end := ts.Add(lifetime(uint8(exp)))
		if now.After(end) {
			v.dontcare = true
		}
		a := w.byIA[addr.IA(b.IsdAs)]
		if a == nil {
			bad("entry %d names unknown AS %s", i, addr.IA(b.IsdAs))
			continue
		}
		digest := sigDigest(pb, i)
		found, covered := false, false
		for _, c := range a.Creds {
			if ecdsa.VerifyASN1(&c.Key.PublicKey, digest, e.Signed.Signature) {
				found = true
				if !ts.Before(c.NotBefore) && !end.After(c.NotAfter) {
					covered = true
					if now.After(c.NotAfter) || now.Before(c.NotBefore) {
						v.dontcare = true
					}
				}
			}
		}
		if (!found || !covered) && v.ok {
			v.badIA = a.IA
		}
		switch {
		case !found:
			bad("entry %d (%s): signature not by a key certified for that AS", i, a.IA)
		case !covered:
			bad("entry %d (%s): certificate does not cover the hop lifetime", i, a.IA)
		}
	}
	return v
}

// ---- C25: loop rule on every send ----

func isdLoop(hops []addr.IA) bool {
	seen := map[addr.ISD]bool{}
	var last addr.ISD
	for i, h := range hops {
		if i > 0 && h.ISD() == last {
			continue
		}
		if seen[h.ISD()] {
			return true
		}
		seen[h.ISD()] = true
		last = h.ISD()
	}
	return false
}

func asRepeated(hops []addr.IA) bool {
	seen := map[addr.IA]bool{}
	for _, h := range hops {
		if seen[h] {
			return true
		}
		seen[h] = true
	}
	return false
}

func (w *World) checkSend(a *AS, in *Intf, dst addr.IA, b *seg.PathSegment) {
	if !w.cfg.JudgeC25 {
		return
	}
	hops := make([]addr.IA, 0, len(b.ASEntries)+1)
	var without []addr.IA // the same walk without the sender's own (last) entry
	for i, e := range b.ASEntries {
		hops = append(hops, e.Local)
		if i < len(b.ASEntries)-1 {
			without = append(without, e.Local)
		}
	}
	hops = append(hops, in.Remote.IA)
	without = append(without, in.Remote.IA)
	if asRepeated(hops) {
		sig := "send:as-loop"
		if !asRepeated(without) {
			sig += ":closed-by-local-as"
		}
		if w.viol("c25-propagated-as-loop", sig, "%s sent a beacon over #%d to %s creating an AS loop: %v", a.IA, in.ID, in.Remote.IA, hops) {
			return
		}
	}
	if !a.Pols[0].AllowISDLoop && isdLoop(hops) {
		sig := "send:isd-loop"
		if !isdLoop(without) {
			sig += ":closed-by-local-as"
		}
		if w.viol("c25-propagated-isd-loop", sig, "%s (ISD loops disallowed) sent a beacon over #%d to %s creating an ISD loop: %v", a.IA, in.ID, in.Remote.IA, hops) {
			return
		}
	}
	if isdLoop(hops) {
		w.r.Probe("isd-loop-allowed-and-sent")
	}
	if dst != in.Remote.IA {
		w.r.Fail("c25-sender-wrong-neighbour", "send:dst", "%s opened a sender to %s over #%d whose neighbour is %s", a.IA, dst, in.ID, in.Remote.IA)
	}
}

// ---- C23: recording decorator around the real extender ----

type recExtender struct {
	w    *World
	a    *AS
	real *beaconing.DefaultExtender
	n    int
}

type entrySnap struct{ hb, sig []byte }

func (x *recExtender) Extend(ctx context.Context, ps *seg.PathSegment, ingress, egress uint16, peers []uint16) error {
	w := x.w
	pre := make([]entrySnap, len(ps.ASEntries))
	for i, e := range ps.ASEntries {
		pre[i] = entrySnap{append([]byte(nil), e.Signed.HeaderAndBody...), append([]byte(nil), e.Signed.Signature...)}
	}
	beta := ps.Info.SegmentID
	for _, e := range ps.ASEntries {
		beta ^= uint16(e.HopEntry.HopField.MAC[0])<<8 | uint16(e.HopEntry.HopField.MAC[1])
	}
	err := x.real.Extend(ctx, ps, ingress, egress, peers)
	x.n++
	w.extends++
	if err != nil {
		w.r.Logf("extend %s in=%d eg=%d peers=%v n=%d -> error %s", x.a.IA, ingress, egress, peers, len(pre), errClass(err))
		if w.inOriginate && time.Since(w.T0) < 14*time.Minute {
			// every AS holds a certificate valid from before the start for at least 20 minutes, and the
			// shortest hop lifetime is 5m37.5s, so an origination must work during the first 14 minutes
			// (it was 15: infra error of the thorough tier, seed 3, an origination at 14m33s legitimately
			// refused with "duration too small"): a world in which not even an origination works would
			// make every check pass vacuously
			// (raised by the simulator goroutine after Run returns; this code runs inside a goroutine of the Originator)
			w.infra = fmt.Sprintf("origination at %s with a valid signer failed: %v", x.a.IA, err)
		}
	} else {
		e := ps.ASEntries[len(ps.ASEntries)-1]
		w.r.Logf("extend %s in=%d eg=%d peers=%v n=%d -> exp=%d npeer=%d", x.a.IA, ingress, egress, peers, len(pre),
			e.HopEntry.HopField.ExpTime, len(e.PeerEntries))
	}
	if w.cfg.JudgeC23 {
		w.checkExtend(x.a, pre, beta, ps, ingress, egress, peers, err)
	}
	return err
}

func errClass(err error) string {
	s := err.Error()
	if i := strings.IndexAny(s, "{["); i > 0 {
		s = s[:i]
	}
	if len(s) > 90 {
		s = s[:90]
	}
	return strings.TrimSpace(s)
}

func (w *World) checkExtend(a *AS, pre []entrySnap, beta uint16, ps *seg.PathSegment, ingress, egress uint16,
	peers []uint16, err error) {

	r := w.r
	first := len(pre) == 0
	pos := "mid"
	if first {
		pos = "first"
	} else if egress == 0 {
		pos = "last"
	}
	inconsistent := (ingress == 0 && !first) || (ingress != 0 && first) || (ingress == 0 && egress == 0)
	if inconsistent {
		r.Covered(fmt.Sprintf("ext:inconsistent:%s:in0=%v:eg0=%v", pos, ingress == 0, egress == 0))
		if err == nil {
			r.Fail("c23-inconsistent-accepted", "extend:inconsistent", "%s extended a beacon of %d entries with ingress %d egress %d without error",
				a.IA, len(pre), ingress, egress)
		}
		return
	}
	if err != nil {
		r.Covered("ext:error:" + pos)
		return
	}
	if len(ps.ASEntries) != len(pre)+1 {
		r.Fail("c23-entry-count", "extend:count", "%s: %d entries before, %d after a successful Extend", a.IA, len(pre), len(ps.ASEntries))
		return
	}
	for i := range pre {
		if !bytes.Equal(pre[i].hb, ps.ASEntries[i].Signed.HeaderAndBody) || !bytes.Equal(pre[i].sig, ps.ASEntries[i].Signed.Signature) {
			r.Fail("c23-earlier-entry-changed", "extend:earlier", "%s changed earlier entry %d while extending", a.IA, i)
			return
		}
	}
	e := ps.ASEntries[len(pre)]
	// Local / Next from topology ground truth
	var next addr.IA
	if egress != 0 {
		out := a.Intfs[egress]
		if out == nil {
			r.Fail("c23-unknown-egress", "extend:egress", "%s produced an entry for egress %d which it does not have", a.IA, egress)
			return
		}
		next = out.Remote.IA
	}
	if e.Local != a.IA || e.Next != next {
		r.Fail("c23-local-next", "extend:local-next", "%s egress %d: entry names local %s next %s, topology says %s / %s", a.IA, egress,
			e.Local, e.Next, a.IA, next)
		return
	}
	// signature over info || earlier entries and signatures, by a key of this AS
	pb := seg.PathSegmentToPB(ps)
	idx := len(pre)
	digest := sigDigest(pb, idx)
	var signer *cred
	for _, c := range a.Creds {
		if ecdsa.VerifyASN1(&c.Key.PublicKey, digest, e.Signed.Signature) {
			signer = c
		}
	}
	if signer == nil {
		r.Fail("c23-signature", "extend:signature", "%s: signature of the new entry %d does not verify under any key of the AS over info, earlier entries and signatures", a.IA, idx)
		return
	}
	// the signed body is the entry
	b := bodyOf(pb.AsEntries[idx])
	if b == nil {
		r.Fail("c23-signed-body", "extend:body", "%s: signed body of the new entry unparsable", a.IA)
		return
	}
	hf := e.HopEntry.HopField
	shf := b.GetHopEntry().GetHopField()
	if addr.IA(b.IsdAs) != a.IA || addr.IA(b.NextIsdAs) != next || shf.GetIngress() != uint64(hf.ConsIngress) ||
		shf.GetEgress() != uint64(hf.ConsEgress) || shf.GetExpTime() != uint32(hf.ExpTime) || !bytes.Equal(shf.GetMac(), hf.MAC[:]) ||
		len(b.PeerEntries) != len(e.PeerEntries) {
		r.Fail("c23-signed-body", "extend:body", "%s: signed body differs from the AS entry (local/next/hop field/peers)", a.IA)
		return
	}
	ts := ps.Info.Timestamp
	ts32 := uint32(ts.Unix())
	if hf.ConsIngress != ingress || hf.ConsEgress != egress {
		r.Fail("c23-hop-interfaces", "extend:hop-ifs", "%s: hop field %d>%d for Extend(ingress %d, egress %d)", a.IA, hf.ConsIngress, hf.ConsEgress, ingress, egress)
		return
	}
	want := refmodel.HopMACFull(a.RefKey, beta, ts32, hf.ExpTime, hf.ConsIngress, hf.ConsEgress)
	if !bytes.Equal(want[:6], hf.MAC[:]) {
		r.Fail("c23-hop-mac", "extend:hop-mac", "%s entry %d: hop MAC %x, reference %x (beta %04x ts %d exp %d %d>%d)", a.IA, idx, hf.MAC, want[:6],
			beta, ts32, hf.ExpTime, hf.ConsIngress, hf.ConsEgress)
		return
	}
	maxExp := a.Pols[0].MaxExp
	notAfter := signer.NotAfter
	if t := w.ISDs[a.IA.ISD()].TRC.TRC.Validity.NotAfter; t.Before(notAfter) {
		notAfter = t
	}
	checkExp := func(what string, exp uint8) bool {
		if exp > maxExp {
			r.Fail("c23-exp-over-max", "extend:exp-max", "%s %s: ExpTime %d exceeds the configured maximum %d", a.IA, what, exp, maxExp)
			return false
		}
		if end := ts.Add(lifetime(exp)); end.After(notAfter) {
			r.Fail("c23-exp-over-signer", "extend:exp-signer", "%s %s: hop expiry %s (ExpTime %d) is after the signer expiry %s", a.IA, what,
				end.UTC().Format(time.RFC3339), exp, notAfter.UTC().Format(time.RFC3339))
			return false
		}
		return true
	}
	if !checkExp("hop field", hf.ExpTime) {
		return
	}
	peerBeta := beta ^ (uint16(hf.MAC[0])<<8 | uint16(hf.MAC[1]))
	for k, pe := range e.PeerEntries {
		pin := a.Intfs[pe.HopField.ConsIngress]
		listed := false
		for _, p := range peers {
			if p == pe.HopField.ConsIngress {
				listed = true
			}
		}
		if pin == nil || pin.Type != topology.Peer || !listed {
			r.Fail("c23-peer-entry", "extend:peer-if", "%s: peer entry %d for interface %d which is not a requested peering interface", a.IA, k, pe.HopField.ConsIngress)
			return
		}
		if pe.Peer != pin.Remote.IA || pe.PeerInterface != pin.RemoteID || pe.HopField.ConsEgress != egress {
			r.Fail("c23-peer-entry", "extend:peer-remote", "%s: peer entry %d names %s#%d egress %d, topology %s#%d egress %d", a.IA, k, pe.Peer,
				pe.PeerInterface, pe.HopField.ConsEgress, pin.Remote.IA, pin.RemoteID, egress)
			return
		}
		pw := refmodel.HopMACFull(a.RefKey, peerBeta, ts32, pe.HopField.ExpTime, pe.HopField.ConsIngress, pe.HopField.ConsEgress)
		if !bytes.Equal(pw[:6], pe.HopField.MAC[:]) {
			r.Fail("c23-peer-mac", "extend:peer-mac", "%s entry %d peer %d (if %d): MAC %x, reference %x (beta %04x)", a.IA, idx, k,
				pe.HopField.ConsIngress, pe.HopField.MAC, pw[:6], peerBeta)
			return
		}
		if !checkExp(fmt.Sprintf("peer hop field %d", k), pe.HopField.ExpTime) {
			return
		}
		spe := b.PeerEntries[k]
		if addr.IA(spe.PeerIsdAs) != pe.Peer || spe.PeerInterface != uint64(pe.PeerInterface) ||
			!bytes.Equal(spe.GetHopField().GetMac(), pe.HopField.MAC[:]) || spe.GetHopField().GetExpTime() != uint32(pe.HopField.ExpTime) {
			r.Fail("c23-signed-body", "extend:body-peer", "%s: signed peer entry %d differs from the AS entry", a.IA, k)
			return
		}
	}
	capped := hf.ExpTime < maxExp
	if capped {
		r.Probe("exp-capped-by-signer")
	}
	if len(a.Creds) > 1 && signer == a.Creds[1] {
		r.Probe("signed-with-second-credential")
	}
	np := len(e.PeerEntries)
	if np > 2 {
		np = 2
	}
	nn := len(pre)
	if nn > 4 {
		nn = 4
	}
	r.Covered(fmt.Sprintf("ext:ok:%s:n%d:peers%d:capped=%v", pos, nn, np, capped))
	w.extendsOK++
}

// ---- C26: recording decorator around the real default selection algorithm ----

type recAlgo struct {
	w    *World
	a    *AS
	real beacon.SelectionAlgorithm
}

type link struct {
	ia addr.IA
	eg uint16
}

func linksOf(b beacon.Beacon) []link {
	out := make([]link, 0, len(b.Segment.ASEntries))
	for _, e := range b.Segment.ASEntries {
		out = append(out, link{e.Local, e.HopEntry.HopField.ConsEgress})
	}
	return out
}

// diversityWrtFirst: number of links (AS, egress interface) of the first beacon that do not
// appear in c (the documented, asymmetric link diversity).
func diversityWrtFirst(first, c beacon.Beacon) int {
	cl := linksOf(c)
	d := 0
	for _, l := range linksOf(first) {
		found := false
		for _, m := range cl {
			if m == l {
				found = true
			}
		}
		if !found {
			d++
		}
	}
	return d
}

func (s *recAlgo) SelectBeacons(ctx context.Context, beacons []beacon.Beacon, k int) []beacon.Beacon {
	w, r := s.w, s.w.r
	in := append([]beacon.Beacon(nil), beacons...)
	var out []beacon.Beacon
	var panicked any
	var stack string
	func() {
		defer func() {
			if x := recover(); x != nil {
				panicked = x
				stack = string(debug.Stack())
			}
		}()
		out = s.real.SelectBeacons(ctx, beacons, k)
	}()
	n := len(in)
	w.selects++
	if panicked != nil {
		sig := "panic:SelectBeacons:" + core.PanicSite(stack)
		r.Logf("select %s n=%d k=%d -> PANIC %v", s.a.IA, n, k, panicked)
		switch {
		case r.IsKnown(sig):
			r.NoteKnown(sig)
		case w.cfg.JudgeC26:
			lens := make([]int, n)
			for i, b := range in {
				lens[i] = len(b.Segment.ASEntries)
			}
			r.Fail("no-panic", sig, "SelectBeacons panicked for %d candidates (lengths %v) and result size %d: %v", n, lens, k, panicked)
		default:
			panic(core.InfraError{Msg: fmt.Sprintf("SelectBeacons panicked (n=%d k=%d): %v", n, k, panicked)})
		}
		if k > n {
			k = n
		}
		return in[:k]
	}
	if !w.cfg.JudgeC26 {
		return out
	}
	idxOf := func(b beacon.Beacon) int {
		for i := range in {
			if in[i].Segment == b.Segment && in[i].InIfID == b.InIfID {
				return i
			}
		}
		return -1
	}
	desc := func() string {
		var sb strings.Builder
		for i, b := range in {
			fmt.Fprintf(&sb, " c%d(len %d, div %d)", i, len(b.Segment.ASEntries), diversityWrtFirst(in[0], b))
		}
		sb.WriteString(" ->")
		for _, b := range out {
			fmt.Fprintf(&sb, " c%d", idxOf(b))
		}
		return sb.String()
	}
	if n > 0 {
		r.Logf("select %s n=%d k=%d:%s", s.a.IA, n, k, desc())
	}
	for i := 1; i < n; i++ {
		if len(in[i].Segment.ASEntries) < len(in[i-1].Segment.ASEntries) {
			// precondition of the statement (candidates ordered by length) not met: not judged here
			r.Probe("candidates-not-ordered")
			return out
		}
	}
	fail := func(id, f string, a ...any) {
		r.Fail(id, "select:"+id, "%s n=%d k=%d:%s: %s", s.a.IA, n, k, desc(), fmt.Sprintf(f, a...))
	}
	if n <= k {
		r.Covered(fmt.Sprintf("sel:all:n%d", min(n, 6)))
		if len(out) != n {
			fail("c26-all", "n <= k but %d of %d candidates returned", len(out), n)
			return out
		}
		for i := range out {
			if idxOf(out[i]) != i {
				fail("c26-all", "n <= k but result position %d is not candidate %d", i, i)
				return out
			}
		}
		return out
	}
	if k == 1 {
		// the statement's formula is degenerate for k = 1: only "one of the candidates" is demanded
		r.Covered("sel:k1")
		if len(out) != 1 || idxOf(out[0]) < 0 {
			fail("c26-k1", "k = 1: result is not exactly one of the candidates")
		}
		return out
	}
	if len(out) != k {
		fail("c26-count", "%d results, want exactly k", len(out))
		return out
	}
	for i := 0; i < k-1; i++ {
		if idxOf(out[i]) != i {
			fail("c26-first", "result position %d is not candidate %d (the k-1 first ones must be returned)", i, i)
			return out
		}
	}
	bestFirst := -1
	for i := 0; i < k-1; i++ {
		bestFirst = max(bestFirst, diversityWrtFirst(in[0], in[i]))
	}
	bestRest, minLen := -1, 1<<30
	for i := k - 1; i < n; i++ {
		d := diversityWrtFirst(in[0], in[i])
		l := len(in[i].Segment.ASEntries)
		if d > bestRest || (d == bestRest && l < minLen) {
			bestRest, minLen = d, l
		}
	}
	got := idxOf(out[k-1])
	if got < k-1 {
		fail("c26-last", "the further candidate is not one of the remaining candidates")
		return out
	}
	if bestRest > bestFirst {
		ties := 0
		for i := k - 1; i < n; i++ {
			if diversityWrtFirst(in[0], in[i]) == bestRest {
				ties++
			}
		}
		r.Covered(fmt.Sprintf("sel:diverse:ties%d:at%d", min(ties, 3), min(got-(k-1), 3)))
		if ties > 1 {
			r.Probe("selection-diversity-tie")
		}
		gd, gl := diversityWrtFirst(in[0], in[got]), len(in[got].Segment.ASEntries)
		if gd != bestRest || gl != minLen {
			fail("c26-most-diverse", "remaining candidates reach diversity %d (shortest such: %d entries) > %d among the first k-1, but c%d (diversity %d, %d entries) was returned",
				bestRest, minLen, bestFirst, got, gd, gl)
		}
		return out
	}
	r.Covered(fmt.Sprintf("sel:fallback:n%d:k%d", min(n, 6), min(k, 5)))
	if got != k-1 {
		fail("c26-fallback", "no remaining candidate is more diverse than the first k-1 (best %d vs %d) but c%d was returned instead of the first remaining c%d",
			bestRest, bestFirst, got, k-1)
	}
	return out
}

// ---- C25: decision rule for every HandleBeacon, evaluated on ground truth ----

func (sp *polSpec) accepts(hops []addr.IA) (bool, string) {
	if len(hops) > sp.MaxLen {
		return false, "too long"
	}
	if !sp.AllowISDLoop && isdLoop(hops) {
		return false, "ISD loop"
	}
	for _, h := range hops {
		for _, b := range sp.BlockAS {
			if h.AS() == b {
				return false, "blocked AS"
			}
		}
		for _, b := range sp.BlockISD {
			if h.ISD() == b {
				return false, "blocked ISD"
			}
		}
	}
	return true, ""
}

type row struct {
	key   [32]byte
	inIf  uint16
	usage beacon.Usage
	hops  []addr.IA
	segID string
}

func (w *World) rows(a *AS) map[string]row {
	res, err := a.BeaconDB.GetBeacons(w.ctx, nil)
	if err != nil {
		panic(core.InfraError{Msg: "GetBeacons: " + err.Error()})
	}
	out := map[string]row{}
	for _, b := range res {
		pb := seg.PathSegmentToPB(b.Beacon.Segment)
		var hops []addr.IA
		for _, e := range b.Beacon.Segment.ASEntries {
			hops = append(hops, e.Local)
		}
		id := fmt.Sprintf("%x", b.Beacon.Segment.ID())
		out[id] = row{key: signedKey(pb), inIf: b.Beacon.InIfID, usage: b.Usage, hops: hops, segID: id}
	}
	return out
}

func usageNames(u beacon.Usage, a *AS) string {
	var n []string
	for _, p := range a.Pols {
		if u&p.Usage != 0 {
			n = append(n, p.Name)
		}
	}
	sort.Strings(n)
	return strings.Join(n, "+")
}
