//go:build verif

package beaconsim

import (
	"fmt"
	"testing"
	"time"

	"google.golang.org/protobuf/proto"

	"github.com/scionproto/scion/control/beacon"
	"github.com/scionproto/scion/control/ifstate"
	"github.com/scionproto/scion/pkg/addr"
	cppb "github.com/scionproto/scion/pkg/proto/control_plane"
	seg "github.com/scionproto/scion/pkg/segment"
	"github.com/scionproto/scion/pkg/snet"
	"github.com/scionproto/scion/private/segment/segverifier"
	"github.com/scionproto/scion/private/topology"
	"verif/sim/core"
)

// Config selects workload, fault classes and the oracles that are judged in a campaign.
type Config struct {
	Prop string

	Faults        bool // transport faults: drop, dup, delay, wronglink, replay
	Tamper        bool // in-flight tampering and forging with a compromised AS key
	FaultyCaller  bool // direct Extend calls with inconsistent ingress/egress
	SignerWindows bool // AS certificates with short / staggered validity windows
	ClockJumps    bool // large clock advances (hours)
	Policies      bool // block lists and ISD-loop switch drawn
	AllowK1       bool // BestSetSize may be 1
	VerifierCache bool // verifier chain cache may be enabled (as wired in the control service)
	Fetching      bool // some ASes start without the other ASes' chains (real FetchingProvider path)
	EPIC          bool
	Rich          bool // denser topologies (parallel links, more parents) and small best-set sizes: many candidates per selection
	MinSteps      int
	MaxSteps      int

	JudgeC23, JudgeC24, JudgeC25, JudgeC26 bool
}

// cacheMax is the verifier's MaxCacheExpiration. Entries expire at a uniformly random instant in
// [cacheMax/2, cacheMax) after insertion (math/rand/v2, not seedable). The simulated clock
// therefore moves in epochs: inside an epoch less than cacheMax/2 elapses in total, between
// epochs more than cacheMax, so a lookup never falls into the random window.
const cacheMax = time.Hour
const epochBudget = 25 * time.Minute

type counters struct {
	extends, extendsOK, selects, handled, stored, rejected, tampered int
}

func (w *World) advance(d time.Duration) {
	time.Sleep(d)
	w.r.Logf("clock +%s (now T0+%s)", d, time.Since(w.T0))
}

func (w *World) tick() {
	r := w.r
	steps := []time.Duration{time.Second, 7 * time.Second, 40 * time.Second, 3 * time.Minute}
	d := steps[r.Choice("tick", len(steps))]
	if time.Since(w.epochStart)+d >= epochBudget {
		if w.cfg.ClockJumps {
			w.jump()
		}
		return
	}
	w.advance(d)
}

func (w *World) jump() {
	r := w.r
	jumps := []time.Duration{2 * time.Hour, 5 * time.Hour, 11 * time.Hour, 23 * time.Hour, 49 * time.Hour}
	d := jumps[r.Choice("jump", len(jumps))] + time.Duration(r.Choice("jump.residue.s", 600))*time.Second
	w.advance(d)
	w.epochStart = time.Now()
	w.epochNo++
	r.Fault("clock.jump")
	// what the periodic storage cleaner of the control service would have done meanwhile
	for _, a := range w.ASes {
		n, err := a.BeaconDB.DeleteExpiredBeacons(w.ctx, time.Now())
		if err != nil {
			panic(core.InfraError{Msg: "DeleteExpiredBeacons: " + err.Error()})
		}
		if n > 0 {
			r.Logf("cleaner %s removed %d expired beacons", a.IA, n)
			r.Probe("expired-beacons-cleaned")
		}
	}
}

// ---- delivery ----

// handle gives a wire beacon to the real handler of AS to on interface inIf and evaluates the
// C24 / C25 oracles.
func (w *World) handle(to *AS, inIf uint16, from addr.IA, raw []byte, label string, forgedBy *AS) {
	r := w.r
	var pb cppb.PathSegment
	if err := proto.Unmarshal(raw, &pb); err != nil {
		r.Logf("deliver %s at %s#%d: wire bytes unparsable", label, to.IA, inIf)
		return
	}
	gt := w.refVerify(&pb)
	key := signedKey(&pb)
	honest := w.net.honest[key]
	if honest && !gt.ok && !gt.dontcare && (w.cfg.JudgeC23 || w.cfg.JudgeC24) {
		// an honestly produced beacon must verify (C23: signed correctly; C24: "if" direction)
		r.Fail("honest-beacon-unverifiable", "honest:unverifiable", "beacon %s sent by an honest control service does not verify by the reference: %s",
			descPB(&pb), gt.why)
		return
	}
	ps, err := seg.BeaconFromPB(&pb)
	if err != nil {
		r.Logf("deliver %s at %s#%d %s: rejected at parse (%s)", label, to.IA, inIf, descPB(&pb), errClass(err))
		w.cnt.rejected++
		if honest && (w.cfg.JudgeC24 || w.cfg.JudgeC23) {
			r.Fail("honest-beacon-unparsable", "honest:unparsable", "honest beacon %s rejected by BeaconFromPB: %v", descPB(&pb), err)
		}
		return
	}
	// C24: the real segment verification of the receiving AS against the reference verdict
	if w.cfg.JudgeC24 {
		verr := segverifier.VerifySegment(w.ctx, to.Verifier, nil, ps)
		real := verr == nil
		switch {
		case real && !gt.ok:
			if w.viol("c24-accepted-invalid", "verify:accepted:"+reasonClass(gt.why)+w.cachedClass(to, gt), "%s verified %s (%s) although: %s", to.IA, descPB(&pb), label, gt.why) {
				return
			}
		case !real && gt.ok && !gt.dontcare:
			r.Fail("c24-rejected-valid", "verify:rejected", "%s rejected %s (%s) although every entry is signed by a certified key covering its lifetime: %s",
				to.IA, descPB(&pb), label, errClass(verr))
			return
		}
		r.Covered(fmt.Sprintf("verify:%v:n%d:%s", real, min(gt.entries, 6), labelClass(label)))
	}
	cachedBefore := w.cachedClass(to, gt)
	before := w.rows(to)
	peer := &snet.UDPAddr{IA: from}
	herr := to.Handler.HandleBeacon(w.ctx, beacon.Beacon{Segment: ps, InIfID: inIf}, peer)
	after := w.rows(to)
	w.cnt.handled++

	// ground truth of the decision rule
	var hops []addr.IA
	for _, e := range pb.AsEntries {
		if b := bodyOf(e); b != nil {
			hops = append(hops, addr.IA(b.IsdAs))
		}
	}
	in := to.Intfs[inIf]
	linkOK := in != nil && (in.Type == topology.Parent || in.Type == topology.Core)
	last := bodyOf(pb.AsEntries[len(pb.AsEntries)-1])
	lastOK := in != nil && last != nil && addr.IA(last.IsdAs) == in.Remote.IA && addr.IA(last.NextIsdAs) == to.IA
	var accUsage beacon.Usage
	for i := range to.Pols {
		if ok, _ := to.Pols[i].accepts(hops); ok {
			accUsage |= to.Pols[i].Usage
		}
	}
	cond := linkOK && lastOK && gt.ok && accUsage != 0
	id := fmt.Sprintf("%x", ps.ID())
	storedNow := false
	if ra, ok := after[id]; ok {
		rb, was := before[id]
		storedNow = !was || rb.key != ra.key || rb.usage != ra.usage || rb.inIf != ra.inIf
	}
	lt := "none"
	if in != nil {
		lt = linkName(in.Type)
	}
	r.Logf("deliver %s at %s#%d(%s) %s: err=%v stored=%v | truth link=%v last=%v sig=%v(%s) pol=%s",
		label, to.IA, inIf, lt, descPB(&pb), herr != nil, storedNow, linkOK, lastOK, gt.ok, reasonClass(gt.why), usageNames(accUsage, to))
	if herr != nil {
		w.cnt.rejected++
	}
	if storedNow {
		w.cnt.stored++
		w.storedAt[to.Idx]++
	}
	loop := asRepeated(hops)
	r.Covered(fmt.Sprintf("handle:%s:link=%v:last=%v:sig=%v:pol=%v:stored=%v", lt, linkOK, lastOK, gt.ok, accUsage != 0, storedNow))
	cachedCls := cachedBefore
	if w.cfg.JudgeC24 && storedNow && !gt.ok {
		if w.viol("c24-stored-unverifiable", "store:unverifiable:"+reasonClass(gt.why)+cachedCls, "%s stored %s (%s) although: %s", to.IA, descPB(&pb), label, gt.why) {
			return
		}
	}
	if w.cfg.JudgeC25 {
		if storedNow && !cond && !loop {
			why := "no policy accepts it"
			switch {
			case !linkOK:
				why = "it arrived on a " + lt + " link"
			case !lastOK:
				why = "its last entry is not the neighbour of the interface naming the local AS as next"
			case !gt.ok:
				why = "signatures do not verify: " + gt.why
			}
			sig := "store:invalid:" + failClass(linkOK, lastOK, gt.ok)
			if linkOK && lastOK && !gt.ok {
				sig += ":" + reasonClass(gt.why) + cachedCls
			}
			if w.viol("c25-stored-invalid", sig, "%s stored beacon %s received on #%d (%s) although %s", to.IA, descPB(&pb), inIf, label, why) {
				return
			}
			cond = true // a listed known finding: the beacon is in the store; the later checks go on from there
		}
		if storedNow && !loop && after[id].usage != accUsage {
			r.Fail("c25-usage", "store:usage", "%s stored %s with usage [%s], accepting policies are [%s]", to.IA, descPB(&pb),
				usageNames(after[id].usage, to), usageNames(accUsage, to))
			return
		}
		if storedNow && after[id].key != key {
			r.Fail("c25-stored-other", "store:content", "%s: the stored beacon differs from the received one", to.IA)
			return
		}
		for k, rb := range before {
			if k == id {
				continue
			}
			if ra, ok := after[k]; !ok || ra.key != rb.key || ra.usage != rb.usage {
				r.Fail("c25-other-row-changed", "store:other-row", "%s: handling a beacon changed another stored beacon", to.IA)
				return
			}
		}
		if cond && !storedNow && herr != nil {
			r.Probe("valid-beacon-refused")
		}
		if storedNow {
			if w.validAt[to.Idx] == nil {
				w.validAt[to.Idx] = map[[32]byte]bool{}
			}
			w.validAt[to.Idx][key] = cond || loop
		}
		w.checkDB(to, after)
	}
}

func reasonClass(why string) string {
	switch {
	case why == "":
		return "ok"
	case containsAny(why, "not by a key"):
		return "signature"
	case containsAny(why, "does not cover"):
		return "validity"
	case containsAny(why, "unknown AS"):
		return "unknown-as"
	}
	return "malformed"
}

func containsAny(s string, subs ...string) bool {
	for _, x := range subs {
		for i := 0; i+len(x) <= len(s); i++ {
			if s[i:i+len(x)] == x {
				return true
			}
		}
	}
	return false
}

func labelClass(label string) string {
	for i := 0; i < len(label); i++ {
		if label[i] == ' ' || label[i] == '#' {
			return label[:i]
		}
	}
	return label
}

func failClass(linkOK, lastOK, sigOK bool) string {
	switch {
	case !linkOK:
		return "link"
	case !lastOK:
		return "neighbour"
	case !sigOK:
		return "signature"
	}
	return "policy"
}

// cachedClass tells whether the entry the reference verdict objects to belongs to an AS whose chain
// the receiver's verifier cache may hold (cache enabled, a signature of that AS verified there in
// this clock epoch). Part of violation signatures only.
func (w *World) cachedClass(to *AS, gt verdict) string {
	if gt.ok || !to.cacheOn || gt.badIA == 0 {
		return ""
	}
	if e, ok := w.warm[to.Idx][gt.badIA]; ok && e == w.epochNo {
		return ":cached"
	}
	return ""
}

// checkDB: no stored beacon exceeds a policy's maximum length or contains a blocked AS or ISD for
// the usages it is stored with; nothing is stored that was not received and found valid.
func (w *World) checkDB(a *AS, rows map[string]row) {
	r := w.r
	for _, id := range core.SortedKeys(rows) {
		rw := rows[id]
		if asRepeated(rw.hops) {
			continue
		}
		for i := range a.Pols {
			p := &a.Pols[i]
			if rw.usage&p.Usage == 0 {
				continue
			}
			if ok, why := p.accepts(rw.hops); !ok {
				r.Fail("c25-db-policy", "db:policy:"+why, "%s holds beacon %v with usage %s although that policy rejects it: %s", a.IA, rw.hops, p.Name, why)
				return
			}
		}
		if v, ok := w.validAt[a.Idx][rw.key]; !ok || !v {
			r.Fail("c25-db-unknown", "db:unknown", "%s holds beacon %v that was never received valid", a.IA, rw.hops)
			return
		}
	}
}

func (w *World) deliverNext() bool {
	r := w.r
	n := w.net
	if len(n.queue) == 0 {
		return false
	}
	k := r.Choice("deliver.pick", min(len(n.queue), 4))
	m := n.queue[k]
	if k > 0 {
		r.Probe("delivered-out-of-order")
	}
	keep := false
	if w.cfg.Faults {
		switch r.Choice("fault.transport", 12) {
		case 1:
			r.Fault("beacon.drop")
			n.queue = append(n.queue[:k:k], n.queue[k+1:]...)
			r.Logf("drop #%d", m.Seq)
			return true
		case 2:
			r.Fault("beacon.dup")
			keep = true
		case 3:
			r.Fault("beacon.delay")
			// stays queued while time passes; hop fields / certificates may expire meanwhile
			w.tick()
			return true
		case 4:
			if w.wrongLink(m) {
				n.queue = append(n.queue[:k:k], n.queue[k+1:]...)
				return true
			}
		}
	}
	if !keep {
		n.queue = append(n.queue[:k:k], n.queue[k+1:]...)
	}
	if w.cfg.Tamper && r.Chance("fault.tamper", 1, 3) {
		w.tamperAndDeliver(m)
		return true
	}
	w.handle(m.To, m.ToIf, m.From.IA, m.Raw, fmt.Sprintf("honest #%d", m.Seq), nil)
	return true
}

// wrongLink delivers the beacon on another interface of the receiver or to another AS.
func (w *World) wrongLink(m *Msg) bool {
	r := w.r
	to := m.To
	if r.Chance("wronglink.otheras", 1, 3) {
		to = w.ASes[r.Choice("wronglink.as", len(w.ASes))]
	}
	if len(to.ifIDs) == 0 {
		return false
	}
	var inIf uint16
	if r.Chance("wronglink.nonexistent", 1, 10) {
		inIf = to.ifIDs[len(to.ifIDs)-1] + 1
	} else {
		inIf = to.ifIDs[r.Choice("wronglink.if", len(to.ifIDs))]
	}
	if to == m.To && inIf == m.ToIf {
		return false
	}
	r.Fault("beacon.wronglink")
	w.handle(to, inIf, m.From.IA, m.Raw, fmt.Sprintf("wronglink #%d", m.Seq), nil)
	return true
}

func (w *World) replay() {
	r := w.r
	n := w.net
	if len(n.history) == 0 {
		return
	}
	m := n.history[r.Choice("replay.pick", len(n.history))]
	r.Fault("beacon.replay")
	if r.Chance("replay.wronglink", 1, 3) && w.wrongLink(m) {
		return
	}
	w.handle(m.To, m.ToIf, m.From.IA, m.Raw, fmt.Sprintf("replay #%d", m.Seq), nil)
}

// ---- actions on the real control services ----

func (w *World) originate() bool {
	r := w.r
	var cores []*AS
	for _, a := range w.ASes {
		if a.Core && len(a.ifsOfType(topology.Core, topology.Child)) > 0 {
			cores = append(cores, a)
		}
	}
	if len(cores) == 0 {
		return false
	}
	a := cores[r.Choice("orig.as", len(cores))]
	ids := a.ifsOfType(topology.Core, topology.Child)
	id := ids[r.Choice("orig.if", len(ids))]
	a.cur = []*ifstate.Interface{a.IfState.Get(id)}
	r.Logf("originate %s#%d", a.IA, id)
	w.inOriginate = true
	a.Orig.Run(w.ctx)
	w.inOriginate = false
	if w.infra != "" {
		panic(core.InfraError{Msg: w.infra})
	}
	return true
}

func (w *World) propagate(burst bool) bool {
	r := w.r
	var cands []*AS
	for _, a := range w.ASes {
		t := topology.Child
		if a.Core {
			t = topology.Core
		}
		if len(a.ifsOfType(t)) > 0 {
			cands = append(cands, a)
		}
	}
	if len(cands) == 0 {
		return false
	}
	// prefer control services that hold beacons (an empty store has nothing to propagate)
	var holding []*AS
	for _, a := range cands {
		if w.storedAt[a.Idx] > 0 {
			holding = append(holding, a)
		}
	}
	if len(holding) > 0 && !r.Chance("prop.any", 1, 8) {
		cands = holding
	}
	a := cands[r.Choice("prop.as", len(cands))]
	t := topology.Child
	if a.Core {
		t = topology.Core
	}
	ids := a.ifsOfType(t)
	if burst {
		// one propagation round of this control service: every interface, then the network drains
		rot := r.Choice("burst.rot", len(ids))
		for k := range ids {
			w.propagateOn(a, ids[(k+rot)%len(ids)], 2)
			if r.Failed() {
				return true
			}
		}
		for i := 0; i < 8 && !r.Failed() && len(w.net.queue) > 0; i++ {
			w.deliverNext()
		}
		return true
	}
	w.propagateOn(a, ids[r.Choice("prop.if", len(ids))], 4)
	return true
}

func (w *World) propagateOn(a *AS, id uint16, limit int) bool {
	r := w.r
	bs, err := a.Store.BeaconsToPropagate(w.ctx)
	if err != nil {
		panic(core.InfraError{Msg: "BeaconsToPropagate: " + err.Error()})
	}
	if r.Failed() {
		return true
	}
	r.Logf("propagate %s#%d: %d beacons selected", a.IA, id, len(bs))
	if len(bs) == 0 {
		return true
	}
	// the order in which the selected beacons are served is a scheduling decision
	rot := r.Choice("prop.rot", len(bs))
	bs = append(append([]beacon.Beacon(nil), bs[rot:]...), bs[:rot]...)
	if len(bs) > limit {
		bs = bs[:limit]
	}
	if len(w.net.queue) > 40 {
		bs = bs[:1]
	}
	for _, b := range bs {
		a.provider.next = []beacon.Beacon{b}
		a.cur = []*ifstate.Interface{a.IfState.Get(id)}
		a.Prop.Run(w.ctx)
		if r.Failed() {
			return true
		}
	}
	return true
}

func (w *World) registerSelect() bool {
	r := w.r
	a := w.ASes[r.Choice("reg.as", len(w.ASes))]
	t := seg.TypeCore
	if !a.Core {
		t = seg.TypeUp
		if r.Chance("reg.down", 1, 2) {
			t = seg.TypeDown
		}
	}
	bs, _, err := a.Store.SegmentsToRegister(w.ctx, t)
	if err != nil {
		panic(core.InfraError{Msg: "SegmentsToRegister: " + err.Error()})
	}
	r.Logf("segments-to-register %s %s: %d", a.IA, t, len(bs))
	return true
}

// faultyCall calls the real extender the way a faulty caller would: ingress/egress inconsistent
// with the entry's position, unknown interfaces, or a plain legitimate termination.
func (w *World) faultyCall() {
	r := w.r
	a := w.ASes[r.Choice("fc.as", len(w.ASes))]
	var ps *seg.PathSegment
	inIf := uint16(0)
	rows, err := a.BeaconDB.GetBeacons(w.ctx, nil)
	if err != nil {
		panic(core.InfraError{Msg: "GetBeacons: " + err.Error()})
	}
	if len(rows) > 0 && r.Chance("fc.received", 2, 3) {
		b := rows[r.Choice("fc.beacon", len(rows))]
		cp, err := seg.BeaconFromPB(seg.PathSegmentToPB(b.Beacon.Segment))
		if err != nil {
			panic(core.InfraError{Msg: "copying beacon: " + err.Error()})
		}
		ps, inIf = cp, b.Beacon.InIfID
	} else {
		ps, err = seg.CreateSegment(time.Now(), uint16(r.Choice("fc.segid", 1<<16)))
		if err != nil {
			panic(core.InfraError{Msg: "CreateSegment: " + err.Error()})
		}
	}
	pick := func(label string, proper uint16) uint16 {
		switch r.Choice(label, 4) {
		case 0:
			return proper
		case 1:
			return 0
		case 2:
			if len(a.ifIDs) > 0 {
				return a.ifIDs[r.Choice(label+".if", len(a.ifIDs))]
			}
			return 0
		}
		if len(a.ifIDs) > 0 {
			return a.ifIDs[len(a.ifIDs)-1] + 7 // an interface the AS does not have
		}
		return 9
	}
	var properEg uint16
	if ids := a.ifsOfType(topology.Child, topology.Core); len(ids) > 0 {
		properEg = ids[r.Choice("fc.eg", len(ids))]
	}
	in := pick("fc.in", inIf)
	eg := pick("fc.egress", properEg)
	peers := a.ifsOfType(topology.Peer)
	if len(peers) > 0 && r.Chance("fc.unknownpeer", 1, 4) {
		peers = append(peers, a.ifIDs[len(a.ifIDs)-1]+3)
	}
	r.Fault("caller.faulty")
	_ = a.Ext.Extend(w.ctx, ps, in, eg, peers)
}

// concurrentExtend: the originator extends one beacon per interface and the propagator one per
// (beacon, interface) pair in goroutines of their own, all on the AS's one extender. Here 2-4 such
// extensions of one AS run as real goroutines that the seeded scheduler interleaves at every MAC
// operation; each resulting entry is judged by the C23 oracle like any other.
func (w *World) concurrentExtend() {
	r := w.r
	a := w.ASes[r.Choice("cx.as", len(w.ASes))]
	egs := a.ifsOfType(topology.Child, topology.Core)
	if len(egs) == 0 {
		return
	}
	rows, err := a.BeaconDB.GetBeacons(w.ctx, nil)
	if err != nil {
		panic(core.InfraError{Msg: "GetBeacons: " + err.Error()})
	}
	type job struct {
		ps     *seg.PathSegment
		in, eg uint16
	}
	n := 2 + r.Choice("cx.n", 3)
	var jobs []job
	for k := 0; k < n; k++ {
		eg := egs[r.Choice("cx.eg", len(egs))]
		if len(rows) > 0 && r.Chance("cx.propagate", 1, 2) {
			b := rows[r.Choice("cx.beacon", len(rows))]
			cp, err := seg.BeaconFromPB(seg.PathSegmentToPB(b.Beacon.Segment))
			if err != nil {
				panic(core.InfraError{Msg: "copying beacon: " + err.Error()})
			}
			jobs = append(jobs, job{cp, b.Beacon.InIfID, eg})
			continue
		}
		ps, err := seg.CreateSegment(time.Now(), uint16(r.Choice("cx.segid", 1<<16)))
		if err != nil {
			panic(core.InfraError{Msg: "CreateSegment: " + err.Error()})
		}
		jobs = append(jobs, job{ps, 0, eg})
	}
	peers := a.ifsOfType(topology.Peer)
	sched := core.NewSched()
	w.xsched = sched
	for k := range jobs {
		go func(k int) {
			sched.Register(fmt.Sprintf("extend:%d", k))
			defer sched.Done()
			sched.Yield("start")
			j := jobs[k]
			_ = a.Ext.Extend(w.ctx, j.ps, j.in, j.eg, peers)
		}(k)
	}
	for steps := 0; ; steps++ {
		if sched.Step(r, nil) == nil {
			if bl := sched.Blocked(); len(bl) > 0 {
				panic(core.InfraError{Msg: "concurrent Extend blocked outside a yield point: " + bl[0].Name})
			}
			break
		}
		if steps > 100000 {
			panic(core.InfraError{Msg: "concurrent Extend does not end"})
		}
	}
	w.xsched = nil
	r.Probe("extends-interleaved")
}

// ---- the run ----

func runWith(cfg Config) core.RunFunc {
	return func(r *core.Run) {
		core.Bubble(r, func(t *testing.T) {
			c := cfg
			w := newWorld(r, &c)
			defer w.close()
			w.validAt = map[int]map[[32]byte]bool{}
			w.storedAt = map[int]int{}
			acts := []string{"deliver", "deliver", "deliver", "originate", "propagate", "propagate", "deliver", "burst", "tick",
				"register", "deliver", "originate", "propagate", "burst", "deliver", "propagate"}
			if cfg.JudgeC23 {
				acts = append(acts, "concurrent-extend", "concurrent-extend")
			}
			if cfg.ClockJumps {
				acts = append(acts, "jump")
			}
			if cfg.Faults {
				acts = append(acts, "replay", "replay")
			}
			if cfg.FaultyCaller {
				acts = append(acts, "faultycall", "faultycall", "faultycall")
			}
			if cfg.Tamper {
				acts = append(acts, "forge", "forge")
			}
			steps := cfg.MinSteps + r.Choice("steps", cfg.MaxSteps-cfg.MinSteps+1)
			for s := 0; s < steps && !r.Failed(); s++ {
				act := acts[r.Choice("act", len(acts))]
				switch act {
				case "deliver":
					if !w.deliverNext() {
						if !w.originate() {
							break
						}
					}
				case "originate":
					w.originate()
				case "propagate":
					w.propagate(false)
				case "burst":
					w.propagate(true)
				case "tick":
					w.tick()
				case "jump":
					w.jump()
				case "register":
					w.registerSelect()
				case "replay":
					w.replay()
				case "concurrent-extend":
					w.concurrentExtend()
				case "faultycall":
					w.faultyCall()
				case "forge":
					w.forge()
				}
			}
			// drain what is still in flight (bounded)
			for i := 0; i < 30 && !r.Failed() && len(w.net.queue) > 0; i++ {
				w.deliverNext()
			}
			r.SimNS = int64(time.Since(w.T0))
			links := 0
			for _, a := range w.ASes {
				links += len(a.ifIDs)
			}
			r.Nontrivial = w.cnt.handled >= 2 && w.extends >= 3
			r.Sample = map[string]any{"ases": len(w.ASes), "isds": len(w.isdNo), "interfaces": links, "steps": steps,
				"extends": w.extends, "sent": w.net.sent, "handled": w.cnt.handled, "stored": w.cnt.stored,
				"selections": w.selects, "tampered": w.cnt.tampered}
		})
	}
}
