//go:build verif

package beaconsim

import (
	"crypto"
	"crypto/ecdsa"
	"crypto/elliptic"
	"crypto/rand"
	"crypto/x509"
	"crypto/x509/pkix"
	"fmt"
	"io"
	"time"

	"github.com/scionproto/scion/pkg/addr"
	"github.com/scionproto/scion/pkg/scrypto/cppki"
	"github.com/scionproto/scion/scion-pki/certs"
	"github.com/scionproto/scion/scion-pki/trcs"
	"verif/sim/core"
)

// Small in-process control-plane PKI: per ISD one base TRC (one voting AS, one root, one CA),
// per AS one or two AS certificates with seed-chosen validity windows. Certificates and TRCs are
// produced by the repository's own in-memory builders; everything is self-checked at construction.

// rfc6979Key signs deterministically (rand == nil), so signature bytes do not depend on how many
// random bytes other code consumed before.
type rfc6979Key struct{ k *ecdsa.PrivateKey }

func (k rfc6979Key) Public() crypto.PublicKey { return k.k.Public() }
func (k rfc6979Key) Sign(_ io.Reader, digest []byte, opts crypto.SignerOpts) ([]byte, error) {
	return k.k.Sign(nil, digest, opts)
}

// cred is one AS certificate with its key.
type cred struct {
	Key       *ecdsa.PrivateKey
	Chain     []*x509.Certificate // AS cert, CA cert
	SKID      []byte
	NotBefore time.Time
	NotAfter  time.Time
}

type isdPKI struct {
	ISD      addr.ISD
	TRC      cppki.SignedTRC
	CAKey    *ecdsa.PrivateKey
	CACert   *x509.Certificate
	RootCert *x509.Certificate
}

func subjectOf(ia addr.IA, cn string) pkix.Name {
	return pkix.Name{
		CommonName: cn,
		ExtraNames: []pkix.AttributeTypeAndValue{{Type: cppki.OIDNameIA, Value: ia.String()}},
	}
}

func genKey() *ecdsa.PrivateKey {
	k, err := ecdsa.GenerateKey(elliptic.P256(), rand.Reader)
	if err != nil {
		panic(core.InfraError{Msg: "keygen: " + err.Error()})
	}
	return k
}

func mustCert(p certs.CertParams) *x509.Certificate {
	raw, err := certs.CreateCertificate(p)
	if err != nil {
		panic(core.InfraError{Msg: fmt.Sprintf("creating %v certificate: %v", p.Type, err)})
	}
	c, err := x509.ParseCertificate(raw)
	if err != nil {
		panic(core.InfraError{Msg: "parsing certificate: " + err.Error()})
	}
	return c
}

// newISD creates root, CA, voting certificates and the signed base TRC of one ISD.
// voter is the (core) AS holding all roles.
func newISD(isd addr.ISD, voter addr.IA, cores []addr.AS, now time.Time) *isdPKI {
	nb := now.Add(-24 * time.Hour)
	long := now.Add(800 * 24 * time.Hour)
	rootKey, caKey, sensKey, regKey := genKey(), genKey(), genKey(), genKey()
	root := mustCert(certs.CertParams{Type: cppki.Root, Subject: subjectOf(voter, voter.String()+" root"),
		PubKey: rootKey.Public(), NotBefore: nb, NotAfter: long, CAKey: rootKey})
	ca := mustCert(certs.CertParams{Type: cppki.CA, Subject: subjectOf(voter, voter.String()+" ca"),
		PubKey: caKey.Public(), NotBefore: nb, NotAfter: long.Add(-time.Hour), CACert: root, CAKey: rootKey})
	sens := mustCert(certs.CertParams{Type: cppki.Sensitive, Subject: subjectOf(voter, voter.String()+" sensitive"),
		PubKey: sensKey.Public(), NotBefore: nb, NotAfter: long, CAKey: sensKey})
	reg := mustCert(certs.CertParams{Type: cppki.Regular, Subject: subjectOf(voter, voter.String()+" regular"),
		PubKey: regKey.Public(), NotBefore: nb, NotAfter: long, CAKey: regKey})
	trc := cppki.TRC{
		Version:           1,
		ID:                cppki.TRCID{ISD: isd, Base: 1, Serial: 1},
		Validity:          cppki.Validity{NotBefore: nb.Add(time.Hour), NotAfter: long.Add(-24 * time.Hour)},
		Quorum:            1,
		CoreASes:          cores,
		AuthoritativeASes: cores,
		Description:       fmt.Sprintf("beaconsim ISD %d", isd),
		Certificates:      []*x509.Certificate{sens, reg, root},
	}
	raw, err := trc.Encode()
	if err != nil {
		panic(core.InfraError{Msg: "encoding TRC: " + err.Error()})
	}
	parts := map[string]cppki.SignedTRC{}
	for _, kc := range []struct {
		name string
		k    *ecdsa.PrivateKey
		c    *x509.Certificate
	}{{"sensitive", sensKey, sens}, {"regular", regKey, reg}} {
		name := kc.name
		sp, err := trcs.SignPayload(raw, rfc6979Key{kc.k}, kc.c)
		if err != nil {
			panic(core.InfraError{Msg: "signing TRC: " + err.Error()})
		}
		dec, err := cppki.DecodeSignedTRC(sp)
		if err != nil {
			panic(core.InfraError{Msg: "decoding signed TRC part: " + err.Error()})
		}
		parts[name] = dec
	}
	comb, err := trcs.CombineSignedPayloads(parts)
	if err != nil {
		panic(core.InfraError{Msg: "combining TRC: " + err.Error()})
	}
	signedTRC, err := cppki.DecodeSignedTRC(comb)
	if err != nil {
		panic(core.InfraError{Msg: "decoding TRC: " + err.Error()})
	}
	if err := signedTRC.Verify(nil); err != nil {
		panic(core.InfraError{Msg: "base TRC does not verify: " + err.Error()})
	}
	return &isdPKI{ISD: isd, TRC: signedTRC, CAKey: caKey, CACert: ca, RootCert: root}
}

// issue creates an AS certificate chain for ia valid in [nb, na].
func (p *isdPKI) issue(ia addr.IA, nb, na time.Time) *cred {
	k := genKey()
	c := mustCert(certs.CertParams{Type: cppki.AS, Subject: subjectOf(ia, ia.String()+" as"),
		PubKey: k.Public(), NotBefore: nb, NotAfter: na, CACert: p.CACert, CAKey: p.CAKey})
	chain := []*x509.Certificate{c, p.CACert}
	if err := cppki.VerifyChain(chain, cppki.VerifyOptions{TRC: []*cppki.TRC{&p.TRC.TRC}, CurrentTime: nb.Add(time.Second)}); err != nil {
		panic(core.InfraError{Msg: "issued chain does not verify: " + err.Error()})
	}
	return &cred{Key: k, Chain: chain, SKID: c.SubjectKeyId, NotBefore: c.NotBefore, NotAfter: c.NotAfter}
}
