//go:build verif

package beaconsim

import (
	"context"
	"crypto/sha256"
	"fmt"
	"net"
	"time"

	"google.golang.org/protobuf/proto"

	"github.com/scionproto/scion/control/beaconing"
	"github.com/scionproto/scion/pkg/addr"
	cppb "github.com/scionproto/scion/pkg/proto/control_plane"
	seg "github.com/scionproto/scion/pkg/segment"
)

// The beacon transport: the SenderFactory/Sender seam of the real Originator/Propagator on one
// side, Handler.HandleBeacon of the neighbour on the other. The wire format is the protobuf
// PathSegment, as in the real BeaconRequest.

type Msg struct {
	Seq    int
	From   *AS
	Egress uint16
	To     *AS
	ToIf   uint16
	Raw    []byte
	SentAt time.Time
}

type Network struct {
	w       *World
	queue   []*Msg
	history []*Msg // everything ever sent (material for replays, insertions)
	seq     int
	// honest: signed content of every beacon an honest control service sent
	honest map[[32]byte]bool
	sent   int
}

var marshal = proto.MarshalOptions{Deterministic: true}

// signedKey identifies the signed content of a wire beacon (info, and per entry header-and-body
// and signature); unsigned extensions are not part of it.
func signedKey(pb *cppb.PathSegment) [32]byte {
	h := sha256.New()
	var l [4]byte
	put := func(b []byte) {
		l[0], l[1], l[2], l[3] = byte(len(b)>>24), byte(len(b)>>16), byte(len(b)>>8), byte(len(b))
		h.Write(l[:])
		h.Write(b)
	}
	put(pb.SegmentInfo)
	for _, e := range pb.AsEntries {
		if e == nil || e.Signed == nil {
			put(nil)
			put(nil)
			continue
		}
		put(e.Signed.HeaderAndBody)
		put(e.Signed.Signature)
	}
	var out [32]byte
	copy(out[:], h.Sum(nil))
	return out
}

type senderFactory struct {
	w *World
	a *AS
}

func (f *senderFactory) NewSender(ctx context.Context, dst addr.IA, egress uint16, nexthop *net.UDPAddr) (beaconing.Sender, error) {
	in := f.a.Intfs[egress]
	if in == nil {
		return nil, fmt.Errorf("sim: no such egress interface %d", egress)
	}
	return &sender{f: f, in: in, dst: dst}, nil
}

type sender struct {
	f   *senderFactory
	in  *Intf
	dst addr.IA
}

func (s *sender) Close() error { return nil }

func (s *sender) Send(ctx context.Context, b *seg.PathSegment) error {
	w, a := s.f.w, s.f.a
	w.checkSend(a, s.in, s.dst, b)
	pb := seg.PathSegmentToPB(b)
	raw, err := marshal.Marshal(pb)
	if err != nil {
		return err
	}
	n := w.net
	n.seq++
	m := &Msg{Seq: n.seq, From: a, Egress: s.in.ID, To: s.in.Remote, ToIf: s.in.RemoteID, Raw: raw, SentAt: time.Now()}
	n.queue = append(n.queue, m)
	n.history = append(n.history, m)
	if n.honest == nil {
		n.honest = map[[32]byte]bool{}
	}
	// "honest" = sent by an honest control service on top of verifiable content (after a listed known
	// finding a control service may hold, and extend, a beacon that does not verify)
	base := true
	if k := len(pb.AsEntries); k > 1 {
		base = w.refVerify(&cppb.PathSegment{SegmentInfo: pb.SegmentInfo, AsEntries: pb.AsEntries[:k-1]}).ok
	}
	if base {
		n.honest[signedKey(pb)] = true
	}
	n.sent++
	w.r.Logf("send #%d %s#%d -> %s#%d %s", m.Seq, a.IA, s.in.ID, m.To.IA, m.ToIf, descPB(pb))
	return nil
}

// descPB renders the hops of a wire beacon from its (unverified) signed bodies.
func descPB(pb *cppb.PathSegment) string {
	s := ""
	var info cppb.SegmentInformation
	if err := proto.Unmarshal(pb.SegmentInfo, &info); err == nil {
		s = fmt.Sprintf("ts=%d id=%d ", info.Timestamp, info.SegmentId)
	}
	for i, e := range pb.AsEntries {
		b := bodyOf(e)
		if b == nil {
			s += fmt.Sprintf("[%d:?]", i)
			continue
		}
		hf := b.GetHopEntry().GetHopField()
		s += fmt.Sprintf("[%d>%s>%d e%d p%d]", hf.GetIngress(), addr.IA(b.IsdAs), hf.GetEgress(), hf.GetExpTime(), len(b.PeerEntries))
	}
	return s
}

func bodyOf(e *cppb.ASEntry) *cppb.ASEntrySignedBody {
	if e == nil || e.Signed == nil {
		return nil
	}
	_, body := splitHB(e.Signed.HeaderAndBody)
	if body == nil {
		return nil
	}
	var b cppb.ASEntrySignedBody
	if err := proto.Unmarshal(body, &b); err != nil {
		return nil
	}
	return &b
}
