//go:build verif

// Package beaconsim: control services of several ASes (real Originator, Propagator,
// DefaultExtender, Handler, beacon stores with policies and the default selection algorithm,
// sqlite beacon and trust databases, real signer generation and segment verification) exchanging
// beacons over a simulated transport inside a synctest bubble. Properties C23..C26.
package beaconsim

import (
	"testing"

	"verif/sim/core"
)

func TestWorker(t *testing.T) {
	base := Config{MinSteps: 20, MaxSteps: 130, EPIC: true}
	with := func(f func(c *Config)) core.RunFunc {
		c := base
		f(&c)
		return runWith(c)
	}
	core.Main(t, core.Engine{Name: "beaconsim", Campaigns: map[string]core.RunFunc{
		"C23/clean": with(func(c *Config) {
			c.Prop, c.JudgeC23, c.SignerWindows, c.ClockJumps = "C23", true, true, true
		}),
		"C23/faulty": with(func(c *Config) {
			c.Prop, c.JudgeC23, c.SignerWindows, c.ClockJumps, c.FaultyCaller, c.Faults = "C23", true, true, true, true, true
		}),
		"C24/clean": with(func(c *Config) {
			c.Prop, c.JudgeC24, c.SignerWindows, c.VerifierCache, c.Fetching = "C24", true, true, true, true
		}),
		"C24/tamper": with(func(c *Config) {
			c.Prop, c.JudgeC24, c.SignerWindows, c.VerifierCache, c.Fetching, c.Tamper, c.Faults, c.ClockJumps = "C24", true, true, true, true, true, true, true
		}),
		"C25/clean": with(func(c *Config) {
			c.Prop, c.JudgeC25, c.Policies, c.VerifierCache = "C25", true, true, true
		}),
		"C25/faulty": with(func(c *Config) {
			c.Prop, c.JudgeC25, c.Policies, c.VerifierCache, c.Faults, c.Tamper, c.SignerWindows, c.ClockJumps = "C25", true, true, true, true, true, true, true
		}),
		"C26/select": with(func(c *Config) {
			c.Prop, c.JudgeC26, c.AllowK1, c.Rich = "C26", true, true, true
			c.MinSteps, c.MaxSteps = 40, 160
		}),
	}})
}
