//go:build verif

package beaconsim

import (
	"testing"
	"time"

	"github.com/scionproto/scion/pkg/addr"
)

func TestProbePKI(t *testing.T) {
	now := time.Date(2000, 1, 1, 0, 0, 0, 0, time.UTC)
	ia := addr.MustParseIA("1-ff00:0:110")
	t0 := time.Now()
	p := newISD(1, ia, []addr.AS{ia.AS()}, now)
	t.Log("isd", time.Since(t0))
	t0 = time.Now()
	c := p.issue(addr.MustParseIA("1-ff00:0:111"), now.Add(-time.Hour), now.Add(48*time.Hour))
	t.Log("issue", time.Since(t0), len(c.SKID))
}
