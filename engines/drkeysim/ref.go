//go:build verif

package drkeysim

// Reference derivation written from doc/cryptography/drkey.rst ("Protocol-specific derivation",
// "Generic-protocol derivation", "PRF derivation specification") and the address encodings of
// doc/protocols/scion-header.rst. It does not import pkg/drkey, pkg/slayers or pkg/addr.
//
//	K_{A,B}            = PRF_{SV_A}(type || B)
//	K_{A,B:H_B}        = PRF_{K_{A,B}}(type || [protocol] || len/type(H_B) || H_B)
//	K_{A:H_A,B}        = PRF_{K_{A,B}}(type || [protocol] || len/type(H_A) || H_A)
//	K_{A:H_A,B:H_B}    = PRF_{K_{A:H_A,B}}(type || len/type(H_B) || H_B)
//
// PRF = AES-CBC-MAC (zero IV, input zero-padded to a whole number of blocks); "protocol" (2 bytes)
// is present only in the level-2 derivations of the generic hierarchy; type is one byte naming the
// derivation (AS-AS, AS-host, host-AS, host-host in the order the document lists them).

import (
	"crypto/aes"
	"encoding/binary"
)

const (
	refTypeASAS     = 0
	refTypeASHost   = 1
	refTypeHostAS   = 2
	refTypeHostHost = 3
)

// host address type/length nibble of the SCION common header: 2 bits type, 2 bits length
// (length code l = 4*(l+1) bytes); type 0 = IP, type 1 = service.
const (
	refAddrIPv4 = 0x0 // T=0 L=0
	refAddrIPv6 = 0x3 // T=0 L=3
	refAddrSVC  = 0x4 // T=1 L=0
)

func refCBCMAC(key [16]byte, in []byte) [16]byte {
	c, err := aes.NewCipher(key[:])
	if err != nil {
		panic(err)
	}
	n := (len(in) + 15) / 16
	if n == 0 {
		n = 1
	}
	buf := make([]byte, 16*n)
	copy(buf, in)
	var x [16]byte
	for i := 0; i < n; i++ {
		for j := 0; j < 16; j++ {
			x[j] ^= buf[16*i+j]
		}
		c.Encrypt(x[:], x[:])
	}
	return x
}

func refLevel1(sv [16]byte, dstISD uint16, dstAS uint64) [16]byte {
	in := make([]byte, 9)
	in[0] = refTypeASAS
	binary.BigEndian.PutUint64(in[1:], uint64(dstISD)<<48|dstAS&0xffffffffffff)
	return refCBCMAC(sv, in)
}

// refLevel2 derives an AS-host or host-AS key. generic tells whether the protocol number is part
// of the input (niche protocols derived from the generic level-1 key).
func refLevel2(l1 [16]byte, typ byte, generic bool, proto uint16, h simHost) [16]byte {
	in := []byte{typ}
	if generic {
		in = binary.BigEndian.AppendUint16(in, proto)
	}
	in = append(in, h.nibble)
	in = append(in, h.raw...)
	return refCBCMAC(l1, in)
}

func refHostHost(hostAS [16]byte, h simHost) [16]byte {
	in := []byte{refTypeHostHost, h.nibble}
	in = append(in, h.raw...)
	return refCBCMAC(hostAS, in)
}
