//go:build verif

package drkeysim

import (
	"context"
	"fmt"
	"sync"
	"testing/synctest"
	"time"

	csdrkey "github.com/scionproto/scion/control/drkey"
	"github.com/scionproto/scion/pkg/drkey"
)

// Concurrent step (quiescence-stepped): 2-3 requests to ONE slow-side control service engine run as
// real goroutines at the same time (end-host requests and/or a run of the real Prefetcher). They are
// started one at a time, each followed by synctest.Wait(), so each either completes (cache, local
// derivation) or ends up durably blocked - in our fetch seam, which parks every fetch on its own
// channel, or behind another request inside the engine. Then the simulator releases the parked
// fetches one at a time in an order drawn from the tape, again with synctest.Wait() after each.
// At any moment at most one goroutine of the step is runnable on the unchanged code, results are
// collected by request index, and nothing is logged in arrival order that is not serialised by
// the releases. Every result is judged with the oracles of the sequential requests: the key is the
// documented derivation for the epoch of the REQUESTED instant, and that epoch contains it.

type parkedFetch struct {
	idx  int
	meta drkey.Level1Meta
	ch   chan struct{}
}

type burstIdxKey struct{}

func burstIdx(ctx context.Context) int {
	if v, ok := ctx.Value(burstIdxKey{}).(int); ok {
		return v
	}
	return -1
}

type burstReq struct {
	prefetch bool
	q        query
	res      served
	err      error
}

// fastSide serves the request on the issuer's side and checks it against the issuer's secret value
// and the documented derivation (same judgement as in doQuery).
func (w *world) fastSide(ctx context.Context, q query) (served, bool) {
	r := w.r
	kA, err := serve(ctx, q.a, q)
	if err != nil {
		r.Fail("c39-fast-error", "fast-side-error", "%v: fast side failed: %v", q, err)
		return kA, false
	}
	sv, err := q.a.eng.GetSecretValue(ctx, drkey.SecretValueMeta{Validity: q.t, ProtoId: drkey.Protocol(q.l1proto())})
	if err != nil {
		r.Fail("c39-fast-error", "sv-error", "%v: secret value: %v", q, err)
		return kA, false
	}
	if !w.checkSV(q.a, q.l1proto(), q.t, sv) {
		return kA, false
	}
	if want := refDerive(q, sv.Key); want != kA.key {
		r.Fail("c39-ref-derivation", "ref:"+ktName[q.kt]+":"+protoClass(q.proto)+":"+q.hostKinds(),
			"%v: fast side served %x, documented derivation from its secret value gives %x", q, kA.key, want)
		return kA, false
	}
	if !sameEpoch(kA.epoch, sv.Epoch) {
		r.Fail("c39-epoch-mismatch", "fast-epoch", "%v: served epoch [%d,%d) but secret value epoch [%d,%d)", q,
			kA.epoch.NotBefore.Unix(), kA.epoch.NotAfter.Unix(), sv.Epoch.NotBefore.Unix(), sv.Epoch.NotAfter.Unix())
		return kA, false
	}
	return kA, w.checkMeta(q, kA, "fast")
}

func (w *world) burst(ctx context.Context) {
	r := w.r
	b := w.ases[r.Choice("burst.slow", len(w.ases))]
	k := r.Choice("burst.fast", len(w.ases)-1)
	if k >= b.idx {
		k++
	}
	a := w.ases[k]
	// all requests of the step need the same level-1 key family: SCMP, or generic + niche protocols
	scmp := r.Choice("burst.family", 2) == 1
	n := r.Range("burst.n", 2, 3)
	now := time.Now()
	reqs := make([]*burstReq, n)
	for i := range reqs {
		br := &burstReq{}
		if r.Choice("burst.kind", 4) == 3 {
			// the periodic prefetcher (asks for now + its epoch length)
			br.prefetch = true
			br.q = query{a: a, b: b, proto: 0}
			if scmp {
				br.q.proto = 1
			}
		} else {
			q := query{a: a, b: b}
			q.kt = r.Choice("q.type", 4)
			switch {
			case scmp:
				q.proto = 1
			case q.kt == ktL1:
				q.proto = 0
			default:
				q.proto = nicheProtos[r.Choice("q.niche", len(nicheProtos))]
			}
			q.ha = a.hosts[r.Choice("q.ha", len(a.hosts))]
			q.hb = b.hosts[r.Choice("q.hb", len(b.hosts))]
			switch r.Choice("burst.when", 6) {
			case 0:
				q.t, q.when = now, "now"
			case 1:
				q.t, q.when = now.Add(b.dur), "future" // what the slow side's prefetcher asks for
			case 2:
				q.t, q.when = now.Add(a.dur), "future"
			case 3:
				q.t, q.when = now.Add(-a.dur), "past"
			default:
				q.t, q.when = w.genValidity(a)
			}
			br.q = q
		}
		reqs[i] = br
		if br.prefetch {
			r.Logf("burst req %d: prefetch AS%d<-AS%d proto=%d", i, b.idx, a.idx, br.q.proto)
		} else {
			r.Logf("burst req %d: %v t=%s(%s)", i, br.q, w.rel(br.q.t), br.q.when)
		}
	}

	f0 := w.fetchFaults
	w.burstOn = true
	var wg sync.WaitGroup
	for i, br := range reqs {
		cctx := context.WithValue(ctx, burstIdxKey{}, i)
		wg.Go(func() {
			if br.prefetch {
				p := &csdrkey.Prefetcher{LocalIA: b.ia, KeyDuration: b.dur,
					Engine: oneKeyEngine{b.eng, csdrkey.Level1PrefetchInfo{IA: a.ia, Proto: drkey.Protocol(br.q.proto)}}}
				p.Run(cctx)
				return
			}
			br.res, br.err = serve(cctx, b, br.q)
		})
		synctest.Wait()
	}
	maxParked := 0
	for {
		w.mu.Lock()
		np := len(w.parked)
		w.mu.Unlock()
		if np == 0 {
			break
		}
		if np > maxParked {
			maxParked = np
			if np >= 2 {
				// the situation of interest: fetches for different epochs in flight together
				e0 := w.parked[0].meta.Validity.Unix() / int64(a.dur/time.Second)
				for _, p := range w.parked[1:] {
					if p.meta.Validity.Unix()/int64(a.dur/time.Second) != e0 {
						r.Probe("burst-fetches-for-different-epochs")
						break
					}
				}
			}
		}
		j := r.Choice("burst.release", np)
		w.mu.Lock()
		p := w.parked[j]
		w.parked = append(w.parked[:j], w.parked[j+1:]...)
		w.mu.Unlock()
		r.Logf("  release fetch of req %d (t=%s)", p.idx, w.rel(p.meta.Validity))
		close(p.ch)
		synctest.Wait()
	}
	wg.Wait()
	w.burstOn = false
	r.Probe(fmt.Sprintf("burst-max-parked-%d", maxParked))
	faulted := w.fetchFaults != f0

	for i, br := range reqs {
		if br.prefetch || r.Failed() {
			continue
		}
		q := br.q
		if br.err != nil {
			if !faulted {
				r.Fail("c39-slow-error", "slow-serve-error", "burst req %d %v: slow side failed without an injected fault: %v", i, q, br.err)
				return
			}
			r.Logf("  req %d: unavailable (fetch failed)", i)
			r.Probe("slow-failed-under-fault")
			continue
		}
		kB := br.res
		r.Logf("  req %d: slow AS%d epoch=[%d,%d) key=%s", i, b.idx, kB.epoch.NotBefore.Unix(), kB.epoch.NotAfter.Unix(), hx(kB.key))
		if !w.checkMeta(q, kB, "slow") {
			return
		}
		if !inEpoch(kB.epoch, q.t) {
			r.Fail("c39-epoch-mismatch", "slow-epoch-not-containing", "burst req %d %v: slow side served a key of epoch [%d,%d) which does not contain the requested %d.%09d",
				i, q, kB.epoch.NotBefore.Unix(), kB.epoch.NotAfter.Unix(), q.t.Unix(), q.t.Nanosecond())
			return
		}
		kA, ok := w.fastSide(ctx, q)
		if !ok {
			return
		}
		if !sameEpoch(kA.epoch, kB.epoch) {
			if q.t.Equal(kA.epoch.NotBefore) || q.t.Equal(kA.epoch.NotAfter) || q.t.Equal(kB.epoch.NotBefore) ||
				q.t.Equal(kB.epoch.NotAfter) {
				r.Probe("boundary-dontcare")
				continue
			}
			r.Fail("c39-epoch-mismatch", "fast-slow-epoch", "burst req %d %v at %d.%09d: fast side epoch [%d,%d), slow side epoch [%d,%d)", i, q,
				q.t.Unix(), q.t.Nanosecond(), kA.epoch.NotBefore.Unix(), kA.epoch.NotAfter.Unix(),
				kB.epoch.NotBefore.Unix(), kB.epoch.NotAfter.Unix())
			return
		}
		if kA.key != kB.key {
			r.Fail("c39-fast-vs-slow", "fast-slow:"+ktName[q.kt]+":"+protoClass(q.proto),
				"burst req %d %v epoch [%d,%d): fast side serves %x, slow side served %x", i, q,
				kA.epoch.NotBefore.Unix(), kA.epoch.NotAfter.Unix(), kA.key, kB.key)
			return
		}
		w.okCmp++
		r.Covered(fmt.Sprintf("burst/%s/%s/%s/p%d", ktName[q.kt], protoClass(q.proto), q.when, min(maxParked, 3)))
	}
}
