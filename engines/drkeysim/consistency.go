//go:build verif

package drkeysim

import (
	"context"
	"fmt"
	"testing"
	"time"

	csdrkey "github.com/scionproto/scion/control/drkey"
	"github.com/scionproto/scion/pkg/addr"
	"github.com/scionproto/scion/pkg/drkey"
	"github.com/scionproto/scion/pkg/drkey/generic"
	"github.com/scionproto/scion/pkg/drkey/specific"
	"verif/sim/core"
)

// Campaign (i): several ASes, each with a real control-service DRKey engine; hosts ask for keys.
// For every request the key served by the fast side is compared with
//   - the reference derivation (ref.go, from the documentation) applied to the fast side's
//     secret value,
//   - what a fast-side host derives with the repository's derivers from that secret value,
//   - what a slow-side host derives with the repository's derivers from the level-1 key its own
//     control service fetched (through the faulty transport) or cached,
//   - what the slow side's control service serves.

const (
	ktL1 = iota
	ktASHost
	ktHostAS
	ktHostHost
)

var ktName = []string{"level1", "as-host", "host-as", "host-host"}

// protocols the documentation's table defines: 0 generic, 1 SCMP; everything else is a "niche"
// protocol derived from the generic level-1 key.
func docPredefined(p uint16) bool { return p == 0 || p == 1 }

type served struct {
	epoch            drkey.Epoch
	key              [16]byte
	proto            drkey.Protocol
	src, dst         addr.IA
	srcHost, dstHost string
}

type query struct {
	kt     int
	proto  uint16
	a, b   *simAS // fast (issuer) side, slow (subject) side
	ha, hb simHost
	t      time.Time
	when   string
}

func (q query) l1proto() uint16 {
	if docPredefined(q.proto) {
		return q.proto
	}
	return 0
}

func (q query) String() string {
	return fmt.Sprintf("%s proto=%d AS%d:%s->AS%d:%s", ktName[q.kt], q.proto, q.a.idx, q.ha.str, q.b.idx, q.hb.str)
}

// serve asks the control service engine of AS x for the key of the query, the way the gRPC
// handlers do (level 1: GetLevel1Key, as DRKeyIntraLevel1; level 2/3: Derive*).
func serve(ctx context.Context, x *simAS, q query) (served, error) {
	p := drkey.Protocol(q.proto)
	switch q.kt {
	case ktL1:
		k, err := x.eng.GetLevel1Key(ctx, drkey.Level1Meta{Validity: q.t, ProtoId: p, SrcIA: q.a.ia, DstIA: q.b.ia})
		return served{k.Epoch, k.Key, k.ProtoId, k.SrcIA, k.DstIA, "", ""}, err
	case ktASHost:
		k, err := x.eng.DeriveASHost(ctx, drkey.ASHostMeta{ProtoId: p, Validity: q.t, SrcIA: q.a.ia, DstIA: q.b.ia,
			DstHost: q.hb.str})
		return served{k.Epoch, k.Key, k.ProtoId, k.SrcIA, k.DstIA, "", k.DstHost}, err
	case ktHostAS:
		k, err := x.eng.DeriveHostAS(ctx, drkey.HostASMeta{ProtoId: p, Validity: q.t, SrcIA: q.a.ia, DstIA: q.b.ia,
			SrcHost: q.ha.str})
		return served{k.Epoch, k.Key, k.ProtoId, k.SrcIA, k.DstIA, k.SrcHost, ""}, err
	default:
		k, err := x.eng.DeriveHostHost(ctx, drkey.HostHostMeta{ProtoId: p, Validity: q.t, SrcIA: q.a.ia, DstIA: q.b.ia,
			SrcHost: q.ha.str, DstHost: q.hb.str})
		return served{k.Epoch, k.Key, k.ProtoId, k.SrcIA, k.DstIA, k.SrcHost, k.DstHost}, err
	}
}

// hostDerive is what an end host does with the repository's derivers, starting from a level-1 key.
func hostDerive(q query, l1 drkey.Key) (drkey.Key, error) {
	type l2 interface {
		DeriveASHost(string, drkey.Key) (drkey.Key, error)
		DeriveHostAS(string, drkey.Key) (drkey.Key, error)
		DeriveHostHost(string, drkey.Key) (drkey.Key, error)
	}
	var d l2 = specific.Deriver{}
	if !docPredefined(q.proto) {
		d = generic.Deriver{Proto: drkey.Protocol(q.proto)}
	}
	switch q.kt {
	case ktL1:
		return l1, nil
	case ktASHost:
		return d.DeriveASHost(q.hb.str, l1)
	case ktHostAS:
		return d.DeriveHostAS(q.ha.str, l1)
	default:
		k, err := d.DeriveHostAS(q.ha.str, l1)
		if err != nil {
			return k, err
		}
		return d.DeriveHostHost(q.hb.str, k)
	}
}

// refDerive is the documented derivation chain from a secret value.
func refDerive(q query, sv [16]byte) [16]byte {
	l1 := refLevel1(sv, q.b.isd, q.b.asn)
	gen := !docPredefined(q.proto)
	switch q.kt {
	case ktL1:
		return l1
	case ktASHost:
		return refLevel2(l1, refTypeASHost, gen, q.proto, q.hb)
	case ktHostAS:
		return refLevel2(l1, refTypeHostAS, gen, q.proto, q.ha)
	default:
		return refHostHost(refLevel2(l1, refTypeHostAS, gen, q.proto, q.ha), q.hb)
	}
}

// ---- the secret value model ----

func (w *world) checkSV(a *simAS, proto uint16, t time.Time, sv drkey.SecretValue) bool {
	r := w.r
	b, e := sv.Epoch.NotBefore.Unix(), sv.Epoch.NotAfter.Unix()
	if !inEpoch(sv.Epoch, t) {
		r.Fail("c39-sv-epoch", "sv-epoch-not-containing", "%v: secret value for proto %d at %v has epoch [%d,%d) which does not contain %d.%09d",
			a, proto, w.rel(t), b, e, t.Unix(), t.Nanosecond())
		return false
	}
	if uint16(sv.ProtoId) != proto {
		r.Fail("c39-sv-epoch", "sv-proto", "%v: secret value for proto %d carries proto %d", a, proto, sv.ProtoId)
		return false
	}
	if e-b != int64(a.dur/time.Second) {
		r.Fail("c39-sv-epoch", "sv-epoch-length", "%v: epoch [%d,%d) is not the configured epoch duration %v", a, b, e, a.dur)
		return false
	}
	k := fmt.Sprintf("%d|%d", a.idx, proto)
	for _, o := range w.epochs[k] {
		if (o.b != b || o.e != e) && b < o.e && o.b < e {
			r.Fail("c39-sv-epoch", "sv-epoch-overlap", "%v proto %d: epochs [%d,%d) and [%d,%d) overlap", a, proto, o.b, o.e, b, e)
			return false
		}
	}
	kk := fmt.Sprintf("%s|%d", k, b)
	if old, ok := w.svSeen[kk]; ok {
		if old.e != e || old.key != [16]byte(sv.Key) {
			r.Fail("c39-sv-unstable", "sv-changed", "%v proto %d epoch [%d,%d): secret value changed (%s -> %s, end %d -> %d)",
				a, proto, b, e, hx(old.key), hx(sv.Key), old.e, e)
			return false
		}
	} else {
		w.svSeen[kk] = svRec{e, sv.Key}
		w.epochs[k] = append(w.epochs[k], epochRec{b, e})
		if len(w.epochs[k]) > 1 {
			r.Probe("epoch-rollover")
		}
	}
	w.noteBound(a, sv.Epoch)
	return true
}

// ---- one request, judged ----

func sameEpoch(x, y drkey.Epoch) bool {
	return x.NotBefore.Equal(y.NotBefore) && x.NotAfter.Equal(y.NotAfter)
}

func (w *world) doQuery(ctx context.Context, q query) {
	r := w.r
	r.Logf("query %v t=%s(%s)", q, w.rel(q.t), q.when)
	slowFirst := r.Choice("q.order", 2) == 1

	var kA served
	var sv drkey.SecretValue
	fast := func() bool {
		var err error
		f0 := w.fetchCalls
		kA, err = serve(ctx, q.a, q)
		if err != nil {
			r.Fail("c39-fast-error", "fast-side-error", "%v: fast side failed: %v", q, err)
			return false
		}
		if w.fetchCalls != f0 {
			r.Probe("fast-side-fetched")
		}
		sv, err = q.a.eng.GetSecretValue(ctx, drkey.SecretValueMeta{Validity: q.t, ProtoId: drkey.Protocol(q.l1proto())})
		if err != nil {
			r.Fail("c39-fast-error", "sv-error", "%v: secret value: %v", q, err)
			return false
		}
		if !w.checkSV(q.a, q.l1proto(), q.t, sv) {
			return false
		}
		r.Logf("  fast AS%d: epoch=[%d,%d) key=%s sv=%s", q.a.idx, kA.epoch.NotBefore.Unix(), kA.epoch.NotAfter.Unix(),
			hx(kA.key), hx(sv.Key))
		// the served key against the documented derivation from the secret value
		if want := refDerive(q, sv.Key); want != kA.key {
			r.Fail("c39-ref-derivation", "ref:"+ktName[q.kt]+":"+protoClass(q.proto)+":"+q.hostKinds(),
				"%v: fast side served %x, documented derivation from its secret value gives %x", q, kA.key, want)
			return false
		}
		if !sameEpoch(kA.epoch, sv.Epoch) {
			r.Fail("c39-epoch-mismatch", "fast-epoch", "%v: served epoch [%d,%d) but secret value epoch [%d,%d)", q,
				kA.epoch.NotBefore.Unix(), kA.epoch.NotAfter.Unix(), sv.Epoch.NotBefore.Unix(), sv.Epoch.NotAfter.Unix())
			return false
		}
		if !w.checkMeta(q, kA, "fast") {
			return false
		}
		// a fast-side host holding the secret value derives the key itself (repository derivers)
		l1, err := specific.Deriver{}.DeriveLevel1(q.b.ia, sv.Key)
		if err == nil {
			var hk drkey.Key
			hk, err = hostDerive(q, l1)
			if err == nil && hk != drkey.Key(kA.key) {
				r.Fail("c39-served-vs-host", "fast-host:"+ktName[q.kt]+":"+protoClass(q.proto),
					"%v: fast side served %x, host deriving from the secret value gets %x", q, kA.key, [16]byte(hk))
				return false
			}
		}
		if err != nil {
			r.Fail("c39-fast-error", "host-derive-error", "%v: host derivation failed: %v", q, err)
			return false
		}
		return true
	}

	var slowL1 drkey.Level1Key
	var slowKey drkey.Key
	var kB served
	slowOK := false
	slow := func() bool {
		// 1. the slow side's control service obtains the level-1 key (cache or fetch)
		f0, c0 := w.fetchFaults, w.fetchCalls
		var err error
		slowL1, err = q.b.eng.GetLevel1Key(ctx, drkey.Level1Meta{Validity: q.t, ProtoId: drkey.Protocol(q.l1proto()),
			SrcIA: q.a.ia, DstIA: q.b.ia})
		if err != nil {
			if w.fetchFaults == f0 {
				r.Fail("c39-slow-error", "slow-l1-error", "%v: slow side level-1 failed without an injected fault: %v", q, err)
				return false
			}
			r.Logf("  slow AS%d: level-1 unavailable (fetch failed)", q.b.idx)
			r.Probe("slow-failed-under-fault")
			return true
		}
		if w.fetchCalls == c0 && q.a != q.b {
			r.Probe("slow-served-from-cache")
		}
		// 2. a slow-side host derives from that level-1 key with the repository's derivers
		slowKey, err = hostDerive(q, slowL1.Key)
		if err != nil {
			r.Fail("c39-slow-error", "host-derive-error", "%v: slow host derivation failed: %v", q, err)
			return false
		}
		// 3. the slow side's control service serves the key itself
		f0 = w.fetchFaults
		kB, err = serve(ctx, q.b, q)
		if err != nil {
			if w.fetchFaults == f0 {
				r.Fail("c39-slow-error", "slow-serve-error", "%v: slow side failed without an injected fault: %v", q, err)
				return false
			}
			r.Logf("  slow AS%d: serve unavailable (fetch failed)", q.b.idx)
			return true
		}
		if !w.checkMeta(q, kB, "slow") {
			return false
		}
		r.Logf("  slow AS%d: l1epoch=[%d,%d) l1=%s host=%s cs=%s", q.b.idx, slowL1.Epoch.NotBefore.Unix(),
			slowL1.Epoch.NotAfter.Unix(), hx(slowL1.Key), hx(slowKey), hx(kB.key))
		if !inEpoch(slowL1.Epoch, q.t) {
			r.Fail("c39-epoch-mismatch", "slow-epoch-not-containing", "%v: slow side level-1 epoch [%d,%d) does not contain %d.%09d",
				q, slowL1.Epoch.NotBefore.Unix(), slowL1.Epoch.NotAfter.Unix(), q.t.Unix(), q.t.Nanosecond())
			return false
		}
		if drkey.Key(kB.key) != slowKey || !sameEpoch(kB.epoch, slowL1.Epoch) {
			r.Fail("c39-served-vs-host", "slow-host:"+ktName[q.kt]+":"+protoClass(q.proto),
				"%v: slow side control service served %x epoch [%d,%d), its host derives %x from the level-1 key of epoch [%d,%d)",
				q, kB.key, kB.epoch.NotBefore.Unix(), kB.epoch.NotAfter.Unix(), [16]byte(slowKey), slowL1.Epoch.NotBefore.Unix(),
				slowL1.Epoch.NotAfter.Unix())
			return false
		}
		slowOK = true
		return true
	}

	if slowFirst {
		if !slow() || !fast() {
			return
		}
	} else {
		if !fast() || !slow() {
			return
		}
	}
	if !slowOK {
		return
	}
	// the multi-party comparison proper
	onBoundary := q.t.Equal(kA.epoch.NotBefore) || q.t.Equal(kA.epoch.NotAfter) ||
		q.t.Equal(slowL1.Epoch.NotBefore) || q.t.Equal(slowL1.Epoch.NotAfter)
	if !sameEpoch(kA.epoch, slowL1.Epoch) {
		if onBoundary {
			r.Probe("boundary-dontcare")
			return
		}
		r.Fail("c39-epoch-mismatch", "fast-slow-epoch", "%v at %d.%09d: fast side epoch [%d,%d), slow side epoch [%d,%d)", q,
			q.t.Unix(), q.t.Nanosecond(), kA.epoch.NotBefore.Unix(), kA.epoch.NotAfter.Unix(),
			slowL1.Epoch.NotBefore.Unix(), slowL1.Epoch.NotAfter.Unix())
		return
	}
	if drkey.Key(kA.key) != slowKey {
		r.Fail("c39-fast-vs-slow", "fast-slow:"+ktName[q.kt]+":"+protoClass(q.proto),
			"%v epoch [%d,%d): fast side serves %x, slow-side host derives %x from the level-1 key fetched by its AS",
			q, kA.epoch.NotBefore.Unix(), kA.epoch.NotAfter.Unix(), kA.key, [16]byte(slowKey))
		return
	}
	w.okCmp++
	restarted := "n"
	if q.a.restarts+q.b.restarts > 0 {
		restarted = "y"
	}
	r.Covered(fmt.Sprintf("%s/%s/%s/%s/r%s", ktName[q.kt], protoClass(q.proto), q.hostKinds(), q.when, restarted))
}

func protoClass(p uint16) string {
	switch {
	case p == 0:
		return "generic"
	case p == 1:
		return "scmp"
	}
	return "niche"
}

func (q query) hostKinds() string {
	switch q.kt {
	case ktL1:
		return "-"
	case ktASHost:
		return q.hb.kind
	case ktHostAS:
		return q.ha.kind
	}
	return q.ha.kind + "+" + q.hb.kind
}

func (w *world) checkMeta(q query, k served, side string) bool {
	ok := k.src == q.a.ia && k.dst == q.b.ia && uint16(k.proto) == q.proto
	switch q.kt {
	case ktASHost:
		ok = ok && k.dstHost == q.hb.str
	case ktHostAS:
		ok = ok && k.srcHost == q.ha.str
	case ktHostHost:
		ok = ok && k.srcHost == q.ha.str && k.dstHost == q.hb.str
	}
	if !ok {
		w.r.Fail("c39-meta-mismatch", side+"-meta", "%v: %s side answered for proto=%d %v:%s->%v:%s", q, side, k.proto,
			k.src, k.srcHost, k.dst, k.dstHost)
	}
	return ok
}

// ---- generators ----

var nicheProtos = []uint16{2, 7, 255, 256, 0x0100, 0x0001 << 8, 1000, 65535}

func (w *world) genQuery() query {
	r := w.r
	q := query{}
	q.a = w.ases[r.Choice("q.fast", len(w.ases))]
	if r.Choice("q.sameas", 8) == 7 {
		q.b = q.a // a key between two hosts of one AS: fast and slow side are the same service
	} else {
		k := r.Choice("q.slow", len(w.ases)-1)
		if k >= q.a.idx {
			k++
		}
		q.b = w.ases[k]
	}
	q.kt = r.Choice("q.type", 4)
	if q.kt == ktL1 {
		q.proto = uint16(r.Choice("q.l1proto", 2)) // level-1 keys exist for the predefined protocols only
	} else {
		switch r.Choice("q.protoclass", 3) {
		case 0:
			q.proto = 1
		case 1:
			q.proto = nicheProtos[r.Choice("q.niche", len(nicheProtos))]
		default:
			q.proto = uint16(2 + r.Choice("q.nicheany", 65534))
		}
	}
	pick := func(a *simAS, label string) simHost {
		if r.Choice(label+".new", 4) == 3 {
			return genHost(r)
		}
		return a.hosts[r.Choice(label, len(a.hosts))]
	}
	q.ha, q.hb = pick(q.a, "q.ha"), pick(q.b, "q.hb")
	q.t, q.when = w.genValidity(q.a)
	return q
}

// genValidity picks the instant a key is requested for: now, somewhere around now, right next to
// an epoch boundary the fast AS was seen using, or some epochs in the past / future.
func (w *world) genValidity(a *simAS) (time.Time, string) {
	r := w.r
	now := time.Now()
	switch r.Choice("q.when", 6) {
	case 0, 1:
		return now, "now"
	case 2:
		// up to one epoch before or after now
		f := int64(r.Choice("q.off", 2001)) - 1000
		return now.Add(time.Duration(f * int64(a.dur) / 1000)), "near"
	case 3, 4:
		bs := w.bounds[a.idx]
		if len(bs) == 0 {
			return now, "now"
		}
		// prefer the boundaries closest to now
		i := 0
		for i < len(bs) && bs[i] <= now.Unix() {
			i++
		}
		i += r.Choice("q.bound", 3) - 1
		i = max(0, min(len(bs)-1, i))
		deltas := []time.Duration{time.Nanosecond, -time.Nanosecond, time.Second, -time.Second, 500 * time.Millisecond,
			-500 * time.Millisecond, 0, 999999999 * time.Nanosecond}
		d := deltas[r.Choice("q.delta", len(deltas))]
		return time.Unix(bs[i], 0).Add(d), "boundary"
	default:
		k := int64(r.Choice("q.epochs", 5)) - 2
		f := int64(r.Choice("q.frac", 1000))
		t := now.Add(time.Duration(k*int64(a.dur) + f*int64(a.dur)/1000))
		if k < 0 {
			return t, "past"
		}
		return t, "future"
	}
}

func (w *world) advance() {
	r := w.r
	now := time.Now()
	var d time.Duration
	mode := r.Choice("adv.mode", 5)
	switch mode {
	case 0:
		d = time.Duration(1+r.Choice("adv.ms", 10000)) * time.Millisecond
	case 1, 2:
		// to just before / after the next epoch boundary anybody was seen using
		var next int64 = -1
		for _, a := range w.ases {
			for _, b := range w.bounds[a.idx] {
				if b > now.Unix() && (next < 0 || b < next) {
					next = b
				}
			}
		}
		if next < 0 {
			d = w.ases[0].dur / 2
			break
		}
		deltas := []time.Duration{-time.Second, -time.Nanosecond, 0, time.Nanosecond, time.Second, 3 * time.Second,
			-500 * time.Millisecond, 30 * time.Second}
		d = time.Unix(next, 0).Add(deltas[r.Choice("adv.delta", len(deltas))]).Sub(now)
		if d <= 0 {
			d = time.Millisecond
		}
	case 3:
		a := w.ases[r.Choice("adv.as", len(w.ases))]
		d = time.Duration(int64(a.dur) * int64(1+r.Choice("adv.frac", 150)) / 100)
	default:
		a := w.ases[r.Choice("adv.as", len(w.ases))]
		d = time.Duration(int64(a.dur) * int64(2+r.Choice("adv.epochs", 4)))
		if w.faulty {
			r.Fault("clock.jump")
		}
	}
	time.Sleep(d)
	r.Logf("advance %v -> %s", d, w.rel(time.Now()))
}

// oneKeyEngine lets the real Prefetcher work on one prefetch-list entry at a time, so that the
// goroutines it starts never coexist and the order of the entries is a decision of the tape.
type oneKeyEngine struct {
	eng  *csdrkey.ServiceEngine
	info csdrkey.Level1PrefetchInfo
}

func (e oneKeyEngine) GetLevel1Key(ctx context.Context, m drkey.Level1Meta) (drkey.Level1Key, error) {
	return e.eng.GetLevel1Key(ctx, m)
}
func (e oneKeyEngine) GetLevel1PrefetchInfo() []csdrkey.Level1PrefetchInfo {
	return []csdrkey.Level1PrefetchInfo{e.info}
}

func (w *world) prefetch(ctx context.Context, a *simAS) {
	r := w.r
	infos := a.eng.GetLevel1PrefetchInfo()
	r.Logf("prefetch AS%d entries=%d", a.idx, len(infos))
	if len(infos) == 0 {
		return
	}
	// rotate: the order in which the entries are served is a scheduler decision
	rot := r.Choice("prefetch.rot", len(infos))
	for i := range infos {
		info := infos[(i+rot)%len(infos)]
		src := w.byIA(info.IA)
		if src == nil {
			infra("prefetch list of AS%d names unknown %v", a.idx, info.IA)
		}
		r.Logf("  prefetch AS%d<-AS%d proto=%d", a.idx, src.idx, uint16(info.Proto))
		p := &csdrkey.Prefetcher{LocalIA: a.ia, Engine: oneKeyEngine{a.eng, info}, KeyDuration: a.dur}
		p.Run(ctx)
		r.Probe("prefetch-entry")
	}
}

func (w *world) clean(ctx context.Context, a *simAS) {
	for _, c := range a.cleaners {
		c.Run(ctx)
	}
	a.cleaned = true
	w.r.Logf("clean AS%d", a.idx)
	w.r.Probe("cleaner-run")
}

func runConsistency(r *core.Run, faulty bool) {
	core.Bubble(r, func(t *testing.T) {
		ctx := context.Background()
		w := newWorld(r, faulty)
		defer w.close()
		nops := r.Range("ops", 6, 40)
		for i := 0; i < nops && !r.Failed(); i++ {
			n := 12
			if faulty {
				n = 15
			}
			op := r.Choice("op", n)
			if !faulty && op >= 10 {
				op = 13 // burst
			}
			switch {
			case op < 5:
				w.doQuery(ctx, w.genQuery())
			case op < 7:
				w.advance()
			case op < 9:
				w.prefetch(ctx, w.ases[r.Choice("op.as", len(w.ases))])
			case op < 10:
				w.clean(ctx, w.ases[r.Choice("op.as", len(w.ases))])
			case op < 11:
				a := w.ases[r.Choice("op.as", len(w.ases))]
				r.Fault("cs.restart")
				r.Logf("restart AS%d", a.idx)
				w.restart(a)
			case op < 12:
				a := w.ases[r.Choice("op.as", len(w.ases))]
				r.Fault("cs.crash")
				r.Logf("crash AS%d", a.idx)
				w.crash(a)
			case op < 13:
				// the control services cannot reach each other for a while (simulated time) or for
				// the next few fetches, whichever ends first
				d := time.Duration(1+r.Choice("partition.s", 600)) * time.Second
				w.partitionUntil = time.Now().Add(d)
				w.partitionLeft = 1 + r.Choice("partition.n", 3)
				r.Logf("partition for %v / %d fetches", d, w.partitionLeft)
			default:
				// 2-3 requests to one slow-side control service in flight at the same time
				w.burst(ctx)
			}
		}
		r.SimNS = int64(time.Since(w.start))
		r.Nontrivial = w.okCmp >= 3
		r.Sample = map[string]any{"ases": len(w.ases), "ops": nops, "compared": w.okCmp, "fetches": w.fetchCalls,
			"fetch_faults": w.fetchFaults, "sim": time.Since(w.start).String()}
	})
}

func runClean(r *core.Run)  { runConsistency(r, false) }
func runFaulty(r *core.Run) { runConsistency(r, true) }
