//go:build verif

// Package drkeysim: the DRKey parts of several ASes' control services (real ServiceEngine, real
// secret-value backend, sqlite level-1 and secret-value databases on files, real ARC prefetch list,
// Prefetcher and storage cleaners) and their hosts (real specific/generic derivers) inside one
// synctest bubble; the level-1 fetch transport between the control services is the simulator's.
// Property C39 (partial claim, see props.d/drkeysim.json).
package drkeysim

import (
	"testing"

	"verif/sim/core"
)

func TestWorker(t *testing.T) {
	core.Main(t, core.Engine{Name: "drkeysim", Campaigns: map[string]core.RunFunc{
		"C39/clean":  runClean,
		"C39/faulty": runFaulty,
		"C39/window": runWindow,
	}})
}
