//go:build verif

package drkeysim

import (
	"context"
	"fmt"
	"testing"
	"time"

	csdrkey "github.com/scionproto/scion/control/drkey"
	"github.com/scionproto/scion/pkg/addr"
	"github.com/scionproto/scion/pkg/drkey"
	"github.com/scionproto/scion/pkg/spao"
	"github.com/scionproto/scion/private/drkey/drkeyutil"
	"github.com/scionproto/scion/private/storage/db"
	"github.com/scionproto/scion/private/storage/drkey/secret"
	secretsql "github.com/scionproto/scion/private/storage/drkey/secret/sqlite"
	"verif/sim/core"
)

// Campaign (ii): a sender stamps authenticators with a timestamp relative to the epoch of the key
// it uses (spao.RelativeTimestamp; the epoch comes from the real control-service engine or from the
// router's provider), a receiver with its own clock (the bubble clock; the sender's clock is the
// receiver's plus a tape-chosen skew/delay) selects a key with
// drkeyutil.FakeProvider.GetKeyWithinAcceptanceWindow. Scenarios are anchored on epoch boundaries,
// the end of the grace period and the edges of the acceptance window.
//
// Oracle (from the statement and doc/cryptography/drkey.rst "Grace period"):
//
//	a selected key K, abs = K.epoch.begin + timestamp:
//	  K.epoch.begin <= abs <= K.epoch.end + GRACE          (c39-aw-epoch)
//	  now - aw/2 <= abs <= now + aw/2                       (c39-aw-window)
//	  the epoch is one the AS's control service uses        (c39-aw-grid)
//	a sender that is inside the acceptance window and used a key whose epoch (with grace) contains
//	its clock gets a key selected, when epochs are longer than the window so that only one epoch
//	can explain the timestamp                               (c39-aw-reject)
//
// Instants exactly on a boundary are don't-care.

const docGrace = 5 * time.Second // doc/cryptography/drkey.rst: GRACE_PERIOD = 5 seconds

var winDur = []time.Duration{6 * time.Minute, 20 * time.Second, time.Minute, time.Hour, 24 * time.Hour, 72 * time.Hour}
var winAW = []time.Duration{5 * time.Minute, time.Second, 4 * time.Second, 30 * time.Second, 2 * time.Minute, 20 * time.Minute}

type winWorld struct {
	r        *core.Run
	start    time.Time
	d, aw    time.Duration
	complete bool
	eng      *csdrkey.ServiceEngine
	prov     *drkeyutil.FakeProvider
	ia       addr.IA
	host     addr.Host
	judged   int
}

// csEpoch asks the real control-service engine which epoch it uses at t.
func (w *winWorld) csEpoch(t time.Time) drkey.Epoch {
	sv, err := w.eng.GetSecretValue(context.Background(), drkey.SecretValueMeta{Validity: t, ProtoId: drkey.SCMP})
	if err != nil {
		infra("secret value: %v", err)
	}
	if !inEpoch(sv.Epoch, t) || sv.Epoch.NotAfter.Sub(sv.Epoch.NotBefore) != w.d {
		w.r.Fail("c39-sv-epoch", "sv-epoch-not-containing", "control service: secret value at %s has epoch [%d,%d) (configured length %v, instant %d.%09d)",
			w.rel(t), sv.Epoch.NotBefore.Unix(), sv.Epoch.NotAfter.Unix(), w.d, t.Unix(), t.Nanosecond())
	}
	return sv.Epoch
}

func (w *winWorld) rel(t time.Time) string { return t.Sub(w.start).String() }

func runWindow(r *core.Run) {
	core.Bubble(r, func(t *testing.T) {
		w := &winWorld{r: r, start: time.Now()}
		w.d = winDur[r.Choice("win.dur", len(winDur))]
		w.aw = winAW[r.Choice("win.aw", len(winAW))]
		w.complete = w.d >= w.aw+2*docGrace
		memSeq++
		svb, err := secretsql.NewBackend(fmt.Sprintf("drkeysim_win_%d_%d", memSeq, r.Tape.Seed), &db.SqliteConfig{InMemory: true})
		if err != nil {
			infra("sv db: %v", err)
		}
		defer svb.Close()
		arc, _ := csdrkey.NewLevel1ARC(1)
		w.ia = addr.MustIAFrom(addr.ISD(1+r.Choice("win.isd", 100)), addr.AS(0xff00_0000_0110+uint64(r.Choice("win.as", 100))))
		w.host = addr.MustParseHost(genHost(r).str)
		w.eng = &csdrkey.ServiceEngine{
			SecretBackend:  csdrkey.NewSecretValueBackend(&secret.Database{Backend: svb}, r.Tape.Bytes("win.master", 16), w.d),
			LocalIA:        w.ia,
			PrefetchKeeper: arc,
		}
		w.prov = &drkeyutil.FakeProvider{EpochDuration: w.d, AcceptanceWindow: w.aw}
		r.Logf("window world epoch=%v aw=%v complete=%v", w.d, w.aw, w.complete)
		n := r.Range("win.packets", 8, 48)
		for i := 0; i < n && !r.Failed(); i++ {
			w.packet(i)
		}
		r.SimNS = int64(time.Since(w.start))
		r.Nontrivial = w.judged >= 4
		r.Sample = map[string]any{"epoch": w.d.String(), "aw": w.aw.String(), "packets": n, "judged": w.judged,
			"sim": time.Since(w.start).String()}
	})
}

func (w *winWorld) packet(i int) {
	r := w.r
	now0 := time.Now()
	// anchor: the first epoch boundary of the control service far enough ahead that every scenario
	// below lies in the future of the bubble clock
	horizon := now0.Add(w.d/2 + 2*w.aw + 2*docGrace + time.Second)
	cur := w.csEpoch(horizon)
	b := cur.NotAfter // boundary between epoch E (ending at b) and E+1
	if r.Failed() {
		return
	}
	if !b.After(horizon) {
		b = b.Add(w.d) // horizon exactly on a boundary
	}
	ns := time.Nanosecond
	// sender clock relative to the boundary
	sOff := []time.Duration{-w.d / 2, -w.d / 3, -w.aw, -w.aw / 2, -time.Second, -ns, 0, ns, time.Second, docGrace - ns, docGrace,
		docGrace + ns, docGrace + time.Second, time.Minute, w.aw / 2, w.aw/2 + docGrace, w.d / 3}
	ts := b.Add(sOff[r.Choice("win.soff", len(sOff))])
	// receiver clock relative to the sender's: skew + delay
	dl := []time.Duration{0, ns, -ns, time.Millisecond, -time.Millisecond, w.aw/2 - ns, w.aw / 2, w.aw/2 + ns, -(w.aw/2 - ns), -w.aw / 2,
		-(w.aw/2 + ns), w.aw, -w.aw, w.aw/2 - time.Second, -(w.aw/2 - time.Second), docGrace, -docGrace}
	delta := dl[r.Choice("win.delta", len(dl))]
	if r.Choice("win.deltarand", 4) == 3 {
		delta = time.Duration(int64(r.Choice("win.deltafrac", 2001)-1000) * int64(w.aw) / 1000)
	}
	now := ts.Add(delta) // receiver's clock when the packet is judged
	if now.Before(now0) {
		infra("scenario in the past: now0=%v target=%v", now0, now)
	}
	time.Sleep(now.Sub(now0))
	now = time.Now()

	// the sender's key epoch
	mode := r.Choice("win.mode", 6)
	var es drkey.Epoch
	var modeName string
	honest := true
	switch mode {
	case 0, 1:
		modeName = "host-current"
		es = w.csEpoch(ts) // host asked its control service for the key valid at its clock
	case 2:
		modeName = "router-current"
		k, err := w.prov.GetASHostKey(ts, w.ia, w.host) // the router as sender
		if err != nil {
			infra("GetASHostKey: %v", err)
		}
		es = k.Epoch
		if ce := w.csEpoch(ts); !sameEpoch(ce, es) && !ts.Equal(ce.NotBefore) && !ts.Equal(ce.NotAfter) &&
			!ts.Equal(es.NotBefore) && !ts.Equal(es.NotAfter) {
			r.Fail("c39-aw-grid", "provider-epoch-vs-cs", "provider epoch at %s is [%d,%d), control service uses [%d,%d)", w.rel(ts),
				es.NotBefore.Unix(), es.NotAfter.Unix(), ce.NotBefore.Unix(), ce.NotAfter.Unix())
			return
		}
	case 3, 4:
		modeName = "host-previous"
		// still using the key of the epoch before the one its clock is in (legitimate only during
		// the grace period after the boundary)
		c := w.csEpoch(ts)
		es = w.csEpoch(c.NotBefore.Add(-time.Second))
	default:
		modeName = "forged"
		honest = false
	}
	if r.Failed() {
		return
	}
	var rel uint64
	if honest {
		if ts.Before(es.NotBefore) {
			r.Logf("pkt %d %s: sender clock before its epoch, not sendable", i, modeName)
			return
		}
		var err error
		rel, err = spao.RelativeTimestamp(es, ts)
		if err != nil || rel >= 1<<48 {
			r.Logf("pkt %d %s: timestamp not representable", i, modeName)
			r.Probe("timestamp-overflow")
			return
		}
	} else {
		// arbitrary 48-bit timestamps, some aimed at the edges of epoch E seen from the receiver
		switch r.Choice("win.forge", 4) {
		case 0:
			rel = uint64(r.Choice("win.relhi", 1<<16))<<32 | uint64(r.Choice("win.rello", 1<<32))
		case 1:
			rel = uint64(w.d + docGrace + time.Duration(r.Choice("win.edge", 3)-1))
		case 2:
			rel = uint64(now.Sub(cur.NotBefore)) + uint64(w.aw/2) + uint64(r.Choice("win.edge", 3)) - 1
		default:
			rel = uint64(w.d) + uint64(r.Choice("win.relsmall", 1<<30))
		}
		rel &= 1<<48 - 1
	}

	key, err := w.prov.GetKeyWithinAcceptanceWindow(now, rel, w.ia, w.host)
	sel := "none"
	if err == nil {
		sel = fmt.Sprintf("[%d,%d)", key.Epoch.NotBefore.Unix(), key.Epoch.NotAfter.Unix())
	}
	r.Logf("pkt %d %s sender=%s(b%+d) recv=%s delta=%v rel=%d senderEpoch=[%d,%d) selected=%s", i, modeName, w.rel(ts),
		int64(ts.Sub(b)), w.rel(now), delta, rel, es.NotBefore.Unix(), es.NotAfter.Unix(), sel)
	w.judged++

	half := w.aw / 2
	if err == nil {
		abs := key.Epoch.NotBefore.Add(time.Duration(rel))
		if abs.Before(key.Epoch.NotBefore) || abs.After(key.Epoch.NotAfter.Add(docGrace)) {
			r.Fail("c39-aw-epoch", "aw-epoch:"+modeName, "selected epoch [%d,%d) (+%v grace) does not contain the absolute time %d.%09d of timestamp %d",
				key.Epoch.NotBefore.Unix(), key.Epoch.NotAfter.Unix(), docGrace, abs.Unix(), abs.Nanosecond(), rel)
			return
		}
		if abs.Before(now.Add(-half)) || abs.After(now.Add(half)) {
			r.Fail("c39-aw-window", "aw-window:"+modeName, "selected key for absolute time %s which is outside the acceptance window %v around %s",
				w.rel(abs), w.aw, w.rel(now))
			return
		}
		// the epoch must be one the control service of the AS really uses
		mid := key.Epoch.NotBefore.Add(key.Epoch.NotAfter.Sub(key.Epoch.NotBefore) / 2)
		if ce := w.csEpoch(mid); !sameEpoch(ce, key.Epoch) {
			r.Fail("c39-aw-grid", "selected-epoch-vs-cs", "selected epoch [%d,%d) is not an epoch of the control service ([%d,%d) there)",
				key.Epoch.NotBefore.Unix(), key.Epoch.NotAfter.Unix(), ce.NotBefore.Unix(), ce.NotAfter.Unix())
			return
		}
		r.Covered(fmt.Sprintf("sel/%s/%s", modeName, w.relation(key.Epoch, now)))
		if honest && w.complete && !sameEpoch(key.Epoch, es) && ts.After(now.Add(-half)) && ts.Before(now.Add(half)) {
			// for a sender inside the window this cannot happen when the two checks above hold and
			// epochs are longer than the window (another epoch would put the time outside the window)
			r.Fail("c39-aw-epoch", "aw-other-epoch:"+modeName, "sender used epoch [%d,%d), receiver selected [%d,%d)", es.NotBefore.Unix(),
				es.NotAfter.Unix(), key.Epoch.NotBefore.Unix(), key.Epoch.NotAfter.Unix())
		}
		return
	}
	r.Covered("rej/" + modeName)
	if !honest || !w.complete {
		return
	}
	// completeness for honest senders, away from every boundary instant
	inWindow := ts.After(now.Add(-half)) && ts.Before(now.Add(half))
	legit := ts.After(es.NotBefore) && ts.Before(es.NotAfter.Add(docGrace))
	if inWindow && legit {
		r.Fail("c39-aw-reject", "aw-reject:"+modeName+":"+w.relation(es, now),
			"sender at %s (receiver clock %s, window %v) used epoch [%d,%d) which with grace contains its time, but no key was selected: %v",
			w.rel(ts), w.rel(now), w.aw, es.NotBefore.Unix(), es.NotAfter.Unix(), err)
	}
}

// relation names where an epoch lies relative to the receiver's clock.
func (w *winWorld) relation(e drkey.Epoch, now time.Time) string {
	switch {
	case now.Before(e.NotBefore):
		return "next"
	case now.Before(e.NotAfter):
		return "current"
	case now.Before(e.NotAfter.Add(docGrace)):
		return "previous-grace"
	}
	return "previous"
}
