//go:build verif

package drkeysim

import (
	"context"
	"encoding/hex"
	"fmt"
	"io"
	"net/netip"
	"os"
	"path/filepath"
	"sort"
	"sync"
	"time"

	"google.golang.org/protobuf/types/known/timestamppb"

	csdrkey "github.com/scionproto/scion/control/drkey"
	drkeygrpc "github.com/scionproto/scion/control/drkey/grpc"
	"github.com/scionproto/scion/pkg/addr"
	"github.com/scionproto/scion/pkg/drkey"
	cppb "github.com/scionproto/scion/pkg/proto/control_plane"
	"github.com/scionproto/scion/private/storage/cleaner"
	"github.com/scionproto/scion/private/storage/db"
	"github.com/scionproto/scion/private/storage/drkey/level1"
	level1sql "github.com/scionproto/scion/private/storage/drkey/level1/sqlite"
	"github.com/scionproto/scion/private/storage/drkey/secret"
	secretsql "github.com/scionproto/scion/private/storage/drkey/secret/sqlite"
	"verif/sim/core"
)

// memSeq gives in-memory sqlite databases process-unique names (never logged).
var memSeq int

func infra(format string, args ...any) {
	panic(core.InfraError{Msg: fmt.Sprintf(format, args...)})
}

// ---- simulated hosts ----

// simHost is a host address: the string handed to the repository code, and, independently, the
// type/length nibble and raw bytes the reference derivation uses.
type simHost struct {
	str    string
	kind   string // v4, v6, v4in6, svc
	nibble byte
	raw    []byte
}

var svcNames = []struct {
	s string
	v uint16
}{
	// service addresses of doc/protocols (DS=1, CS=2, Wildcard=0x10, multicast flag 0x8000)
	{"CS", 0x0002}, {"DS", 0x0001}, {"Wildcard", 0x0010},
	{"CS_A", 0x0002}, {"CS_M", 0x8002}, {"DS_M", 0x8001}, {"Wildcard_M", 0x8010},
}

func genHost(r *core.Run) simHost {
	switch r.Choice("host.kind", 6) {
	case 0, 1:
		b := r.Tape.Bytes("host.v4", 4)
		return simHost{str: netip.AddrFrom4([4]byte(b)).String(), kind: "v4", nibble: refAddrIPv4, raw: b}
	case 2, 3:
		b := r.Tape.Bytes("host.v6", 16)
		if b[0] == 0 && b[1] == 0 {
			b[0] = 0x20 // keep away from the IPv4-mapped / unspecified ranges; those have their own case
		}
		return simHost{str: netip.AddrFrom16([16]byte(b)).String(), kind: "v6", nibble: refAddrIPv6, raw: b}
	case 4:
		s := svcNames[r.Choice("host.svc", len(svcNames))]
		return simHost{str: s.s, kind: "svc", nibble: refAddrSVC, raw: []byte{byte(s.v >> 8), byte(s.v), 0, 0}}
	default:
		// IPv4-mapped IPv6 literal: it denotes the IPv4 host (assumption listed in props.d)
		b := r.Tape.Bytes("host.v4in6", 4)
		return simHost{str: "::ffff:" + netip.AddrFrom4([4]byte(b)).String(), kind: "v4in6", nibble: refAddrIPv4, raw: b}
	}
}

// ---- simulated ASes ----

type simAS struct {
	idx     int
	isd     uint16
	asn     uint64
	ia      addr.IA
	master  []byte
	dur     time.Duration
	arcSize int
	gen     int // generation of the database files (a crash continues on copies)
	hosts   []simHost

	svB      *secretsql.Backend
	l1B      *level1sql.Backend
	eng      *csdrkey.ServiceEngine
	cleaners []*cleaner.Cleaner
	restarts int
	cleaned  bool
}

func (a *simAS) String() string { return fmt.Sprintf("AS%d(%s)", a.idx, a.ia) }

type epochRec struct{ b, e int64 }

type svRec struct {
	e   int64
	key [16]byte
}

type world struct {
	r      *core.Run
	faulty bool
	tmp    string
	ases   []*simAS
	start  time.Time

	// fetch seam
	fetchCalls     int
	fetchFaults    int // injected fetch failures so far (compared before/after an engine call)
	partitionUntil time.Time
	partitionLeft  int

	// concurrent step (burst.go)
	burstOn bool
	mu      sync.Mutex
	parked  []*parkedFetch

	// oracle model
	svSeen map[string]svRec      // AS|proto|begin -> end,key : a secret value never changes
	epochs map[string][]epochRec // AS|proto -> epochs handed out, must never overlap
	bounds map[int][]int64       // AS idx -> observed epoch boundaries (unix s), sorted
	okCmp  int
}

var durChoices = []time.Duration{
	6 * time.Minute, time.Hour, 24 * time.Hour, 72 * time.Hour, 7*time.Minute + 13*time.Second,
	10 * time.Minute, 30 * time.Second, 3*time.Hour + time.Second,
}

func newWorld(r *core.Run, faulty bool) *world {
	// database files live on a RAM-backed file system when there is one (no simulated disk under
	// sqlite anyway, DESIGN section 10; fsync on a real disk only costs wall time)
	base := os.Getenv("VERIF_TMPDIR")
	if base == "" {
		if st, err := os.Stat("/dev/shm"); err == nil && st.IsDir() {
			base = "/dev/shm"
		}
	}
	tmp, err := os.MkdirTemp(base, "drkeysim-")
	if err != nil {
		infra("mkdtemp: %v", err)
	}
	w := &world{r: r, faulty: faulty, tmp: tmp, start: time.Now(), svSeen: map[string]svRec{},
		epochs: map[string][]epochRec{}, bounds: map[int][]int64{}}
	n := r.Range("world.ases", 2, 3)
	sameDur := r.Choice("world.samedur", 3) != 2 // mostly one global epoch length (what the prefetcher assumes)
	d0 := durChoices[r.Choice("world.dur", len(durChoices))]
	for i := 0; i < n; i++ {
		a := &simAS{idx: i}
		a.isd = uint16(1 + r.Choice("as.isd", 65535))
		switch r.Choice("as.askind", 3) {
		case 0:
			a.asn = uint64(0xff00_0000_0000) + uint64(0x110+r.Choice("as.as", 4096))
		case 1:
			a.asn = uint64(1 + r.Choice("as.as", 1<<31))
		default:
			a.asn = uint64(r.Choice("as.ashi", 1<<16))<<32 | uint64(r.Choice("as.aslo", 1<<32))
		}
		// distinct, non-zero AS numbers whatever the tape says (an all-zero tape gives everybody the
		// same draw)
		for a.asn == 0 || w.byIA(addr.MustIAFrom(addr.ISD(a.isd), addr.AS(a.asn))) != nil {
			a.asn = a.asn%0xffff_ffff_ffff + 1
		}
		a.ia = addr.MustIAFrom(addr.ISD(a.isd), addr.AS(a.asn))
		a.master = r.Tape.Bytes("as.master", r.Range("as.masterlen", 1, 32))
		if len(a.master) > 0 {
			a.master[0] ^= byte(0x51 + i) // all-zero tapes still give the ASes different secrets
		}
		a.dur = d0
		if !sameDur {
			a.dur = durChoices[r.Choice("as.dur", len(durChoices))]
		}
		a.arcSize = r.Range("as.arc", 1, 4)
		nh := r.Range("as.hosts", 1, 3)
		for k := 0; k < nh; k++ {
			a.hosts = append(a.hosts, genHost(r))
		}
		w.open(a)
		w.ases = append(w.ases, a)
		r.Logf("world %v dur=%v masterlen=%d arc=%d hosts=%v", a, a.dur, len(a.master), a.arcSize, hostStrs(a.hosts))
	}
	return w
}

func hostStrs(hs []simHost) []string {
	out := make([]string, len(hs))
	for i, h := range hs {
		out[i] = h.str
	}
	return out
}

func (a *simAS) svPath(tmp string) string {
	return filepath.Join(tmp, fmt.Sprintf("as%d-sv-%d.db", a.idx, a.gen))
}
func (a *simAS) l1Path(tmp string) string {
	return filepath.Join(tmp, fmt.Sprintf("as%d-l1-%d.db", a.idx, a.gen))
}

// open builds the control service's DRKey part of an AS the way control/cmd/control does: sqlite
// secret-value and level-1 databases (files), real secret-value backend with the epoch duration
// knob, real ARC prefetch list, real storage cleaners. Only the Fetcher is ours.
func (w *world) open(a *simAS) {
	sv, err := secretsql.NewBackend(a.svPath(w.tmp), &db.SqliteConfig{})
	if err != nil {
		infra("open sv db: %v", err)
	}
	l1, err := level1sql.NewBackend(a.l1Path(w.tmp), &db.SqliteConfig{})
	if err != nil {
		sv.Close()
		infra("open level1 db: %v", err)
	}
	arc, err := csdrkey.NewLevel1ARC(a.arcSize)
	if err != nil {
		infra("arc: %v", err)
	}
	a.svB, a.l1B = sv, l1
	a.eng = &csdrkey.ServiceEngine{
		SecretBackend:  csdrkey.NewSecretValueBackend(&secret.Database{Backend: sv}, a.master, a.dur),
		LocalIA:        a.ia,
		DB:             &level1.Database{Backend: l1},
		Fetcher:        &simFetcher{w: w, local: a},
		PrefetchKeeper: arc,
	}
	a.cleaners = a.eng.CreateStorageCleaners()
}

func (w *world) closeAS(a *simAS) {
	if a.svB != nil {
		a.svB.Close()
		a.l1B.Close()
		a.svB, a.l1B, a.eng = nil, nil, nil
	}
}

func (w *world) close() {
	for _, a := range w.ases {
		w.closeAS(a)
	}
	os.RemoveAll(w.tmp)
}

// restart: the control service process ends (all memory lost: engine, ARC list) and a new one is
// started on the same database files.
func (w *world) restart(a *simAS) {
	w.closeAS(a)
	a.restarts++
	w.open(a)
}

func copyFile(src, dst string) error {
	in, err := os.Open(src)
	if err != nil {
		if os.IsNotExist(err) {
			return nil
		}
		return err
	}
	defer in.Close()
	out, err := os.Create(dst)
	if err != nil {
		return err
	}
	if _, err := io.Copy(out, in); err != nil {
		out.Close()
		return err
	}
	return out.Close()
}

// crash: the process is killed without closing anything. Modelled at statement granularity
// (DESIGN section 10): the database file and its write-ahead log are copied as they are on disk,
// and the new process runs on the copies (sqlite replays the log).
func (w *world) crash(a *simAS) {
	oldSV, oldL1 := a.svPath(w.tmp), a.l1Path(w.tmp)
	a.gen++
	for _, p := range [][2]string{{oldSV, a.svPath(w.tmp)}, {oldL1, a.l1Path(w.tmp)}} {
		for _, suf := range []string{"", "-wal"} {
			if err := copyFile(p[0]+suf, p[1]+suf); err != nil {
				infra("crash copy: %v", err)
			}
		}
	}
	w.closeAS(a)
	for _, p := range []string{oldSV, oldL1} {
		for _, suf := range []string{"", "-wal", "-shm"} {
			os.Remove(p + suf)
		}
	}
	a.restarts++
	w.open(a)
}

func (w *world) byIA(ia addr.IA) *simAS {
	for _, a := range w.ases {
		if a.ia == ia {
			return a
		}
	}
	return nil
}

// ---- the level-1 fetch transport (stub of the gRPC/QUIC path between two control services) ----

type simFetcher struct {
	w     *world
	local *simAS
}

type fetchError struct{ what string }

func (e fetchError) Error() string { return "simulated fetch failure: " + e.what }

func (f *simFetcher) fail(kind string) (drkey.Level1Key, error) {
	f.w.fetchFaults++
	f.w.r.Fault(kind)
	f.w.r.Logf("  fetch by AS%d FAIL %s", f.local.idx, kind)
	return drkey.Level1Key{}, fetchError{kind}
}

// Level1 implements control/drkey.Fetcher. Request and reply pass through the repository's
// protobuf conversions; the server side repeats what grpc.Server.DRKeyLevel1 does (the requester's
// IA comes from its certificate, only predefined protocols, Engine.DeriveLevel1).
func (f *simFetcher) Level1(ctx context.Context, meta drkey.Level1Meta) (drkey.Level1Key, error) {
	w, r := f.w, f.w.r
	if w.burstOn {
		// concurrent step: the fetch is parked (durably, on its own channel) until the simulator
		// releases it; everything below then runs while all other goroutines are blocked
		p := &parkedFetch{idx: burstIdx(ctx), meta: meta, ch: make(chan struct{})}
		w.mu.Lock()
		w.parked = append(w.parked, p)
		w.mu.Unlock()
		<-p.ch
	}
	w.fetchCalls++
	src := w.byIA(meta.SrcIA)
	if src == nil || src.eng == nil {
		infra("fetch towards unknown AS %v", meta.SrcIA)
	}
	if w.faulty {
		if w.partitionLeft > 0 && time.Now().Before(w.partitionUntil) {
			w.partitionLeft--
			return f.fail("fetch.partition")
		}
		if r.Chance("fault.fetch.fail.request", 1, 7) {
			return f.fail("fetch.fail.request")
		}
		if !w.burstOn && r.Chance("fault.fetch.delay", 1, 9) {
			// slow transport: simulated time passes (possibly across an epoch boundary) mid-request
			d := time.Duration(1+r.Choice("fetch.delay.ms", 20000)) * time.Millisecond
			if r.Choice("fetch.delay.long", 4) == 3 {
				d = src.dur/2 + d
			}
			r.Fault("fetch.delay")
			time.Sleep(d)
		}
	}
	req := drkeygrpc.Level1MetaToProtoRequest(meta)
	if err := req.ValTime.CheckValid(); err != nil {
		return drkey.Level1Key{}, err
	}
	srvMeta := drkey.Level1Meta{
		Validity: req.ValTime.AsTime(),
		ProtoId:  drkey.Protocol(req.ProtocolId),
		SrcIA:    src.ia,
		DstIA:    f.local.ia,
	}
	if !srvMeta.ProtoId.IsPredefined() {
		return drkey.Level1Key{}, fmt.Errorf("the requested protocol id is not recognized: %d", srvMeta.ProtoId)
	}
	key, err := src.eng.DeriveLevel1(ctx, srvMeta)
	if err != nil {
		return drkey.Level1Key{}, fmt.Errorf("remote: %w", err)
	}
	rep := &cppb.DRKeyLevel1Response{
		EpochBegin: timestamppb.New(key.Epoch.NotBefore),
		EpochEnd:   timestamppb.New(key.Epoch.NotAfter),
		Key:        append([]byte(nil), key.Key[:]...),
	}
	if w.faulty && r.Chance("fault.fetch.fail.response", 1, 9) {
		return f.fail("fetch.fail.response")
	}
	r.Logf("  fetch AS%d<-AS%d proto=%d epoch=[%d,%d)", f.local.idx, src.idx, uint16(srvMeta.ProtoId),
		key.Epoch.NotBefore.Unix(), key.Epoch.NotAfter.Unix())
	return drkeygrpc.GetLevel1KeyFromReply(meta, rep)
}

// ---- oracle bookkeeping shared by the operations ----

func (w *world) noteBound(a *simAS, e drkey.Epoch) {
	for _, s := range []int64{e.NotBefore.Unix(), e.NotAfter.Unix()} {
		bs := w.bounds[a.idx]
		i := sort.Search(len(bs), func(i int) bool { return bs[i] >= s })
		if i < len(bs) && bs[i] == s {
			continue
		}
		bs = append(bs, 0)
		copy(bs[i+1:], bs[i:])
		bs[i] = s
		if len(bs) > 48 {
			bs = bs[len(bs)-48:]
		}
		w.bounds[a.idx] = bs
	}
}

// inEpoch judges "the epoch contains t"; instants exactly on a boundary are don't-care.
func inEpoch(e drkey.Epoch, t time.Time) bool {
	return !t.Before(e.NotBefore) && !t.After(e.NotAfter)
}

func hx(k [16]byte) string { return hex.EncodeToString(k[:4]) }

func (w *world) rel(t time.Time) string {
	return t.Sub(w.start).String()
}
