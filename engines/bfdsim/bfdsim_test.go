//go:build verif

// Package bfdsim: real router/bfd.Session state machines over a simulated lossy link.
// Property C16 (RFC 5880 conformance, safety under faults, bounded recovery).
package bfdsim

import (
	"container/heap"
	"context"
	"fmt"
	"sync"
	"testing"
	"testing/synctest"
	"time"

	"github.com/gopacket/gopacket/layers"

	"github.com/scionproto/scion/router/bfd"
	"verif/sim/core"
)

// ---- reference model written from RFC 5880 section 6.8.6 (not from the implementation) ----

type refSession struct {
	state    layers.BFDState
	deadline time.Time // zero: no detection timer armed
	rx       time.Duration
	lastEv   string
}

func refDiscard(p *layers.BFD) bool {
	switch {
	case p.Version != 1, p.DetectMultiplier == 0, p.Multipoint, p.MyDiscriminator == 0:
		return true
	case p.YourDiscriminator == 0 && p.State != layers.BFDStateDown && p.State != layers.BFDStateAdminDown:
		return true
	case p.AuthPresent, p.Poll, p.Final, p.Demand, p.RequiredMinEchoRxInterval != 0:
		// features the implementation documents as unsupported: such packets are discarded
		return true
	}
	return false
}

// advance applies a detection-timer expiry if one is due strictly before or at now.
func (r *refSession) advance(now time.Time) {
	if !r.deadline.IsZero() && !now.Before(r.deadline) {
		if r.state == layers.BFDStateInit || r.state == layers.BFDStateUp {
			r.lastEv = fmt.Sprintf("%v+detection-timer", r.state)
			r.state = layers.BFDStateDown
		}
		r.deadline = time.Time{}
	}
}

func (r *refSession) receive(now time.Time, p *layers.BFD) {
	r.advance(now)
	if refDiscard(p) {
		return
	}
	if r.state == layers.BFDStateAdminDown {
		return // only reachable after a listed known finding re-synchronised the reference
	}
	r.deadline = now.Add(time.Duration(p.DetectMultiplier) *
		max(r.rx, time.Duration(p.DesiredMinTxInterval)*time.Microsecond))
	old := r.state
	r.lastEv = fmt.Sprintf("%v+recv%v", old, p.State)
	if p.State == layers.BFDStateAdminDown {
		if r.state != layers.BFDStateDown {
			r.state = layers.BFDStateDown
		}
		return
	}
	switch r.state {
	case layers.BFDStateDown:
		if p.State == layers.BFDStateDown {
			r.state = layers.BFDStateInit
		} else if p.State == layers.BFDStateInit {
			r.state = layers.BFDStateUp
		}
	case layers.BFDStateInit:
		if p.State == layers.BFDStateInit || p.State == layers.BFDStateUp {
			r.state = layers.BFDStateUp
		}
	case layers.BFDStateUp:
		if p.State == layers.BFDStateDown {
			r.state = layers.BFDStateDown
		}
	}
}

// ---- simulated link and parties ----

type sent struct {
	at  time.Time
	pkt layers.BFD
}

type party struct {
	id       int
	name     string
	sess     *bfd.Session
	ref      refSession
	mu       sync.Mutex
	out      []sent
	failNext bool
	nfail    int
	tx, rx   time.Duration
	mult     int
	cancel   context.CancelFunc
	lastRecv time.Time
	lastSend time.Time
	gen      int
	stuck    bool // known finding manifested: session is in the inescapable AdminDown state
}

type psender struct {
	p    *party
	wake chan struct{}
}

func (s psender) Send(pkt *layers.BFD) error {
	s.p.mu.Lock()
	fail := s.p.failNext
	s.p.failNext = false
	if fail {
		s.p.nfail++
	} else {
		s.p.out = append(s.p.out, sent{time.Now(), *pkt})
	}
	s.p.mu.Unlock()
	select {
	case s.wake <- struct{}{}:
	default:
	}
	if fail {
		return fmt.Errorf("simulated send error")
	}
	return nil
}

type event struct {
	at   time.Time
	seq  int
	to   int
	pkt  *layers.BFD // nil: wake-up only (reference deadline, phase change)
	kind string
}
type evHeap []event

func (h evHeap) Len() int { return len(h) }
func (h evHeap) Less(i, j int) bool {
	if !h[i].at.Equal(h[j].at) {
		return h[i].at.Before(h[j].at)
	}
	return h[i].seq < h[j].seq
}
func (h evHeap) Swap(i, j int) { h[i], h[j] = h[j], h[i] }
func (h *evHeap) Push(x any)   { *h = append(*h, x.(event)) }
func (h *evHeap) Pop() any     { o := *h; n := len(o); x := o[n-1]; *h = o[:n-1]; return x }

var intervals = []time.Duration{1 * time.Millisecond, 5 * time.Millisecond, 20 * time.Millisecond, 50 * time.Millisecond,
	100 * time.Millisecond, 200 * time.Millisecond, 500 * time.Millisecond, time.Second, 2 * time.Second}

type sim struct {
	r      *core.Run
	ps     [2]*party
	h      evHeap
	seq    int
	wake   chan struct{}
	start  time.Time
	ndeliv int
	ctx    context.Context
}

func (s *sim) push(at time.Time, to int, pkt *layers.BFD, kind string) {
	s.seq++
	heap.Push(&s.h, event{at, s.seq, to, pkt, kind})
}

func (s *sim) rel(t time.Time) time.Duration { return t.Sub(s.start) }

func (s *sim) newSession(p *party) {
	p.gen++
	sess := &bfd.Session{
		Sender:                psender{p, s.wake},
		LocalDiscriminator:    layers.BFDDiscriminator(1000*(p.id+1) + p.gen),
		DesiredMinTxInterval:  p.tx,
		RequiredMinRxInterval: p.rx,
		DetectMult:            layers.BFDDetectMultiplier(p.mult),
		ReceiveQueueSize:      10,
	}
	p.sess = sess
	p.ref = refSession{state: layers.BFDStateDown, rx: p.rx}
	go func() {
		if err := sess.Run(s.ctx); err != nil {
			panic(core.InfraError{Msg: "session run: " + err.Error()})
		}
	}()
}

// residue gives every delivery a unique sub-microsecond residue so that deliveries never coincide
// with timers derived from other deliveries.
func (s *sim) residue() time.Duration {
	s.ndeliv++
	return time.Duration(1+(s.ndeliv*37)%997) * time.Nanosecond
}

func (s *sim) forge(to int) *layers.BFD {
	r := s.r
	peer := s.ps[1-to]
	me := s.ps[to]
	p := &layers.BFD{Version: 1}
	// AdminDown only in 1 of 8 forged packets: while the AdminDown defect is a listed known finding
	// it ends the useful part of a run
	p.State = []layers.BFDState{layers.BFDStateDown, layers.BFDStateInit, layers.BFDStateUp, layers.BFDStateDown,
		layers.BFDStateInit, layers.BFDStateUp, layers.BFDStateUp, layers.BFDStateAdminDown}[r.Choice("forge.state", 8)]
	p.DetectMultiplier = layers.BFDDetectMultiplier(r.Range("forge.mult", 1, 5))
	p.MyDiscriminator = peer.sess.LocalDiscriminator
	p.YourDiscriminator = me.sess.LocalDiscriminator
	p.DesiredMinTxInterval = layers.BFDTimeInterval(intervals[r.Choice("forge.tx", len(intervals))] / time.Microsecond)
	p.RequiredMinRxInterval = layers.BFDTimeInterval(intervals[r.Choice("forge.rx", len(intervals))] / time.Microsecond)
	switch r.Choice("forge.odd", 24) {
	case 1:
		p.Version = layers.BFDVersion(r.Choice("forge.ver", 8))
	case 2:
		p.DetectMultiplier = 0
	case 3:
		p.MyDiscriminator = 0
	case 4:
		p.YourDiscriminator = 0
	case 5:
		p.YourDiscriminator = layers.BFDDiscriminator(r.Choice("forge.ydisc", 1<<32))
	case 6:
		p.MyDiscriminator = layers.BFDDiscriminator(r.Choice("forge.mdisc", 1<<32))
	case 7:
		p.Poll = true
	case 8:
		p.Final = true
	case 9:
		p.Demand = true
	case 10:
		p.Multipoint = true
	case 11:
		p.RequiredMinEchoRxInterval = 1000
	case 12:
		p.AuthPresent = true
		p.AuthHeader = &layers.BFDAuthHeader{AuthType: layers.BFDAuthTypePassword, Data: []byte("x")}
	}
	return p
}

func stName(s layers.BFDState) string { return s.String() }

func runC16(r *core.Run) {
	core.Bubble(r, func(t *testing.T) { runC16Bubble(r, false) })
}

// runC16Clean: two fresh sessions on a link that delivers everything: they must reach Up and
// never leave it.
func runC16Clean(r *core.Run) {
	core.Bubble(r, func(t *testing.T) { runC16Bubble(r, true) })
}

func runC16Bubble(r *core.Run, clean bool) {
	seed := r.Tape.Seed
	bfd.VerifSetJitterSource(func(n int) int {
		return int(core.Mix(seed, uint64(time.Now().UnixNano())) % uint64(n))
	})
	defer bfd.VerifSetJitterSource(nil)

	// static part: the transition table for the events a remote or the timer can cause, except
	// received AdminDown whose event mapping is internal to the session (checked dynamically)
	for _, st := range []layers.BFDState{layers.BFDStateDown, layers.BFDStateInit, layers.BFDStateUp} {
		for _, ev := range []layers.BFDState{layers.BFDStateDown, layers.BFDStateInit, layers.BFDStateUp} {
			ref := refSession{state: st}
			ref.receive(time.Unix(1, 0), &layers.BFD{Version: 1, DetectMultiplier: 1, MyDiscriminator: 1, YourDiscriminator: 1, State: ev})
			if got := bfd.VerifTransition(st, int(ev)); got != ref.state {
				r.Fail("rfc5880-table", fmt.Sprintf("table:%v+recv%v->%v", st, ev, got), "transition(%v, received %v) = %v, RFC 5880 6.8.6 says %v", st, ev, got, ref.state)
				return
			}
		}
		want := layers.BFDStateDown
		if got := bfd.VerifTransition(st, bfd.VerifEventTimer); got != want {
			r.Fail("rfc5880-table", fmt.Sprintf("table:%v+timer->%v", st, got), "transition(%v, timer) = %v, want %v", st, got, want)
			return
		}
	}

	ctx, cancel := context.WithCancel(context.Background())
	defer cancel()
	s := &sim{r: r, wake: make(chan struct{}, 1), start: time.Now(), ctx: ctx}
	for i := 0; i < 2; i++ {
		p := &party{id: i, name: string(rune('A' + i))}
		p.tx = intervals[r.Choice("tx", len(intervals))]
		p.rx = intervals[r.Choice("rx", len(intervals))]
		p.mult = r.Range("mult", 1, 5)
		s.ps[i] = p
	}
	mode := 0
	if !clean {
		mode = r.Choice("mode", 3)
	}
	// 0: pair with link faults; 1: pair + forged packets; 2: A against a scripted storm, then a fresh well-behaved B
	maxI := time.Second
	if mode >= 1 {
		maxI = intervals[len(intervals)-1] // forged packets can advertise up to this interval
	}
	for _, p := range s.ps {
		maxI = max(maxI, p.tx, p.rx)
	}
	minI := min(max(s.ps[0].tx, s.ps[1].rx), max(s.ps[1].tx, s.ps[0].rx))
	faultDur := min(max(300*minI, 3*time.Second), 120*time.Second)
	if clean {
		faultDur = 0
	}
	detMax := 5 * maxI
	bound := 10*maxI + detMax
	tail := bound + 5*maxI
	faultEnd := s.start.Add(faultDur)
	end := faultEnd.Add(tail)
	baseDelay := time.Duration(r.Range("basedelay", 0, 20)) * 100 * time.Microsecond

	dropP := r.Choice("rate.drop", 5)  // x/16
	dupP := r.Choice("rate.dup", 3)    // x/16
	delayP := r.Choice("rate.delay", 4)
	forgeP := 0
	if mode >= 1 {
		forgeP = 1 + r.Choice("rate.forge", 4)
	}
	senderrP := r.Choice("rate.senderr", 3)
	npart := r.Choice("partitions", 3)
	type span struct{ from, to time.Time }
	var parts []span
	for i := 0; i < npart; i++ {
		a := time.Duration(r.Choice("part.at", 1000)) * faultDur / 1000
		d := time.Duration(1+r.Choice("part.len", 40)) * maxI / 4
		parts = append(parts, span{s.start.Add(a), s.start.Add(a + d)})
	}
	nrestart := r.Choice("restarts", 3)
	for i := 0; i < nrestart; i++ {
		a := time.Duration(r.Choice("restart.at", 1000)) * faultDur / 1000
		s.push(s.start.Add(a), r.Choice("restart.who", 2), nil, "restart")
	}
	s.newSession(s.ps[0])
	if mode != 2 {
		s.newSession(s.ps[1])
	} else {
		// B is scripted during the fault phase: it only exists as a discriminator
		s.ps[1].sess = &bfd.Session{LocalDiscriminator: 2001}
		s.ps[1].ref = refSession{state: layers.BFDStateDown, rx: s.ps[1].rx}
		// forged packets arrive at a drawn rate
		n := r.Range("storm.n", 5, 200)
		for i := 0; i < n; i++ {
			a := time.Duration(r.Choice("storm.at", 100000)) * faultDur / 100000
			s.push(s.start.Add(a+s.residue()), 0, nil, "storm")
		}
	}
	s.push(faultEnd, 0, nil, "faults-stop")
	bothUpAt := time.Time{}
	inPartition := func(t time.Time) bool {
		for _, sp := range parts {
			if !t.Before(sp.from) && t.Before(sp.to) {
				return true
			}
		}
		return false
	}
	real := func(i int) bool { return s.ps[i].sess != nil && s.ps[i].sess.Sender != nil }
	steps := 0
	maxSteps := 60000
	deliveredNow := [2]bool{}

	observe := func(now time.Time) bool {
		for i, p := range s.ps {
			if !real(i) {
				continue
			}
			dl := p.ref.deadline
			p.ref.advance(now)
			got := p.sess.VerifLocalState()
			if got != p.ref.state {
				if !dl.IsZero() && dl.Equal(now) && deliveredNow[i] {
					r.Ambiguous = true
					return false
				}
				sig := fmt.Sprintf("rfc5880:%s->%v", p.ref.lastEv, got)
				if r.IsKnown(sig) && got == layers.BFDStateAdminDown {
					// listed known finding: note it, re-synchronise the reference with the stuck
					// implementation and go on (recovery of this session is no longer judged)
					r.NoteKnown(sig)
					p.stuck = true
					p.ref.state = layers.BFDStateAdminDown
					continue
				}
				r.Fail("rfc5880-conformance", sig, "t=%v session %s is %v but RFC 5880 6.8.6 reference is %v (last reference event: %s)",
					s.rel(now), p.name, got, p.ref.state, p.ref.lastEv)
				return false
			}
			if p.sess.IsUp() != (got == layers.BFDStateUp) {
				r.Fail("isup-consistent", "isup", "IsUp()=%v but state %v", p.sess.IsUp(), got)
				return false
			}
		}
		return true
	}

	for !r.Failed() && !r.Ambiguous {
		synctest.Wait()
		now := time.Now()
		steps++
		if steps > maxSteps {
			r.Probe("step-cap-reached")
			break
		}
		faulty := now.Before(faultEnd)
		// collect what the sessions sent at this instant, in canonical order
		for i, p := range s.ps {
			if !real(i) {
				continue
			}
			p.mu.Lock()
			out := p.out
			p.out = nil
			nf := p.nfail
			p.nfail = 0
			p.mu.Unlock()
			if nf > 0 {
				r.Logf("t=%v %s send error x%d", s.rel(now), p.name, nf)
			}
			for _, m := range out {
				if !p.ref.deadline.IsZero() && m.at.Equal(p.ref.deadline) {
					r.Ambiguous = true // own send and detection timers at the same instant
				}
				if deliveredNow[i] && m.at.Equal(now) {
					r.Ambiguous = true // send timer and delivery at the same instant
				}
				// the state field of a sent packet must be a state the reference allows at that instant
				pk := m.pkt
				r.Logf("t=%v %s sends %v my=%d your=%d tx=%d rx=%d", s.rel(m.at), p.name, pk.State, pk.MyDiscriminator,
					pk.YourDiscriminator, pk.DesiredMinTxInterval, pk.RequiredMinRxInterval)
				p.lastSend = m.at
				to := 1 - i
				if !real(to) {
					continue
				}
				if faulty {
					if inPartition(now) {
						r.Fault("bfd.partition")
						continue
					}
					if dropP > 0 && r.FaultChance("bfd.drop", dropP, 16) {
						continue
					}
				}
				d := baseDelay
				if faulty && delayP > 0 && r.FaultChance("bfd.delay", delayP, 16) {
					d += time.Duration(r.Choice("delay.ms", 3000)) * time.Millisecond
				}
				cp := pk
				if at := m.at.Add(d + s.residue()); !faulty || at.Before(faultEnd) {
					s.push(at, to, &cp, "deliver")
				} else {
					r.Fault("bfd.drop") // a delayed packet that would arrive after the fault phase is lost instead
				}
				if faulty && dupP > 0 && r.FaultChance("bfd.dup", dupP, 16) {
					cp2 := pk
					if at := m.at.Add(d + time.Duration(r.Choice("dup.ms", 500))*time.Millisecond + s.residue()); at.Before(faultEnd) {
						s.push(at, to, &cp2, "deliver")
					}
				}
				if faulty && forgeP > 0 && r.FaultChance("bfd.forge", forgeP, 16) {
					s.push(m.at.Add(time.Duration(r.Choice("forge.ms", 500))*time.Millisecond+s.residue()), r.Choice("forge.to", 2), nil, "forge")
				}
			}
			if faulty && senderrP > 0 && r.FaultChance("bfd.senderr", senderrP, 32) {
				p.mu.Lock()
				p.failNext = true
				p.mu.Unlock()
			}
		}
		if r.Ambiguous {
			break
		}
		if !observe(now) {
			break
		}
		deliveredNow = [2]bool{}
		// liveness bookkeeping in the fault-free tail
		if !faulty {
			up := real(0) && real(1) && s.ps[0].ref.state == layers.BFDStateUp && s.ps[1].ref.state == layers.BFDStateUp
			if up && bothUpAt.IsZero() {
				bothUpAt = now
				// hold for several detection times, then the run may end
				hold := 4 * time.Duration(max(s.ps[0].mult, s.ps[1].mult)) * max(s.ps[0].tx, s.ps[1].tx, s.ps[0].rx, s.ps[1].rx)
				if e := now.Add(hold); e.Before(end) {
					end = e
				}
				r.Logf("t=%v both Up (%v after faults stopped)", s.rel(now), now.Sub(faultEnd))
			}
			if !up && !bothUpAt.IsZero() {
				if clean {
					r.Fail("stay-up", "stay-up", "t=%v sessions left Up (A=%v B=%v) on a link that delivered everything since start", s.rel(now), s.ps[0].ref.state, s.ps[1].ref.state)
					break
				}
				// after a fault history a transient flap (stale negotiated intervals) is not judged;
				// what is demanded is stable Up within the bound
				r.Probe("flap-after-recovery")
				bothUpAt = time.Time{}
				end = faultEnd.Add(tail)
			}
			if (s.ps[0].stuck || s.ps[1].stuck) && now.Sub(faultEnd) > bound {
				// a listed known finding left a session in AdminDown for good: recovery of this run
				// cannot be judged
				break
			}
			if bothUpAt.IsZero() && now.Sub(faultEnd) > bound {
				r.Fail("recover", fmt.Sprintf("recover:A=%v,B=%v", s.ps[0].sess.VerifLocalState(), s.ps[1].sess.VerifLocalState()),
					"sessions not both Up %v after faults stopped (bound %v): A=%v B=%v", now.Sub(faultEnd), bound,
					s.ps[0].sess.VerifLocalState(), s.ps[1].sess.VerifLocalState())
				break
			}
		}
		if !now.Before(end) {
			break
		}
		// next event
		next := end
		if s.h.Len() > 0 && s.h[0].at.Before(next) {
			next = s.h[0].at
		}
		for i, p := range s.ps {
			if real(i) && !p.ref.deadline.IsZero() && p.ref.deadline.Before(next) && p.ref.deadline.After(now) {
				next = p.ref.deadline
			}
		}
		if next.After(now) {
			tm := time.NewTimer(next.Sub(now))
			select {
			case <-s.wake:
				tm.Stop()
				continue
			case <-tm.C:
			}
			now = time.Now()
		}
		// execute all events due now, one at a time
		for s.h.Len() > 0 && !s.h[0].at.After(now) {
			ev := heap.Pop(&s.h).(event)
			switch ev.kind {
			case "deliver", "forge", "storm":
				pkt := ev.pkt
				if ev.kind != "deliver" {
					if !now.Before(faultEnd) || !real(ev.to) {
						continue
					}
					pkt = s.forge(ev.to)
					r.Fault("bfd.forge")
				}
				if !real(ev.to) {
					continue
				}
				p := s.ps[ev.to]
				r.Logf("t=%v %s receives %v mult=%d tx=%d rx=%d my=%d your=%d (%s)", s.rel(now), p.name, pkt.State, pkt.DetectMultiplier,
					pkt.DesiredMinTxInterval, pkt.RequiredMinRxInterval, pkt.MyDiscriminator, pkt.YourDiscriminator, ev.kind)
				if !p.ref.deadline.IsZero() && p.ref.deadline.Equal(now) {
					r.Ambiguous = true
				}
				p.ref.receive(now, pkt)
				r.Covered(p.ref.lastEv)
				p.sess.ReceiveMessage(pkt)
				deliveredNow[ev.to] = true
				synctest.Wait()
				if !observe(now) {
					break
				}
			case "restart":
				if !now.Before(faultEnd) || !real(ev.to) {
					continue
				}
				p := s.ps[ev.to]
				r.Fault("bfd.peer-restart")
				r.Logf("t=%v %s restarts", s.rel(now), p.name)
				p.sess.Close()
				synctest.Wait()
				p.mu.Lock()
				p.out = nil
				p.mu.Unlock()
				s.newSession(p)
			case "faults-stop":
				r.Logf("t=%v faults stop", s.rel(now))
				if mode == 2 {
					s.newSession(s.ps[1])
				}
			}
			if r.Failed() || r.Ambiguous {
				break
			}
		}
	}
	for i, p := range s.ps {
		if real(i) {
			p.sess.Close()
		}
	}
	cancel()
	synctest.Wait()
	r.SimNS = int64(time.Since(s.start))
	r.Nontrivial = r.Events > 20
	if r.Ambiguous {
		r.Probe("ambiguous-timer-coincidence")
	}
	r.Sample = map[string]any{"mode": mode, "A": fmt.Sprintf("tx=%v rx=%v mult=%d", s.ps[0].tx, s.ps[0].rx, s.ps[0].mult),
		"B": fmt.Sprintf("tx=%v rx=%v mult=%d", s.ps[1].tx, s.ps[1].rx, s.ps[1].mult), "events": r.Events,
		"simulated": time.Since(s.start).String(), "log_head": r.Log[:min(len(r.Log), 8)]}
}

func TestWorker(t *testing.T) {
	core.Main(t, core.Engine{Name: "bfdsim", Campaigns: map[string]core.RunFunc{
		"C16/link":  runC16,
		"C16/clean": runC16Clean,
	}})
}
