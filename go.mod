module verif

go 1.26.4

require (
	github.com/anishathalye/porcupine v1.3.0
	github.com/gopacket/gopacket v1.6.1
	github.com/patrickmn/go-cache v2.1.1-0.20180815053127-5633e0862627+incompatible
	github.com/scionproto/scion v0.0.0
	google.golang.org/protobuf v1.36.11
)

require (
	github.com/antlr4-go/antlr/v4 v4.13.1 // indirect
	github.com/apapsch/go-jsonmerge/v2 v2.0.0 // indirect
	github.com/beorn7/perks v1.0.1 // indirect
	github.com/cespare/xxhash/v2 v2.3.0 // indirect
	github.com/dchest/cmac v1.0.0 // indirect
	github.com/fatih/color v1.18.0 // indirect
	github.com/go-viper/mapstructure/v2 v2.4.0 // indirect
	github.com/google/go-cmp v0.7.0 // indirect
	github.com/google/uuid v1.6.0 // indirect
	github.com/grpc-ecosystem/go-grpc-middleware v1.4.0 // indirect
	github.com/grpc-ecosystem/go-grpc-prometheus v1.2.0 // indirect
	github.com/grpc-ecosystem/grpc-opentracing v0.0.0-20180507213350-8e809c8a8645 // indirect
	github.com/hashicorp/golang-lru/arc/v2 v2.0.7 // indirect
	github.com/hashicorp/golang-lru/v2 v2.0.7 // indirect
	github.com/iancoleman/strcase v0.3.0 // indirect
	github.com/lestrrat-go/blackmagic v1.0.2 // indirect
	github.com/lestrrat-go/httpcc v1.0.1 // indirect
	github.com/lestrrat-go/httprc/v3 v3.0.0-beta1 // indirect
	github.com/lestrrat-go/jwx/v3 v3.0.0 // indirect
	github.com/lestrrat-go/option v1.0.1 // indirect
	github.com/mattn/go-colorable v0.1.14 // indirect
	github.com/mattn/go-isatty v0.0.20 // indirect
	github.com/mattn/go-runewidth v0.0.16 // indirect
	github.com/mattn/go-sqlite3 v1.14.37 // indirect
	github.com/munnerz/goautoneg v0.0.0-20191010083416-a7dc8b61c822 // indirect
	github.com/oapi-codegen/runtime v1.6.0 // indirect
	github.com/olekukonko/errors v0.0.0-20250405072817-4e6d85265da6 // indirect
	github.com/olekukonko/ll v0.0.8 // indirect
	github.com/olekukonko/tablewriter v1.0.7 // indirect
	github.com/opentracing/opentracing-go v1.2.0 // indirect
	github.com/pelletier/go-toml/v2 v2.2.4 // indirect
	github.com/pkg/errors v0.9.1 // indirect
	github.com/prometheus/client_golang v1.22.0 // indirect
	github.com/prometheus/client_model v0.6.1 // indirect
	github.com/prometheus/common v0.63.0 // indirect
	github.com/prometheus/procfs v0.16.0 // indirect
	github.com/quic-go/quic-go v0.59.1 // indirect
	github.com/rivo/uniseg v0.4.7 // indirect
	github.com/spf13/cobra v1.10.2 // indirect
	github.com/spf13/pflag v1.0.10 // indirect
	github.com/uber/jaeger-client-go v2.30.0+incompatible // indirect
	github.com/uber/jaeger-lib v2.4.1+incompatible // indirect
	go.uber.org/atomic v1.11.0 // indirect
	go.uber.org/multierr v1.11.0 // indirect
	go.uber.org/zap v1.27.0 // indirect
	go4.org/netipx v0.0.0-20231129151722-fdeea329fbba // indirect
	golang.org/x/crypto v0.52.0 // indirect
	golang.org/x/exp v0.0.0-20250620022241-b7579e27df2b // indirect
	golang.org/x/net v0.55.0 // indirect
	golang.org/x/sync v0.20.0 // indirect
	golang.org/x/sys v0.45.0 // indirect
	golang.org/x/text v0.37.0 // indirect
	google.golang.org/genproto/googleapis/rpc v0.0.0-20260414002931-afd174a4e478 // indirect
	google.golang.org/grpc v1.82.1 // indirect
	gopkg.in/yaml.v3 v3.0.1 // indirect
	zgo.at/zcache/v2 v2.1.0 // indirect
)

replace github.com/scionproto/scion => /repo
