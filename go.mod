module verif

go 1.26.4

require (
	github.com/anishathalye/porcupine v1.3.0
	github.com/scionproto/scion v0.0.0
)

require (
	github.com/beorn7/perks v1.0.1 // indirect
	github.com/cespare/xxhash/v2 v2.3.0 // indirect
	github.com/munnerz/goautoneg v0.0.0-20191010083416-a7dc8b61c822 // indirect
	github.com/prometheus/client_golang v1.22.0 // indirect
	github.com/prometheus/client_model v0.6.1 // indirect
	github.com/prometheus/common v0.63.0 // indirect
	github.com/prometheus/procfs v0.16.0 // indirect
	golang.org/x/sys v0.45.0 // indirect
	google.golang.org/protobuf v1.36.11 // indirect
)

replace github.com/scionproto/scion => /repo
