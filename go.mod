module verif

go 1.26.4

require (
	github.com/anishathalye/porcupine v1.3.0
	github.com/gopacket/gopacket v1.6.1
	github.com/scionproto/scion v0.0.0
)

require (
	github.com/beorn7/perks v1.0.1 // indirect
	github.com/cespare/xxhash/v2 v2.3.0 // indirect
	github.com/munnerz/goautoneg v0.0.0-20191010083416-a7dc8b61c822 // indirect
	github.com/opentracing/opentracing-go v1.2.0 // indirect
	github.com/pelletier/go-toml/v2 v2.2.4 // indirect
	github.com/prometheus/client_golang v1.22.0 // indirect
	github.com/prometheus/client_model v0.6.1 // indirect
	github.com/prometheus/common v0.63.0 // indirect
	github.com/prometheus/procfs v0.16.0 // indirect
	go.uber.org/multierr v1.11.0 // indirect
	go.uber.org/zap v1.27.0 // indirect
	golang.org/x/crypto v0.52.0 // indirect
	golang.org/x/net v0.55.0 // indirect
	golang.org/x/sys v0.45.0 // indirect
	google.golang.org/protobuf v1.36.11 // indirect
)

replace github.com/scionproto/scion => /repo
