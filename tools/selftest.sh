#!/bin/bash
# tools/selftest.sh [runs] : determinism self-test of every claimed campaign: the same runs are executed twice, under
# GOMAXPROCS=1 and GOMAXPROCS=16, in separate processes; the complete event logs must be byte-identical.
# Writes evidence/determinism.json. Exit 0 iff every campaign is deterministic.
cd "$(dirname "$0")/.."
N=${1:-30}
export GOFLAGS=-mod=mod GOPROXY=off CGO_ENABLED=1; unset GOSUMDB GOTOOLCHAIN
python3 - "$N" <<'PY'
import json,glob,os,subprocess,sys,shutil,filecmp
N=int(sys.argv[1]); ROOT=os.getcwd()
props=json.load(open('props.json'))['properties']
for f in sorted(glob.glob('props.d/*.json')): props.update(json.load(open(f))['properties'])
claimed=[c['property_id'] for c in json.load(open('MANIFEST.json'))['checks']]
kf=json.load(open('known_findings.json'))['findings']
res={}; bad=0
built=set()
for pid in claimed:
    c=props[pid]; eng=c['engine']
    if eng not in built:
        subprocess.run(['go','test','-c','-tags','verif','-vet=off','-o','.build/%s.test'%eng,'./engines/%s/'%eng],check=True); built.add(eng)
    known='|'.join(k['signature'] for k in kf if k['property']==pid and not k.get('fixed'))
    for camp in c['campaigns']:
        name=camp['name']; dirs=[]
        if camp.get('real_scheduler'):
            # supplementary campaign whose interleavings come from the real Go scheduler (no hook to own them):
            # its verdict (linearizability of the recorded history) is schedule-independent, its log is not
            res['%s/%s'%(pid,name)]={'runs':0,'identical':None,'skipped':'real scheduler: not a seeded-schedule campaign'}
            print('%s/%s skipped (real scheduler)'%(pid,name),flush=True)
            continue
        procs=[]
        for gmp in (1,16):
            d='/tmp/verif-selftest/%s-%s-%d'%(pid,name,gmp); shutil.rmtree(d,ignore_errors=True); dirs.append(d)
            env=dict(os.environ,GOMAXPROCS=str(gmp),VERIF_PROP=pid,VERIF_CAMPAIGN=name,VERIF_RUN_FROM='0',VERIF_RUN_TO=str(N),VERIF_DUMPLOG=d,VERIF_KNOWN=known,VERIF_OUT='/dev/null')
            procs.append(subprocess.Popen(['.build/%s.test'%eng,'-test.run','^TestWorker$','-test.count=1','-test.timeout','1h'],env=env,stdout=subprocess.DEVNULL,stderr=subprocess.DEVNULL))
        for p in procs: p.wait()
        a=sorted(os.listdir(dirs[0])) if os.path.isdir(dirs[0]) else []
        b=sorted(os.listdir(dirs[1])) if os.path.isdir(dirs[1]) else []
        same = a==b and len(a)>0 and all(filecmp.cmp(os.path.join(dirs[0],x),os.path.join(dirs[1],x),shallow=False) for x in a)
        res['%s/%s'%(pid,name)]={'runs':len(a),'identical':same}
        print('%s/%s runs=%d identical=%s'%(pid,name,len(a),same),flush=True)
        if not same: bad+=1
        for d in dirs: shutil.rmtree(d,ignore_errors=True)
json.dump({'runs_per_campaign':N,'gomaxprocs':[1,16],'campaigns':res,'nondeterministic':bad},open('evidence/determinism.json','w'),indent=1)
sys.exit(1 if bad else 0)
PY
