#!/usr/bin/env python3
"""record_seed.py <tag> <detected:yes|no> <check cmd> <verdict text>: merge my confirmation into seeded/<tag>/meta.json"""
import json, sys, os
tag, det, cmd, verdict = sys.argv[1:5]
p = '/verif/seeded/%s/meta.json' % tag
m = json.load(open(p))
m['confirmed'] = {
  'how': 'tools/confirm_seed.sh %s <scratch worktree>: demo fails with the patch, passes without it; existing tests of the touched packages pass with the patch' % tag,
  'result': 'CONFIRMED'}
m['check_run'] = {'applied_to': '/repo (git apply, undone afterwards)', 'cmd': cmd, 'detected': det == 'yes', 'verdict': verdict}
json.dump(m, open(p, 'w'), indent=1)
