#!/bin/bash
# tools/process_seed.sh <tag> <prop>: confirm a sub-agent's seeded change in its worktree (/tmp/wt-<tag>), store it under
# seeded/<tag>/, run the property's quick check against it (scratch copy), record the result, remove the worktree.
tag=$1; prop=$2; wt=/tmp/wt-$tag; out=/tmp/seeded-out/$tag
cd /verif
res=$(tools/confirm_seed.sh $tag $wt 2>&1); echo "$res" | tail -4
if ! echo "$res" | grep -q "^CONFIRMED"; then echo "NOT CONFIRMED: $tag"; exit 1; fi
mkdir -p seeded/$tag
cp $out/patch.diff $out/meta.json seeded/$tag/; for f in $out/*; do case $(basename $f) in PROMPT.txt|x.diff|patch.diff|meta.json) ;; *) cp $f seeded/$tag/;; esac; done
m=$(tools/mutant.sh seeded/$tag/patch.diff $prop quick 2>&1); echo "$m" | tail -3 | cut -c1-300
if echo "$m" | grep -q "^KILLED"; then
  v=$(echo "$m" | grep -m1 "violation check" | sed 's/^ *//' | cut -c1-260)
  tools/record_seed.py $tag yes "tools/mutant.sh seeded/$tag/patch.diff $prop quick" "$v" > /dev/null
else
  tools/record_seed.py $tag no "tools/mutant.sh seeded/$tag/patch.diff $prop quick" "not detected by the quick tier: $(echo "$m" | tail -1)" > /dev/null
fi
git -C /repo worktree remove --force $wt && rm -f /tmp/$tag.*.log /tmp/$tag.patch; rm -rf /tmp/$tag.hold
