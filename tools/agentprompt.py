#!/usr/bin/env python3
import json, sys
pid, wt, tag = sys.argv[1], sys.argv[2], sys.argv[3]
p = next(json.loads(l) for l in open('/verif/properties.jsonl') if json.loads(l)['id'] == pid)
print(f"""You are helping to evaluate a verification effort by playing the role of a developer who accidentally introduces a subtle regression.

Repository: scionproto/scion (Go), checked out as a scratch git worktree at {wt}. Work ONLY inside {wt} and /tmp/seeded-out/{tag}. Never touch /repo or /verif (do not even read /verif). Do not commit anything.

Shell setup for every command (env does not persist between calls): `export GOFLAGS=-mod=mod GOPROXY=off` (do NOT set GOSUMDB or GOTOOLCHAIN). There is no network. The first build of packages that use sqlite (cgo) can take ~2 minutes.

The semantic property that must hold for this code base:

  Title: {p['title']}
  Statement: {p['statement']}
  Quantified over: {p['quantifier']['text']}
  Relevant files: {', '.join(p['anchors']['files'])}

Your task: produce ONE realistic change to the non-test source code in {wt} (a plausible refactoring slip, optimisation, off-by-one, missed case, wrong ordering, dropped wake-up/lock/check - something a maintainer could plausibly merge) that BREAKS this property, such that:
  1. the repository still compiles (`go build ./...` in {wt}, and `go vet` of the touched packages),
  2. the EXISTING tests of every package you touched, and of packages that directly depend on the changed behaviour, still pass unedited (`go test -count=1 ./path/...`); you must not edit or delete existing tests,
  3. the breakage needs something SPECIFIC to manifest: a particular interleaving, a crash or fault at a particular point, a multi-step sequence of operations, an unusual input or configuration, or two cooperating sites that each look fine alone. It must NOT be something ordinary use or a trivial smoke test would expose at once. Do not change files guarded by the build tag `verif` (hooks_verif.go, export_verif.go, *_noverif.go) and do not remove hook calls such as simYield(...)/verifYield(...).
  4. you provide a demonstration: a NEW test file (or small program) that FAILS with your change and PASSES on the unchanged code. Verify both directions yourself with `git diff > /tmp/seeded-out/{tag}/x.diff; git apply -R /tmp/seeded-out/{tag}/x.diff; ...; git apply /tmp/seeded-out/{tag}/x.diff`. NEVER use `git stash` (the stash is shared between all worktrees of the repository and other people work in sibling worktrees concurrently). The machine is heavily loaded: wall-clock-sensitive existing tests (router TestDataPlaneRun, epic_*, bfd) may flake with and without your change; re-run them with `-parallel 2` before concluding.

Deliverables, written to /tmp/seeded-out/{tag}/ :
  - patch.diff   : `git diff` of the source change ONLY (not including the demonstration file), applicable with `git apply` at the worktree's HEAD
  - the demonstration test file(s) (copy of them) plus demo.txt saying where in the tree it must be placed and the exact command to run it
  - meta.json    : {{"property": "{pid}", "summary": "...", "needs_to_manifest": "...", "files_changed": [...], "existing_tests_run": ["go test ..."], "demo_cmd": "...", "demo_fails_with_patch": true, "demo_passes_without_patch": true}}
Leave the worktree with your patch applied and the demo file in place. In your final answer give a 5-line summary (what you changed, why it breaks the property, what it needs to manifest).""")
