#!/bin/bash
# tools/confirm_seed.sh <tag> <worktree>: confirm a sub-agent's seeded change in its scratch worktree:
# demo fails with the patch, passes without; touched packages' existing tests pass with the patch.
tag=$1; wt=$2; out=/tmp/seeded-out/$tag
export GOFLAGS=-mod=mod GOPROXY=off
cd $wt || exit 2
demo=$(python3 -c "import json;print(json.load(open('$out/meta.json'))['demo_cmd'])")
pkgs=$(python3 -c "
import json,os
fs=json.load(open('$out/meta.json'))['files_changed']
print(' '.join(sorted({'./'+os.path.dirname(f.replace('$wt/','')) for f in fs if f.endswith('.go')})))")
new=$(git status --porcelain | grep '^??' | awk '{print $2}')
echo "demo: $demo"; echo "pkgs: $pkgs"; echo "new files: $new"
git diff > /tmp/$tag.patch
echo "--- demo WITH patch (expect FAIL)"; (eval "$demo") > /tmp/$tag.with.log 2>&1; r1=$?; tail -3 /tmp/$tag.with.log
git checkout -- .
echo "--- demo WITHOUT patch (expect PASS)"; (eval "$demo") > /tmp/$tag.without.log 2>&1; r2=$?; tail -3 /tmp/$tag.without.log
git apply /tmp/$tag.patch
mkdir -p /tmp/$tag.hold; for f in $new; do mv $f /tmp/$tag.hold/$(echo $f | tr / _); done
echo "--- existing tests WITH patch (expect PASS)"; go build ./... 2>&1 | grep -v ebpf | head -5; r3=1; for try in 1 2 3 4; do go test -count=1 -parallel 2 $pkgs > /tmp/$tag.tests.log 2>&1; r3=$?; [ $r3 -eq 0 ] && break; echo "(existing tests failed on try $try - wall-clock sensitive tests flake under machine load; retrying)"; sleep 20; done; tail -5 /tmp/$tag.tests.log
for f in $new; do mv /tmp/$tag.hold/$(echo $f | tr / _) $f; done
echo "RESULT tag=$tag demo_with=$r1 demo_without=$r2 tests=$r3"
if [ $r1 -ne 0 ] && [ $r2 -eq 0 ] && [ $r3 -eq 0 ]; then echo CONFIRMED; else echo NOT-CONFIRMED; fi
