#!/usr/bin/env python3
"""Writes /verif/SEEDED.md (full table of the independently produced breaking changes and which check caught them)
and prints a compact table for DESIGN.md."""
import json, glob, os, re
ROOT = os.path.dirname(os.path.dirname(os.path.abspath(__file__)))
rows = []
for d in sorted(glob.glob(ROOT + '/seeded/*')):
    m = json.load(open(d + '/meta.json'))
    tag = os.path.basename(d)
    cr = m.get('check_run', {})
    det = cr.get('detected')
    v = (cr.get('verdict') or '').replace('|', '/').replace('\n', ' ')
    rows.append(dict(tag=tag, prop=m['property'], files=', '.join(m.get('files_changed', [])),
                     summ=m.get('summary', '').replace('|', '/').replace('\n', ' '),
                     need=m.get('needs_to_manifest', '').replace('|', '/').replace('\n', ' '),
                     det='yes' if det else ('no' if det is False else 'not run'), v=v, cmd=cr.get('cmd', '')))
with open(ROOT + '/SEEDED.md', 'w') as f:
    f.write("# Independently produced breaking changes (seeded/) and the checks that catch them\n\n"
            "Each change was written by a fresh sub-agent that saw only the property text and a scratch worktree, was confirmed\n"
            "(demo fails with it, passes without it, the existing tests of the touched packages pass with it) and then run\n"
            "against the property's check with `tools/mutant.sh seeded/<tag>/patch.diff <property> quick` (scratch copy of /repo).\n\n")
    for r in rows:
        f.write("## %s (%s) - caught: %s\n\n* files: %s\n* change: %s\n* needs: %s\n* check: %s\n\n" %
                (r['tag'], r['prop'], r['det'], r['files'], r['summ'], r['need'], r['v']))
print("| change | code site | caught | check id / remark |")
print("|---|---|---|---|")
for r in rows:
    site = ', '.join(sorted({os.path.basename(x) for x in r['files'].split(', ')}))
    cid = re.search(r'check=([a-z0-9\-]+)', r['v'])
    rem = cid.group(1) if cid else r['v'][:80]
    if 'missed' in r['v'][:40]:
        rem += ' (missed by the first version of the campaign; workload strengthened, see seeded/%s/meta.json)' % r['tag']
    print("| %s | %s | %s | %s |" % (r['tag'], site, r['det'], rem))
