#!/bin/bash
# tools/mutant.sh <patch> <property> [tier]: apply a breaking change to /repo, run the check, undo it.
# Prints the verdict line; exit 0 if the check reported a violation (mutant killed), 1 if it survived.
set -u
patch=$(realpath "$1"); prop=$2; tier=${3:-quick}
cd /repo || exit 2
if ! git diff --quiet; then echo "/repo has uncommitted changes"; exit 2; fi
git apply "$patch" || { echo "patch does not apply"; exit 2; }
cd /verif && out=$(./check "$prop" "$tier" 2>&1); rc=$?
git -C /repo checkout -- . 
echo "$out" | grep -E "^(VIOLATION|property=|INFRA|  violation|KNOWN)" | cut -c1-300 | head -8
if [ $rc -eq 1 ]; then echo "KILLED $patch by $prop/$tier"; exit 0; fi
echo "SURVIVED(rc=$rc) $patch vs $prop/$tier"; exit 1
