#!/bin/bash
# tools/mutant.sh <patch> <property> [tier]: apply a breaking change to a SCRATCH COPY of /repo (never /repo
# itself), point the check at the copy (VERIF_REPO), report whether the check caught it, clean up.
# Scratch copies live in fixed slots /tmp/verif-mut/slot<k>/repo (fixed paths keep the Go build cache warm);
# a slot is held with flock, so several sensitivity runs can go on side by side.
# exit 0 if the check reported a violation (mutant killed), 1 if it survived, 2 on trouble.
set -u
patch=$(realpath "$1"); prop=$2; tier=${3:-quick}
base=/tmp/verif-mut; mkdir -p $base
for k in 0 1 2 3 4 5; do
  exec 9>$base/slot$k.lock
  if flock -n 9; then slot=$base/slot$k; break; fi
done
[ -z "${slot:-}" ] && { exec 9>$base/slot0.lock; flock 9; slot=$base/slot0; }
mkdir -p $slot/repo
rsync -a --delete --exclude .git /repo/ $slot/repo/ || exit 2
( cd $slot/repo && patch -p1 -s --no-backup-if-mismatch < "$patch" ) || { echo "patch does not apply"; exit 2; }
cd /verif && out=$(VERIF_REPO=$slot/repo VERIF_JOBS=${VERIF_JOBS:-8} ./check "$prop" "$tier" 2>&1); rc=$?
echo "$out" | grep -E "^(VIOLATION|property=|INFRA|  violation|KNOWN)" | cut -c1-300 | head -8
rsync -a --delete --exclude .git /repo/ $slot/repo/
if [ $rc -eq 1 ]; then echo "KILLED $patch by $prop/$tier"; exit 0; fi
echo "SURVIVED(rc=$rc) $patch vs $prop/$tier"; exit 1
