#!/usr/bin/env python3
"""Regenerates the table of independently produced breaking changes inside DESIGN.md (section 12 a) and SEEDED.md."""
import os, subprocess, re
ROOT = os.path.dirname(os.path.dirname(os.path.abspath(__file__)))
table = subprocess.run([os.path.join(ROOT, 'tools', 'genseeded.py')], capture_output=True, text=True, check=True).stdout
p = os.path.join(ROOT, 'DESIGN.md')
s = open(p).read()
start = s.index('| change | code site | caught | check id / remark |')
end = s.index('**(b) Hand-made mutants**')
s = s[:start] + table + '\n' + s[end:]
open(p, 'w').write(s)
n = table.count('\n') - 2
print("DESIGN.md: %d seeded changes listed" % n)
