#!/bin/bash
cd /verif
for t in "$@"; do
  prop=${t%-*}
  m=$(tools/mutant.sh seeded/$t/patch.diff $prop quick 2>&1)
  echo "== $t: $(echo "$m" | tail -1)"
  if echo "$m" | grep -q "^KILLED"; then
    v=$(echo "$m" | grep -m1 "violation check" | sed 's/^ *//' | cut -c1-260)
    tools/record_seed.py $t yes "tools/mutant.sh seeded/$t/patch.diff $prop quick" "$v" > /dev/null
  else
    tools/record_seed.py $t no "tools/mutant.sh seeded/$t/patch.diff $prop quick" "not detected by the quick tier: $(echo "$m" | tail -1)" > /dev/null
  fi
done
