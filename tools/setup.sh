#!/bin/bash
# Builds the worker binary of every engine the manifest claims, from files on disk only (warms the Go build cache).
set -e
cd "$(dirname "$0")/.."
export GOFLAGS=-mod=mod GOPROXY=off CGO_ENABLED=1
unset GOSUMDB GOTOOLCHAIN
mkdir -p .build evidence replays
for n in $(python3 -c "import json;print(' '.join(e['name'] for e in json.load(open('MANIFEST.json'))['engines']))"); do
  go test -c -tags verif -vet=off -o ".build/$n.test" "./engines/$n/"
done
echo "setup ok"
