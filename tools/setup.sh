#!/bin/bash
# Builds every engine's worker binary from files on disk only (warms the Go build cache).
set -e
cd "$(dirname "$0")/.."
export GOFLAGS=-mod=mod GOPROXY=off CGO_ENABLED=1
unset GOSUMDB GOTOOLCHAIN
mkdir -p .build evidence replays
for e in engines/*/; do
  n=$(basename "$e")
  go test -c -tags verif -vet=off -o ".build/$n.test" "./engines/$n/"
done
echo "setup ok"
