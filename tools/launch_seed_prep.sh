#!/bin/bash
# tools/launch_seed_prep.sh <prop> <suffix>: create worktree /tmp/wt-<prop>-<suffix> and prompt file; prints the tag
p=$1; s=$2; tag=$p-$s
git -C /repo worktree add --detach /tmp/wt-$tag HEAD >/dev/null 2>&1 || { echo "worktree failed $tag"; exit 1; }
mkdir -p /tmp/seeded-out/$tag
python3 /verif/tools/agentprompt.py $p /tmp/wt-$tag $tag > /tmp/seeded-out/$tag/PROMPT.txt
python3 - "$p" "$tag" <<'PY'
import json,glob,sys,os
p,tag=sys.argv[1],sys.argv[2]
prev=[]
for d in sorted(glob.glob('/verif/seeded/%s-*'%p)):
    try:
        m=json.load(open(d+'/meta.json')); prev.append('- '+m.get('summary','')[:400].replace('\n',' '))
    except Exception: pass
if prev:
    open('/tmp/seeded-out/%s/PROMPT.txt'%tag,'a').write("\n\nEarlier rounds already produced the following changes for this property; produce something DIFFERENT (another code site or another mechanism), ideally one that needs a specific interleaving, fault, timing or multi-step history to show:\n"+"\n".join(prev)+"\n")
PY
echo $tag
