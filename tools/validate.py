#!/opt/veriftools/pyvenv/bin/python
import json, jsonschema, glob, sys, os
ROOT = os.path.dirname(os.path.dirname(os.path.abspath(__file__)))
jsonschema.validate(json.load(open(ROOT + '/MANIFEST.json')), json.load(open('/root/.vp/MANIFEST.schema.json')))
es = json.load(open('/root/.vp/EVIDENCE.schema.json'))
n = 0
for f in sorted(glob.glob(ROOT + '/evidence/C*.json')):
    jsonschema.validate(json.load(open(f)), es); n += 1
print("MANIFEST valid; %d evidence files valid" % n)
