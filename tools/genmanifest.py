#!/usr/bin/env python3
"""Regenerates /verif/MANIFEST.json from props.json (checks) and na.json (not applicable / not claimed)."""
import json, os, subprocess
ROOT = os.path.dirname(os.path.dirname(os.path.abspath(__file__)))
props = json.load(open(os.path.join(ROOT, "props.json")))
import glob
_enabled = open(os.path.join(ROOT, "props.d", "ENABLED")).read().split()
for _p in sorted(glob.glob(os.path.join(ROOT, "props.d", "*.json"))):
    if os.path.basename(_p)[:-5] not in _enabled:
        continue  # fragment of an engine that is still being built: runnable with ./check, not claimed
    _f = json.load(open(_p))
    props["properties"].update(_f.get("properties", {}))
    props.setdefault("engines", {}).update(_f.get("engines", {}))
na = json.load(open(os.path.join(ROOT, "na.json")))
ids = [json.loads(l)["id"] for l in open(os.path.join(ROOT, "properties.jsonl"))]
hooks = json.load(open(os.path.join(ROOT, "hooks.json")))
checks = []
engines = {}
for pid in ids:
    c = props["properties"].get(pid)
    if not c or c.get("disabled"):
        continue
    engines.setdefault(c["engine"], []).append(pid)
    chk = {
        "property_id": pid,
        "quick_cmd": "./check %s quick" % pid,
        "thorough_cmd": "./check %s thorough" % pid,
        "evidence_file": "evidence/%s.json" % pid,
        "replay_cmd_template": "./check %s --replay {path}" % pid,
        "engine": c["engine"],
        "level_claimed": {"category": c.get("level", "exploration"), "text": c["level_text"], "design_ref": c.get("design_ref", "DESIGN.md section 5 (%s)" % pid)},
        "level_note": c["level_note"],
        "technique": c.get("technique", "deterministic simulation with fault injection: seeded search over schedules and fault sequences"),
    }
    checks.append(chk)
claimed = {c["property_id"] for c in checks}
nalist = []
for pid in ids:
    if pid in claimed:
        continue
    if pid not in na:
        raise SystemExit("property %s neither claimed nor in na.json" % pid)
    nalist.append({"property_id": pid, "reason": na[pid]})
m = {
    "version": 1,
    "setup_cmd": "./tools/setup.sh",
    "hooks": hooks,
    "engines": [{"name": e, "path": "engines/%s" % e, "serves_properties": ps,
                 "kind_free_text": props.get("engines", {}).get(e, "")} for e, ps in sorted(engines.items())],
    "checks": checks,
    "not_applicable": nalist,
    "notes": "Deterministic simulation with fault injection. One integer (VERIF_SEED) decides every run; ./check <id> quick|thorough; violations are reported with a minimised replay file under replays/. See DESIGN.md.",
}
json.dump(m, open(os.path.join(ROOT, "MANIFEST.json"), "w"), indent=1)
print("MANIFEST.json: %d checks, %d not claimed" % (len(checks), len(nalist)))
