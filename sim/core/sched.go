package core

import (
	"runtime"
	"sort"
	"sync"
	"testing/synctest"
)

// Sched is the yield-point scheduler: real goroutines park at intercepted synchronisation points
// (each on its private grant channel, no lock held) and are released one at a time; which one is
// a tape decision. Must be used inside a synctest bubble.
type Sched struct {
	mu     sync.Mutex
	byGoid map[uint64]*Actor
	actors map[string]*Actor
	Steps  int
}

// Actor is one simulated goroutine.
type Actor struct {
	Name   string
	Site   string
	grant  chan struct{}
	parked bool
	done   bool
	Data   any
}

// NewSched creates a scheduler.
func NewSched() *Sched {
	return &Sched{byGoid: map[uint64]*Actor{}, actors: map[string]*Actor{}}
}

func goid() uint64 {
	var buf [40]byte
	n := runtime.Stack(buf[:], false)
	// "goroutine 123 ["
	var id uint64
	for i := 10; i < n; i++ {
		c := buf[i]
		if c < '0' || c > '9' {
			break
		}
		id = id*10 + uint64(c-'0')
	}
	return id
}

// Register names the calling goroutine. Names must be stable across runs (never goroutine ids).
func (s *Sched) Register(name string) *Actor {
	a := &Actor{Name: name, grant: make(chan struct{})}
	s.mu.Lock()
	if _, dup := s.actors[name]; dup {
		s.mu.Unlock()
		panic(InfraError{"duplicate actor " + name})
	}
	s.byGoid[goid()] = a
	s.actors[name] = a
	s.mu.Unlock()
	return a
}

// Current returns the actor of the calling goroutine, or nil.
func (s *Sched) Current() *Actor {
	g := goid()
	s.mu.Lock()
	a := s.byGoid[g]
	s.mu.Unlock()
	return a
}

// Yield parks the calling goroutine until the scheduler grants it. Unregistered goroutines
// pass through.
func (s *Sched) Yield(site string) {
	g := goid()
	s.mu.Lock()
	a := s.byGoid[g]
	if a == nil {
		s.mu.Unlock()
		return
	}
	a.Site = site
	a.parked = true
	s.mu.Unlock()
	<-a.grant
}

// Done unregisters the calling goroutine.
func (s *Sched) Done() {
	g := goid()
	s.mu.Lock()
	if a := s.byGoid[g]; a != nil {
		a.done = true
		delete(s.byGoid, g)
	}
	s.mu.Unlock()
}

// Parked waits for quiescence and returns the parked actors sorted by name.
func (s *Sched) Parked() []*Actor {
	synctest.Wait()
	s.mu.Lock()
	defer s.mu.Unlock()
	var out []*Actor
	for _, a := range s.actors {
		if a.parked && !a.done {
			out = append(out, a)
		}
	}
	sort.Slice(out, func(i, j int) bool { return out[i].Name < out[j].Name })
	return out
}

// Blocked returns (after quiescence) the registered actors that are neither parked nor done,
// i.e. blocked inside the code under test. Sorted by name.
func (s *Sched) Blocked() []*Actor {
	synctest.Wait()
	s.mu.Lock()
	defer s.mu.Unlock()
	var out []*Actor
	for _, a := range s.actors {
		if !a.parked && !a.done {
			out = append(out, a)
		}
	}
	sort.Slice(out, func(i, j int) bool { return out[i].Name < out[j].Name })
	return out
}

// Grant releases one parked actor.
func (s *Sched) Grant(a *Actor) {
	s.mu.Lock()
	a.parked = false
	s.mu.Unlock()
	s.Steps++
	a.grant <- struct{}{}
}

// Step lets the tape pick one parked actor and grants it. Returns nil if none is parked.
func (s *Sched) Step(r *Run, filter func(*Actor) bool) *Actor {
	ps := s.Parked()
	if filter != nil {
		var fs []*Actor
		for _, a := range ps {
			if filter(a) {
				fs = append(fs, a)
			}
		}
		ps = fs
	}
	if len(ps) == 0 {
		return nil
	}
	a := ps[r.Choice("sched", len(ps))]
	r.Logf("grant %s@%s", a.Name, a.Site)
	s.Grant(a)
	return a
}
