package core

import (
	"fmt"
	"runtime/debug"
	"sort"
	"strings"
	"testing"
	"testing/synctest"
	"time"
)

// Violation is the first oracle failure of a run.
type Violation struct {
	Check string `json:"check"` // oracle check id; (property, check) is the violation class
	Msg   string `json:"msg"`
	Sig   string `json:"signature"` // stable signature used to match known findings
}

// Run is the context of one simulated run.
type Run struct {
	Prop     string
	Campaign string
	Tape     *Tape
	T        *testing.T

	Log     []string
	logHash uint64
	KeepLog bool

	Faults map[string]int // fault kinds that actually fired
	Probes map[string]int // "rare condition reached" probes
	Cover  map[string]struct{}
	Events int
	SimNS  int64
	// Nontrivial is set by the engine when the run made real progress (its own stated rule).
	Nontrivial bool
	// Ambiguous is set when the run hit a source of uncontrolled nondeterminism; it is discarded.
	Ambiguous bool
	Sample    any

	Viol *Violation
	// KnownSet holds the signatures listed in known_findings.json for this property (passed by
	// the runner); KnownHit the ones that manifested in this run.
	KnownSet map[string]bool
	KnownHit map[string]int
	// Known collects signatures of known findings that manifested (run continues).
	start time.Time
}

// NewRun creates a run context.
func NewRun(t *testing.T, prop, campaign string, tape *Tape) *Run {
	return &Run{Prop: prop, Campaign: campaign, Tape: tape, T: t, Faults: map[string]int{},
		Probes: map[string]int{}, Cover: map[string]struct{}{}, logHash: 14695981039346656037}
}

// Logf appends to the event log. It never draws from the tape and never reads a real clock.
func (r *Run) Logf(format string, args ...any) {
	s := fmt.Sprintf(format, args...)
	r.logHash = MixS(r.logHash, s)
	r.Events++
	if r.KeepLog || len(r.Log) < 4000 {
		r.Log = append(r.Log, s)
	}
}

// LogHash is the hash over the whole event log.
func (r *Run) LogHash() uint64 { return r.logHash }

// Fault counts a fault kind that fired.
func (r *Run) Fault(kind string) { r.Faults[kind]++ }

// Probe counts a rare condition that was reached.
func (r *Run) Probe(name string) { r.Probes[name]++ }

// Covered records a coverage tuple (distinct-state measure).
func (r *Run) Covered(key string) { r.Cover[key] = struct{}{} }

// Fail records the first violation of the run.
func (r *Run) Fail(check, sig, format string, args ...any) {
	if r.Viol != nil {
		return
	}
	msg := fmt.Sprintf(format, args...)
	r.Viol = &Violation{Check: check, Msg: msg, Sig: sig}
	r.Logf("VIOLATION %s: %s", check, msg)
}

// IsKnown tells whether the signature is a listed known finding.
func (r *Run) IsKnown(sig string) bool { return r.KnownSet[sig] }

// NoteKnown records that a listed known finding manifested; the run goes on.
func (r *Run) NoteKnown(sig string) {
	if r.KnownHit == nil {
		r.KnownHit = map[string]int{}
	}
	r.KnownHit[sig]++
	r.Logf("KNOWN-FINDING %s", sig)
}

// Failed tells whether a violation was recorded.
func (r *Run) Failed() bool { return r.Viol != nil }

// Choice etc. are shorthands.
func (r *Run) Choice(label string, n int) int          { return r.Tape.Choice(label, n) }
func (r *Run) Chance(label string, num, den int) bool  { return r.Tape.Chance(label, num, den) }
func (r *Run) Range(label string, lo, hi int) int      { return r.Tape.Range(label, lo, hi) }
func (r *Run) FaultChance(kind string, num, den int) bool {
	if r.Tape.Chance("fault."+kind, num, den) {
		r.Fault(kind)
		return true
	}
	return false
}

// PanicPolicy tells how a panic in repository code inside the simulator goroutine is judged.
type PanicPolicy int

const (
	// PanicIsInfra: the property does not speak about panics; a panic is a harness error.
	PanicIsInfra PanicPolicy = iota
	// PanicIsViolation: the property forbids panics.
	PanicIsViolation
)

// InfraError is panicked (or returned) for harness trouble; never a violation.
type InfraError struct{ Msg string }

func (e InfraError) Error() string { return "infra: " + e.Msg }

// Guard runs f, converting panics according to the policy.
func (r *Run) Guard(policy PanicPolicy, what string, f func()) (panicked bool) {
	defer func() {
		if x := recover(); x != nil {
			if ie, ok := x.(InfraError); ok {
				panic(ie)
			}
			if _, ok := x.(ErrTapeExhausted); ok {
				panic(x)
			}
			panicked = true
			st := string(debug.Stack())
			if policy == PanicIsViolation {
				r.Fail("no-panic", "panic:"+what+":"+panicSite(st), "panic in %s: %v\n%s", what, x, trimStack(st))
				return
			}
			panic(InfraError{fmt.Sprintf("panic in %s: %v\n%s", what, x, st)})
		}
	}()
	f()
	return false
}

// PanicSite returns the innermost repository frame of a panic stack.
func PanicSite(st string) string { return panicSite(st) }

func panicSite(st string) string {
	// innermost frame under scionproto/scion
	lines := strings.Split(st, "\n")
	seenPanic := false
	for _, l := range lines {
		if strings.HasPrefix(l, "panic(") {
			seenPanic = true
			continue
		}
		if seenPanic && strings.HasPrefix(l, "github.com/scionproto/scion/") {
			if i := strings.LastIndex(l, "("); i > 0 {
				l = l[:i]
			}
			return strings.TrimPrefix(l, "github.com/scionproto/scion/")
		}
	}
	return "unknown"
}

func trimStack(st string) string {
	lines := strings.Split(st, "\n")
	if len(lines) > 40 {
		lines = lines[:40]
	}
	return strings.Join(lines, "\n")
}

// Bubble runs f inside a synctest bubble (fake clock, quiescence detection). The end-of-bubble
// deadlock panic (goroutines still blocked when f returns) is tolerated only when the run has
// already recorded a violation (the blocked goroutines are then the symptom); otherwise it is a
// harness error.
func Bubble(r *Run, f func(t *testing.T)) {
	var captured any
	defer func() {
		x := recover()
		if captured != nil {
			panic(captured) // re-raised in the caller's goroutine, where Execute classifies it
		}
		if x != nil {
			if s := fmt.Sprint(x); strings.Contains(s, "deadlock: main bubble goroutine has exited") {
				if r.Viol != nil {
					return
				}
				panic(InfraError{"bubble ended with blocked goroutines: " + s})
			}
			panic(x)
		}
	}()
	synctest.Test(r.T, func(t *testing.T) {
		defer func() {
			if x := recover(); x != nil {
				if _, ok := x.(InfraError); !ok {
					if _, ok := x.(ErrTapeExhausted); !ok {
						x = InfraError{fmt.Sprintf("panic in simulator goroutine: %v\n%s", x, debug.Stack())}
					}
				}
				captured = x
			}
		}()
		f(t)
	})
}

// SortedKeys returns the sorted keys of a string-keyed map (never iterate maps in decision paths).
func SortedKeys[V any](m map[string]V) []string {
	ks := make([]string, 0, len(m))
	for k := range m {
		ks = append(ks, k)
	}
	sort.Strings(ks)
	return ks
}
