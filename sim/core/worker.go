package core

import (
	"encoding/json"
	"fmt"
	"os"
	"path/filepath"
	"strconv"
	"strings"
	"testing"
	"testing/cryptotest"
	"time"
)

// RunFunc executes one complete simulated run.
type RunFunc func(r *Run)

// Engine is a set of campaigns keyed "<property>/<campaign>".
type Engine struct {
	Name      string
	Campaigns map[string]RunFunc
}

// RunRecord is the per-run line of the worker output.
type RunRecord struct {
	Start  *int              `json:"start,omitempty"`
	I      int               `json:"i"`
	Seed   uint64            `json:"seed,omitempty"`
	TH     string            `json:"th,omitempty"`
	LH     string            `json:"lh,omitempty"`
	Ev     int               `json:"ev,omitempty"`
	NS     int64             `json:"ns,omitempty"`
	Dec    int               `json:"dec,omitempty"`
	NT     bool              `json:"nt,omitempty"`
	Amb    bool              `json:"amb,omitempty"`
	F      map[string]int    `json:"f,omitempty"`
	P      map[string]int    `json:"p,omitempty"`
	C      []string          `json:"c,omitempty"`
	K      map[string]int    `json:"k,omitempty"`
	Sample any               `json:"sample,omitempty"`
	Viol   *Violation        `json:"viol,omitempty"`
	Replay string            `json:"replay,omitempty"`
	Infra  string            `json:"infra,omitempty"`
	MinLen int               `json:"minlen,omitempty"`
	Extra  map[string]string `json:"extra,omitempty"`
}

// ReplayFile is what a violation is reported as.
type ReplayFile struct {
	Property  string     `json:"property"`
	Engine    string     `json:"engine"`
	Campaign  string     `json:"campaign"`
	VerifSeed uint64     `json:"verif_seed"`
	Run       int        `json:"run"`
	RunSeed   uint64     `json:"run_seed"`
	Tape      []uint64   `json:"tape"`
	Check     string     `json:"check"`
	Signature string     `json:"signature"`
	Msg       string     `json:"msg"`
	LogHash   string     `json:"log_hash"`
	Trace     []string   `json:"trace"`
	Log       []string   `json:"log"`
	Faults    map[string]int `json:"faults"`
	OrigLen   int        `json:"orig_tape_len"`
	MinExecs  int        `json:"minimise_executions"`
	Crash     bool       `json:"crash,omitempty"` // process-killing panic: replay = re-run this (seed, run)
}

func envInt(name string, def int) int {
	if s := os.Getenv(name); s != "" {
		v, err := strconv.Atoi(s)
		if err != nil {
			panic(fmt.Sprintf("bad %s=%q", name, s))
		}
		return v
	}
	return def
}

func envU64(name string, def uint64) uint64 {
	if s := os.Getenv(name); s != "" {
		v, err := strconv.ParseUint(s, 10, 64)
		if err != nil {
			// allow negative / large ints
			w, err2 := strconv.ParseInt(s, 10, 64)
			if err2 != nil {
				panic(fmt.Sprintf("bad %s=%q", name, s))
			}
			return uint64(w)
		}
		return v
	}
	return def
}

// RunSeed derives the seed of run i.
func RunSeed(verifSeed uint64, prop, campaign string, i int) uint64 {
	return Mix(MixS(verifSeed, prop+"/"+campaign), uint64(i))
}

// Execute performs one run with the given tape. Harness trouble is returned as infra string.
func Execute(t *testing.T, prop, campaign string, f RunFunc, tape *Tape, keepLog bool) (r *Run, infra string) {
	r = NewRun(t, prop, campaign, tape)
	r.KnownSet = knownSet()
	r.KeepLog = keepLog
	t.Run("r", func(st *testing.T) {
		r.T = st
		cryptotest.SetGlobalRandom(st, tape.Seed)
		defer func() {
			if x := recover(); x != nil {
				switch e := x.(type) {
				case InfraError:
					infra = e.Msg
				case ErrTapeExhausted:
					infra = "tape exhausted (runaway run)"
				default:
					infra = fmt.Sprintf("panic in harness: %v", x)
				}
			}
		}()
		f(r)
	})
	return r, infra
}

var knownOnce map[string]bool

// knownSet parses VERIF_KNOWN: signatures separated by '|'.
func knownSet() map[string]bool {
	if knownOnce == nil {
		knownOnce = map[string]bool{}
		for _, k := range strings.Split(os.Getenv("VERIF_KNOWN"), "|") {
			if k != "" {
				knownOnce[k] = true
			}
		}
	}
	return knownOnce
}

func h64(v uint64) string { return strconv.FormatUint(v, 16) }

// Main is the entry point of an engine's worker test.
func Main(t *testing.T, eng Engine) {
	prop := os.Getenv("VERIF_PROP")
	camp := os.Getenv("VERIF_CAMPAIGN")
	if prop == "" {
		t.Skip("VERIF_PROP not set; this test is the simulation worker and is driven by /verif/check")
	}
	f, ok := eng.Campaigns[prop+"/"+camp]
	if !ok {
		t.Fatalf("engine %s has no campaign %s/%s", eng.Name, prop, camp)
	}
	vseed := envU64("VERIF_SEED", 1)
	outPath := os.Getenv("VERIF_OUT")
	var out *os.File
	if outPath != "" {
		var err error
		out, err = os.OpenFile(outPath, os.O_CREATE|os.O_WRONLY|os.O_APPEND, 0o644)
		if err != nil {
			t.Fatal(err)
		}
		defer out.Close()
	}
	emit := func(rec RunRecord) {
		b, err := json.Marshal(rec)
		if err != nil {
			t.Fatal(err)
		}
		b = append(b, '\n')
		if out != nil {
			out.Write(b)
		} else {
			os.Stdout.Write(b)
		}
	}

	if rp := os.Getenv("VERIF_REPLAY"); rp != "" {
		replayMain(t, eng, rp, emit)
		return
	}

	from := envInt("VERIF_RUN_FROM", 0)
	to := envInt("VERIF_RUN_TO", 1)
	stride := envInt("VERIF_RUN_STRIDE", 1)
	deadline := envInt("VERIF_DEADLINE_S", 0)
	dumpDir := os.Getenv("VERIF_DUMPLOG")
	replayDir := os.Getenv("VERIF_REPLAY_DIR")
	if replayDir == "" {
		replayDir = "replays"
	}
	maxViol := envInt("VERIF_MAX_VIOL", 3)
	start := time.Now() // wall clock: only for the budget, never inside a run
	seenCover := map[string]struct{}{}
	nviol := 0
	for i := from; i < to; i += stride {
		if deadline > 0 && time.Since(start) > time.Duration(deadline)*time.Second {
			break
		}
		ii := i
		emit(RunRecord{Start: &ii, I: i})
		seed := RunSeed(vseed, prop, camp, i)
		r, infra := Execute(t, prop, camp, f, NewTape(seed), dumpDir != "")
		rec := RunRecord{I: i, Seed: seed}
		if infra != "" {
			rec.Infra = infra
			emit(rec)
			continue
		}
		rec.TH, rec.LH, rec.Ev, rec.NS = h64(r.Tape.TraceHash()), h64(r.LogHash()), r.Events, r.SimNS
		rec.Dec = r.Tape.Pos()
		rec.NT, rec.Amb = r.Nontrivial, r.Ambiguous
		rec.F, rec.P, rec.K = r.Faults, r.Probes, r.KnownHit
		for _, k := range SortedKeys(r.Cover) {
			if _, ok := seenCover[k]; !ok {
				seenCover[k] = struct{}{}
				rec.C = append(rec.C, k)
			}
		}
		if i < from+2*stride && r.Sample != nil {
			rec.Sample = r.Sample
		}
		if dumpDir != "" {
			os.MkdirAll(dumpDir, 0o755)
			os.WriteFile(filepath.Join(dumpDir, fmt.Sprintf("%s-%s-%d.log", prop, camp, i)),
				[]byte(strings.Join(r.Log, "\n")+"\n"), 0o644)
		}
		if r.Viol != nil && !r.Ambiguous {
			nviol++
			rf, infra2 := confirmAndMinimise(t, eng, prop, camp, f, vseed, i, seed, r)
			if infra2 != "" {
				rec.Infra = infra2
			} else {
				os.MkdirAll(replayDir, 0o755)
				p := filepath.Join(replayDir, fmt.Sprintf("%s-%s-%d-%d.json", prop, camp, vseed, i))
				b, _ := json.MarshalIndent(rf, "", " ")
				if err := os.WriteFile(p, b, 0o644); err != nil {
					rec.Infra = err.Error()
				}
				rec.Viol = &Violation{Check: rf.Check, Msg: rf.Msg, Sig: rf.Signature}
				rec.Replay = p
				rec.MinLen = len(rf.Tape)
			}
		}
		emit(rec)
		if nviol >= maxViol {
			break
		}
	}
}

func confirmAndMinimise(t *testing.T, eng Engine, prop, camp string, f RunFunc, vseed uint64, i int,
	seed uint64, first *Run) (*ReplayFile, string) {

	class := first.Viol.Check
	vals := first.Tape.Values()
	// confirm with the materialised tape
	r2, infra := Execute(t, prop, camp, f, NewReplayTape(seed, vals), false)
	if infra != "" {
		return nil, "replay of violating run failed: " + infra
	}
	if r2.Viol == nil || r2.Viol.Check != class || r2.LogHash() != first.LogHash() {
		got := "no violation"
		if r2.Viol != nil {
			got = r2.Viol.Check
		}
		return nil, fmt.Sprintf("violation %s (%s) of run %d did not replay identically (got %s, loghash %x vs %x): nondeterminism in harness",
			class, first.Viol.Msg, i, got, r2.LogHash(), first.LogHash())
	}
	execs := 0
	budget := envInt("VERIF_MIN_EXECS", 300)
	wallEnd := time.Now().Add(time.Duration(envInt("VERIF_MIN_SECONDS", 60)) * time.Second)
	same := func(cand []uint64) bool {
		if execs >= budget || time.Now().After(wallEnd) {
			return false
		}
		execs++
		r, infra := Execute(t, prop, camp, f, NewReplayTape(seed, cand), false)
		return infra == "" && r.Viol != nil && r.Viol.Check == class && !r.Ambiguous
	}
	best := Minimise(vals, same)
	final, infra := Execute(t, prop, camp, f, NewReplayTape(seed, best), true)
	if infra != "" || final.Viol == nil || final.Viol.Check != class {
		// fall back to the unminimised tape
		best = vals
		var infra3 string
		final, infra3 = Execute(t, prop, camp, f, NewReplayTape(seed, best), true)
		if infra3 != "" || final.Viol == nil {
			return nil, fmt.Sprintf("violation %s of run %d replayed once but not a second time: state carried between runs of one worker process", class, i)
		}
	}
	// trim trailing zeros (reads past the end are zero anyway)
	for len(best) > 0 && best[len(best)-1] == 0 {
		best = best[:len(best)-1]
	}
	rf := &ReplayFile{Property: prop, Engine: eng.Name, Campaign: camp, VerifSeed: vseed, Run: i,
		RunSeed: seed, Tape: best, Check: class, Signature: final.Viol.Sig, Msg: final.Viol.Msg,
		LogHash: h64(final.LogHash()), Faults: final.Faults, OrigLen: len(vals), MinExecs: execs}
	for _, d := range final.Tape.Rec {
		if len(rf.Trace) >= 400 {
			rf.Trace = append(rf.Trace, "...")
			break
		}
		rf.Trace = append(rf.Trace, d.String())
	}
	lg := final.Log
	if len(lg) > 300 {
		lg = append([]string{"..."}, lg[len(lg)-300:]...)
	}
	rf.Log = lg
	return rf, ""
}

// Minimise shrinks a tape while same() keeps holding (bounded delta debugging).
func Minimise(vals []uint64, same func([]uint64) bool) []uint64 {
	best := append([]uint64(nil), vals...)
	try := func(c []uint64) bool {
		if same(c) {
			best = c
			return true
		}
		return false
	}
	// 1. shortest prefix (zeros after it) by halving
	for n := len(best) / 2; n >= 0 && len(best) > 0; n /= 2 {
		if !try(append([]uint64(nil), best[:n]...)) {
			break
		}
		if n == 0 {
			break
		}
	}
	// 2. delete blocks
	for sz := len(best) / 2; sz >= 1; sz /= 2 {
		for at := 0; at+sz <= len(best); {
			c := append(append([]uint64(nil), best[:at]...), best[at+sz:]...)
			if !try(c) {
				at += sz
			}
		}
		if sz > 8 && len(best) > 2000 {
			// keep budget for the finer phases on very long tapes
			continue
		}
	}
	// 3. zero blocks
	for sz := len(best) / 2; sz >= 1; sz /= 2 {
		for at := 0; at+sz <= len(best); at += sz {
			allZero := true
			for _, v := range best[at : at+sz] {
				if v != 0 {
					allZero = false
					break
				}
			}
			if allZero {
				continue
			}
			c := append([]uint64(nil), best...)
			for k := at; k < at+sz; k++ {
				c[k] = 0
			}
			try(c)
		}
	}
	// 4. lower single values
	for k := 0; k < len(best); k++ {
		for best[k] > 1 {
			c := append([]uint64(nil), best...)
			c[k] = best[k] / 2
			if !try(c) {
				c[k] = best[k] - 1
				if !try(c) {
					break
				}
			}
		}
	}
	return best
}

func replayMain(t *testing.T, eng Engine, path string, emit func(RunRecord)) {
	b, err := os.ReadFile(path)
	if err != nil {
		t.Fatal(err)
	}
	var rf ReplayFile
	if err := json.Unmarshal(b, &rf); err != nil {
		t.Fatal(err)
	}
	f, ok := eng.Campaigns[rf.Property+"/"+rf.Campaign]
	if !ok {
		t.Fatalf("no campaign %s/%s", rf.Property, rf.Campaign)
	}
	var tape *Tape
	if rf.Crash {
		tape = NewTape(rf.RunSeed)
	} else {
		tape = NewReplayTape(rf.RunSeed, rf.Tape)
	}
	ii := rf.Run
	emit(RunRecord{Start: &ii, I: rf.Run})
	r, infra := Execute(t, rf.Property, rf.Campaign, f, tape, true)
	rec := RunRecord{I: rf.Run, Seed: rf.RunSeed, Infra: infra, Extra: map[string]string{}}
	if infra == "" {
		rec.LH = h64(r.LogHash())
		rec.Viol = r.Viol
		switch {
		case r.Viol != nil && r.Viol.Check == rf.Check && rec.LH == rf.LogHash:
			rec.Extra["replay"] = "reproduced-exactly"
		case r.Viol != nil && r.Viol.Check == rf.Check:
			rec.Extra["replay"] = "reproduced-same-class-different-log"
		case r.Viol != nil:
			rec.Extra["replay"] = "different-violation"
		default:
			rec.Extra["replay"] = "not-reproduced"
		}
		if os.Getenv("VERIF_SHOWLOG") != "" {
			for _, l := range r.Log {
				fmt.Println(l)
			}
		}
	}
	emit(rec)
}
