// Package core is the simulator core shared by all engines: one seed decides everything.
//
// Every decision of a simulated run (who runs next, delays, faults, generated operations, sizes)
// is a Choice read from the run's Tape. The tape is lazily splitmix64(seed, position) unless a
// replay supplies explicit values; positions past the end of an explicit tape read as 0, and 0 is
// by convention the boring alternative, so truncating or zeroing a tape simplifies a run.
package core

import "fmt"

// Mix is splitmix64 of (a, b).
func Mix(a, b uint64) uint64 {
	z := a + 0x9e3779b97f4a7c15*(b+1)
	z = (z ^ (z >> 30)) * 0xbf58476d1ce4e5b9
	z = (z ^ (z >> 27)) * 0x94d049bb133111eb
	return z ^ (z >> 31)
}

// MixS folds a string into a seed.
func MixS(a uint64, s string) uint64 {
	h := a
	for i := 0; i < len(s); i++ {
		h = Mix(h, uint64(s[i]))
	}
	return h
}

// Decision is one resolved choice.
type Decision struct {
	Label string
	N     int
	V     int
}

// Tape is the source of all decisions of a run.
type Tape struct {
	Seed     uint64
	Explicit []uint64 // when non-nil, these values are used (mod n); beyond the end: 0
	IsReplay bool
	pos      int
	Rec      []Decision
	limit    int
}

// NewTape returns a lazy tape for the seed.
func NewTape(seed uint64) *Tape { return &Tape{Seed: seed, limit: 1 << 22} }

// NewReplayTape returns a tape reading explicit values.
func NewReplayTape(seed uint64, vals []uint64) *Tape {
	return &Tape{Seed: seed, Explicit: vals, IsReplay: true, limit: 1 << 22}
}

// ErrTapeExhausted is panicked when a run draws an absurd number of decisions (runaway run).
type ErrTapeExhausted struct{}

// Choice returns a value in [0,n). n<=1 returns 0 without consuming the tape.
func (t *Tape) Choice(label string, n int) int {
	if n <= 1 {
		return 0
	}
	var raw uint64
	if t.IsReplay {
		if t.pos < len(t.Explicit) {
			raw = t.Explicit[t.pos]
		}
	} else {
		raw = Mix(t.Seed, uint64(t.pos))
	}
	t.pos++
	if t.pos > t.limit {
		panic(ErrTapeExhausted{})
	}
	v := int(raw % uint64(n))
	t.Rec = append(t.Rec, Decision{label, n, v})
	return v
}

// Chance is true with probability num/den; tape value 0 means false (the boring alternative).
func (t *Tape) Chance(label string, num, den int) bool {
	if num <= 0 {
		return false
	}
	if num >= den {
		return true
	}
	return t.Choice(label, den) >= den-num
}

// Range returns a value in [lo,hi] (inclusive); 0 on the tape is lo.
func (t *Tape) Range(label string, lo, hi int) int {
	if hi <= lo {
		return lo
	}
	return lo + t.Choice(label, hi-lo+1)
}

// U64 returns 64 tape-derived bits (two decisions of 2^32).
func (t *Tape) U64(label string) uint64 {
	a := uint64(t.Choice(label, 1<<32))
	b := uint64(t.Choice(label, 1<<32))
	return a<<32 | b
}

// Bytes fills a buffer from the tape in 4-byte units.
func (t *Tape) Bytes(label string, n int) []byte {
	b := make([]byte, n)
	for i := 0; i < n; i += 4 {
		v := t.Choice(label, 1<<32)
		for j := 0; j < 4 && i+j < n; j++ {
			b[i+j] = byte(v >> (8 * j))
		}
	}
	return b
}

// Pos is the number of decisions consumed.
func (t *Tape) Pos() int { return t.pos }

// Values materialises the resolved values of the decisions taken so far.
func (t *Tape) Values() []uint64 {
	out := make([]uint64, len(t.Rec))
	for i, d := range t.Rec {
		out[i] = uint64(d.V)
	}
	return out
}

// TraceHash is a hash over the resolved decision sequence (labels and values).
func (t *Tape) TraceHash() uint64 {
	h := uint64(14695981039346656037)
	for _, d := range t.Rec {
		h = MixS(h, d.Label)
		h = Mix(h, uint64(d.V))
	}
	return h
}

func (d Decision) String() string { return fmt.Sprintf("%s=%d/%d", d.Label, d.V, d.N) }
