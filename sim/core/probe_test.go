package core
import ("testing"; _ "github.com/anishathalye/porcupine"; _ "github.com/scionproto/scion/private/ringbuf")
func TestX(t *testing.T){}
