package refmodel_test

import (
	"bytes"
	"testing"

	"github.com/scionproto/scion/pkg/scrypto"
	spath "github.com/scionproto/scion/pkg/slayers/path"
	"github.com/scionproto/scion/router/control"
	"verif/sim/refmodel"
)

// Sanity cross-check of the independent reference implementation against the repository's on a
// few vectors (the oracles never call the repository's functions).
func TestAgainstRepo(t *testing.T) {
	master := []byte("0123456789abcdefgh")
	k1, k2 := refmodel.DeriveHopKey(master), control.DeriveHFMacKey(master)
	if !bytes.Equal(k1, k2) {
		t.Fatalf("key derivation differs")
	}
	h, _ := scrypto.InitMac(k2)
	for i := 0; i < 50; i++ {
		inf := spath.InfoField{SegID: uint16(i * 977), Timestamp: uint32(1000000 + i)}
		hf := spath.HopField{ExpTime: uint8(i * 5), ConsIngress: uint16(i), ConsEgress: uint16(3 * i)}
		buf := make([]byte, spath.MACBufferSize)
		full := spath.FullMAC(h, inf, hf, buf)
		ref := refmodel.HopMACFull(k1, inf.SegID, inf.Timestamp, hf.ExpTime, hf.ConsIngress, hf.ConsEgress)
		if !bytes.Equal(full, ref[:]) {
			t.Fatalf("MAC differs at %d", i)
		}
	}
	for n := 0; n < 70; n++ {
		msg := bytes.Repeat([]byte{byte(n)}, n)
		h.Reset()
		h.Write(msg)
		want := h.Sum(nil)
		got := refmodel.CMAC(k1, msg)
		if !bytes.Equal(want, got[:]) {
			t.Fatalf("CMAC differs for len %d", n)
		}
	}
}
