// Package refmodel is an independent re-implementation, written from doc/protocols/*.rst and the
// property statements, of the pieces of the SCION data plane the oracles need: header parsing,
// hop-field MAC and segment-ID chaining, expiry, checksums. It deliberately does not import
// pkg/slayers or router code.
package refmodel

import (
	"crypto/aes"
	"crypto/pbkdf2"
	"crypto/sha256"
	"encoding/binary"
	"fmt"
	"time"
)

// ---- AES-CMAC (RFC 4493) ----

func shl(in [16]byte) (out [16]byte, carry byte) {
	for i := 15; i >= 0; i-- {
		out[i] = in[i]<<1 | carry
		carry = in[i] >> 7
	}
	return
}

// CMAC computes AES-CMAC of msg under a 16-byte key.
func CMAC(key, msg []byte) [16]byte {
	c, err := aes.NewCipher(key)
	if err != nil {
		panic(err)
	}
	var l, k1, k2 [16]byte
	c.Encrypt(l[:], l[:])
	k1, cy := shl(l)
	if cy != 0 {
		k1[15] ^= 0x87
	}
	k2, cy = shl(k1)
	if cy != 0 {
		k2[15] ^= 0x87
	}
	n := (len(msg) + 15) / 16
	complete := n > 0 && len(msg)%16 == 0
	if n == 0 {
		n = 1
	}
	var x [16]byte
	for i := 0; i < n-1; i++ {
		for j := 0; j < 16; j++ {
			x[j] ^= msg[16*i+j]
		}
		c.Encrypt(x[:], x[:])
	}
	var last [16]byte
	rem := msg[16*(n-1):]
	copy(last[:], rem)
	if complete {
		for j := range last {
			last[j] ^= k1[j]
		}
	} else {
		last[len(rem)] = 0x80
		for j := range last {
			last[j] ^= k2[j]
		}
	}
	for j := 0; j < 16; j++ {
		x[j] ^= last[j]
	}
	c.Encrypt(x[:], x[:])
	return x
}

// DeriveHopKey derives the hop-field MAC key from an AS master key (PBKDF2-HMAC-SHA256, salt
// "Derive OF Key", 1000 iterations, 16 bytes), as the deployment documentation states.
func DeriveHopKey(master []byte) []byte {
	k, err := pbkdf2.Key(sha256.New, string(master), []byte("Derive OF Key"), 1000, 16)
	if err != nil {
		panic(err)
	}
	return k
}

// HopMACFull is the full 16-byte MAC (sigma) of a hop field: CMAC over
// 0(2) beta(2) timestamp(4) 0(1) exptime(1) consIngress(2) consEgress(2) 0(2).
func HopMACFull(key []byte, beta uint16, ts uint32, exp uint8, in, eg uint16) [16]byte {
	var b [16]byte
	binary.BigEndian.PutUint16(b[2:], beta)
	binary.BigEndian.PutUint32(b[4:], ts)
	b[9] = exp
	binary.BigEndian.PutUint16(b[10:], in)
	binary.BigEndian.PutUint16(b[12:], eg)
	return CMAC(key, b[:])
}

// EpicHVF computes an EPIC hop validation field: the first 4 bytes of the AES-CBC-MAC (zero IV),
// keyed with the hop's full 16-byte MAC sigma, over
// flags(1: source host address length bits) timestamp(4) EpicTS(4) Counter(4) SrcIA(8) SrcHost PayloadLen(2),
// zero-padded to a multiple of 16 bytes. (The documentation draws the length bits at the top of the
// flags byte; like the implementation on both the host and the router side, the low bits are used.)
func EpicHVF(sigma [16]byte, sl uint8, ts, epicTS, counter uint32, srcIA uint64, srcHost []byte, payloadLen uint16) [4]byte {
	in := make([]byte, 0, 64)
	in = append(in, sl&3)
	in = binary.BigEndian.AppendUint32(in, ts)
	in = binary.BigEndian.AppendUint32(in, epicTS)
	in = binary.BigEndian.AppendUint32(in, counter)
	in = binary.BigEndian.AppendUint64(in, srcIA)
	in = append(in, srcHost...)
	in = binary.BigEndian.AppendUint16(in, payloadLen)
	for len(in)%16 != 0 {
		in = append(in, 0)
	}
	c, err := aes.NewCipher(sigma[:])
	if err != nil {
		panic(err)
	}
	var x [16]byte
	for i := 0; i < len(in); i += 16 {
		for j := 0; j < 16; j++ {
			x[j] ^= in[i+j]
		}
		c.Encrypt(x[:], x[:])
	}
	var out [4]byte
	copy(out[:], x[:4])
	return out
}

// EpicSenderTime is the instant an EPIC packet claims to have been sent at:
// segment timestamp + (1+EpicTS) * 21 microseconds.
func EpicSenderTime(ts, epicTS uint32) time.Time {
	return time.Unix(int64(ts), 0).Add(time.Duration(int64(epicTS)+1) * 21 * time.Microsecond)
}

// ExpiryOf returns timestamp + (1+ExpTime) * 24h/256.
func ExpiryOf(ts uint32, exp uint8) time.Time {
	unit := 24 * time.Hour / 256
	return time.Unix(int64(ts), 0).Add(time.Duration(int(exp)+1) * unit)
}

// ---- header parsing ----

const (
	PathEmpty  = 0
	PathSCION  = 1
	PathOneHop = 2
	PathEPIC   = 3

	L4TCP  = 6
	L4UDP  = 17
	HBH    = 200
	E2E    = 201
	L4SCMP = 202
	L4BFD  = 203
)

// Info is a decoded info field.
type Info struct {
	Off       int
	ConsDir   bool
	Peer      bool
	SegID     uint16
	Timestamp uint32
}

// Hop is a decoded hop field.
type Hop struct {
	Off          int
	IngressAlert bool
	EgressAlert  bool
	ExpTime      uint8
	ConsIngress  uint16
	ConsEgress   uint16
	MAC          [6]byte
}

// Packet is a decoded SCION packet (offsets refer to Raw).
type Packet struct {
	Raw          []byte
	Version      uint8
	TrafficClass uint8
	FlowID       uint32
	NextHdr      uint8
	HdrLen       int // bytes
	PayloadLen   int
	PathType     uint8
	DT, DL, ST, SL uint8
	DstIA, SrcIA uint64
	DstHost, SrcHost []byte
	AddrLen      int
	PathOff      int
	PathLen      int

	// SCION / EPIC embedded path
	HasSCION bool
	MetaOff  int
	CurrINF  int
	CurrHF   int
	SegLen   [3]int
	NumINF   int
	NumHops  int
	Infos    []Info
	Hops     []Hop

	// EPIC
	EpicTS, EpicCounter uint32
	PHVF, LHVF          [4]byte

	// one-hop
	OHInfo        Info
	OHFirst, OHSecond Hop

	// upper layers
	HBHOff, E2EOff int // -1 if absent
	L4Type         uint8
	L4Off          int
}

func parseInfo(b []byte, off int) Info {
	return Info{Off: off, ConsDir: b[off]&1 != 0, Peer: b[off]&2 != 0,
		SegID: binary.BigEndian.Uint16(b[off+2:]), Timestamp: binary.BigEndian.Uint32(b[off+4:])}
}

func parseHop(b []byte, off int) Hop {
	h := Hop{Off: off, EgressAlert: b[off]&1 != 0, IngressAlert: b[off]&2 != 0, ExpTime: b[off+1],
		ConsIngress: binary.BigEndian.Uint16(b[off+2:]), ConsEgress: binary.BigEndian.Uint16(b[off+4:])}
	copy(h.MAC[:], b[off+6:off+12])
	return h
}

func hostLen(t, l uint8) int { return 4 * (int(l) + 1) }

// Parse decodes a SCION packet. It fails on inconsistent lengths.
func Parse(raw []byte) (*Packet, error) {
	p := &Packet{Raw: raw, HBHOff: -1, E2EOff: -1}
	if len(raw) < 12 {
		return nil, fmt.Errorf("short common header")
	}
	w := binary.BigEndian.Uint32(raw)
	p.Version = uint8(w >> 28)
	p.TrafficClass = uint8(w >> 20)
	p.FlowID = w & 0xfffff
	p.NextHdr = raw[4]
	p.HdrLen = int(raw[5]) * 4
	p.PayloadLen = int(binary.BigEndian.Uint16(raw[6:]))
	p.PathType = raw[8]
	p.DT, p.DL, p.ST, p.SL = raw[9]>>6, raw[9]>>4&3, raw[9]>>2&3, raw[9]&3
	dl, sl := hostLen(p.DT, p.DL), hostLen(p.ST, p.SL)
	p.AddrLen = 16 + dl + sl
	if p.HdrLen < 12+p.AddrLen || len(raw) < p.HdrLen {
		return nil, fmt.Errorf("header length %d inconsistent (addr %d, data %d)", p.HdrLen, p.AddrLen, len(raw))
	}
	if len(raw) != p.HdrLen+p.PayloadLen {
		return nil, fmt.Errorf("payload length %d inconsistent with data %d - header %d", p.PayloadLen, len(raw), p.HdrLen)
	}
	p.DstIA = binary.BigEndian.Uint64(raw[12:])
	p.SrcIA = binary.BigEndian.Uint64(raw[20:])
	p.DstHost = raw[28 : 28+dl]
	p.SrcHost = raw[28+dl : 28+dl+sl]
	p.PathOff = 12 + p.AddrLen
	p.PathLen = p.HdrLen - p.PathOff
	off := p.PathOff
	switch p.PathType {
	case PathEmpty:
		if p.PathLen != 0 {
			return nil, fmt.Errorf("empty path with %d bytes", p.PathLen)
		}
	case PathOneHop:
		if p.PathLen != 32 {
			return nil, fmt.Errorf("one-hop path with %d bytes", p.PathLen)
		}
		p.OHInfo = parseInfo(raw, off)
		p.OHFirst = parseHop(raw, off+8)
		p.OHSecond = parseHop(raw, off+20)
	case PathEPIC:
		if p.PathLen < 16 {
			return nil, fmt.Errorf("short EPIC path")
		}
		p.EpicTS = binary.BigEndian.Uint32(raw[off:])
		p.EpicCounter = binary.BigEndian.Uint32(raw[off+4:])
		copy(p.PHVF[:], raw[off+8:])
		copy(p.LHVF[:], raw[off+12:])
		off += 16
		fallthrough
	case PathSCION:
		if p.HdrLen-off < 4 {
			return nil, fmt.Errorf("short path meta")
		}
		p.HasSCION = true
		p.MetaOff = off
		m := binary.BigEndian.Uint32(raw[off:])
		p.CurrINF = int(m >> 30)
		p.CurrHF = int(m >> 24 & 0x3f)
		p.SegLen = [3]int{int(m >> 12 & 0x3f), int(m >> 6 & 0x3f), int(m & 0x3f)}
		for i, l := range p.SegLen {
			if l > 0 {
				if i > 0 && p.SegLen[i-1] == 0 {
					return nil, fmt.Errorf("segment lengths not contiguous %v", p.SegLen)
				}
				p.NumINF++
				p.NumHops += l
			}
		}
		if p.NumINF == 0 {
			return nil, fmt.Errorf("no segments")
		}
		if p.HdrLen-off != 4+8*p.NumINF+12*p.NumHops {
			return nil, fmt.Errorf("path length %d does not match meta %v", p.HdrLen-off, p.SegLen)
		}
		if p.CurrHF >= p.NumHops || p.CurrINF >= p.NumINF {
			return nil, fmt.Errorf("path pointers out of range: inf %d/%d hf %d/%d", p.CurrINF, p.NumINF, p.CurrHF, p.NumHops)
		}
		if p.SegOfHop(p.CurrHF) != p.CurrINF {
			return nil, fmt.Errorf("current info %d does not contain current hop %d (%v)", p.CurrINF, p.CurrHF, p.SegLen)
		}
		off += 4
		for i := 0; i < p.NumINF; i++ {
			p.Infos = append(p.Infos, parseInfo(raw, off))
			off += 8
		}
		for i := 0; i < p.NumHops; i++ {
			p.Hops = append(p.Hops, parseHop(raw, off))
			off += 12
		}
	default:
		return nil, fmt.Errorf("unknown path type %d", p.PathType)
	}
	// extension headers and L4
	nh := p.NextHdr
	o := p.HdrLen
	for step := 0; step < 2; step++ {
		if (nh == HBH && step == 0) || nh == E2E {
			if len(raw) < o+4 {
				return nil, fmt.Errorf("short extension header")
			}
			l := (int(raw[o+1]) + 1) * 4
			if len(raw) < o+l {
				return nil, fmt.Errorf("extension header exceeds data")
			}
			if nh == HBH {
				p.HBHOff = o
			} else {
				p.E2EOff = o
			}
			nh = raw[o]
			o += l
			if p.E2EOff >= 0 {
				break
			}
		}
	}
	p.L4Type = nh
	p.L4Off = o
	return p, nil
}

// SegOfHop returns the index of the segment containing hop h.
func (p *Packet) SegOfHop(h int) int {
	if h < p.SegLen[0] {
		return 0
	}
	if h < p.SegLen[0]+p.SegLen[1] {
		return 1
	}
	return 2
}

// SegStart returns the index of the first hop of segment s.
func (p *Packet) SegStart(s int) int {
	n := 0
	for i := 0; i < s; i++ {
		n += p.SegLen[i]
	}
	return n
}

// IsLastHopOfSeg tells whether hop h is the last hop field of its segment.
func (p *Packet) IsLastHopOfSeg(h int) bool {
	s := p.SegOfHop(h)
	return h == p.SegStart(s)+p.SegLen[s]-1
}

// IsFirstHopOfSeg tells whether hop h is the first hop field of its segment.
func (p *Packet) IsFirstHopOfSeg(h int) bool { return h == p.SegStart(p.SegOfHop(h)) }

// HopValidFor checks the MAC of hop h under key with the accumulator value beta, and reports the
// full MAC.
func (p *Packet) HopValidFor(key []byte, h int, beta uint16) (bool, [16]byte) {
	hf := p.Hops[h]
	inf := p.Infos[p.SegOfHop(h)]
	full := HopMACFull(key, beta, inf.Timestamp, hf.ExpTime, hf.ConsIngress, hf.ConsEgress)
	return string(full[:6]) == string(hf.MAC[:]), full
}

// HopExpiry returns the expiry instant of hop h.
func (p *Packet) HopExpiry(h int) time.Time {
	return ExpiryOf(p.Infos[p.SegOfHop(h)].Timestamp, p.Hops[h].ExpTime)
}

// TravelIngress / TravelEgress return the interfaces of hop h in travel direction.
func (p *Packet) TravelIngress(h int) uint16 {
	if p.Infos[p.SegOfHop(h)].ConsDir {
		return p.Hops[h].ConsIngress
	}
	return p.Hops[h].ConsEgress
}

func (p *Packet) TravelEgress(h int) uint16 {
	if p.Infos[p.SegOfHop(h)].ConsDir {
		return p.Hops[h].ConsEgress
	}
	return p.Hops[h].ConsIngress
}

// Checksum16 is the Internet one's-complement sum folded to 16 bits over the given chunks (as if
// concatenated; every chunk but the last must have even length).
func Checksum16(chunks ...[]byte) uint16 {
	var sum uint32
	for _, c := range chunks {
		for i := 0; i+1 < len(c); i += 2 {
			sum += uint32(c[i])<<8 | uint32(c[i+1])
		}
		if len(c)%2 == 1 {
			sum += uint32(c[len(c)-1]) << 8
		}
	}
	for sum>>16 != 0 {
		sum = sum&0xffff + sum>>16
	}
	return uint16(sum)
}

// UpperLayerSum computes the one's-complement sum over the SCION pseudo header and the upper-layer
// data (which includes the checksum field); 0xffff means the checksum verifies.
func (p *Packet) UpperLayerSum(proto uint8) uint16 {
	ul := p.Raw[p.L4Off:]
	var ph [8]byte
	binary.BigEndian.PutUint32(ph[0:], uint32(len(ul)))
	ph[7] = proto
	return Checksum16(p.Raw[12:12+p.AddrLen], ph[:], ul)
}
